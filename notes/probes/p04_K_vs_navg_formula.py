import math, itertools
def rhu(val):
    if (float(val)%1)>=0.5: return math.ceil(val)
    return round(val)
cnt=0; ex=[]
for olap in [0.1,0.2,0.3,0.4,0.6,0.7,0.75,0.8,0.9,0.95,0.99,0.33,0.66,0.705,0.612]:
    xov=1-olap
    for N in range(8,1500):
        for L in range(1,N+1):
            a=int(rhu((N-L)/(xov*L)+1)); b=int(rhu(((N-L)/(1-olap))/L+1))
            if a!=b:
                cnt+=1
                if len(ex)<10: ex.append((olap,N,L,a,b))
print(cnt,ex)
