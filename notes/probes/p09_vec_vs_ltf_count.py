import numpy as np, warnings
warnings.filterwarnings("ignore")
from speckit.schedulers import ltf_plan, vectorized_ltf_plan
rng=np.random.default_rng(7)
for Jdes in (1,2,5,10,20,50,100,200,500,1000,3000):
    w=0;arg=None;cnt=0
    for it in range(150):
        N=int(10**rng.uniform(1,5.5)); N=max(N,8); fs=float(rng.choice([1.0,2.0,10.0,3.3]))
        olap=float(rng.choice([0.0,0.5,0.75,0.9,0.3,rng.random()*0.95]))
        bmin=float(rng.choice([1.0,1.5,2.0,3.7])); 
        if bmin>=N/2: bmin=1.0
        Lmin=int(rng.choice([1,1,2,8,min(N,64)])); Kdes=int(rng.choice([1,2,10,100]))
        cfg=dict(N=N,fs=fs,olap=olap,bmin=bmin,Lmin=Lmin,Jdes=Jdes,Kdes=Kdes)
        a=ltf_plan(**cfg)["nf"]; b=vectorized_ltf_plan(**cfg)["nf"]
        r=abs(a-b)/a
        if r>0.1: cnt+=1
        if r>w: w=r;arg=(a,b,cfg)
    print(Jdes,"worst",round(w,3),"n>10%",cnt,arg)
