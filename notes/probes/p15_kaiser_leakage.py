import numpy as np, warnings
warnings.filterwarnings("ignore")
import logging; logging.disable(logging.CRITICAL)
from speckit import SpectrumAnalyzer
from speckit.utils import kaiser_alpha
rng=np.random.default_rng(0)
for L in (64,257,4096,100000,1000000):
  for P in (40,100,200):
    al=kaiser_alpha(P); ml=np.sqrt(1+al*al)
    worst=-1e9
    for trial in range(6):
        b0=rng.uniform(ml+1, L/2-ml-1) if L/2>2*ml+2 else L/4
        if trial==0: b0=ml+1.0
        if trial==1: b0=L/2-ml-1
        ph=rng.uniform(0,2*np.pi)
        n=np.arange(L); x=np.cos(2*np.pi*b0*n/L+ph)
        an=SpectrumAnalyzer(x,1.0,win="kaiser",psll=P,order=-1)
        p0=an.compute_single_bin(b0/L,L=L).ps[0]
        for off in (ml*1.0001, ml+0.5, ml+3.3, 2*ml+10.7, -(ml*1.0001), -(ml+2.5)):
            b=b0+off
            if b<0 or b>L/2: continue
            p=an.compute_single_bin(b/L,L=L).ps[0]
            rel=10*np.log10(max(p,1e-320)/p0)
            worst=max(worst,rel+P)
    print("L",L,"P",P,"alpha",round(al,3),"worst (dB above -P):",round(worst,2))
