import numpy as np, warnings
from fractions import Fraction as Fr
warnings.filterwarnings("ignore")
from speckit.dsp import lagrange_taps, timeshift, polynomial_detrend, integral_rms
def exact_taps(d,h):
    nodes=list(range(-(h-1),h+1)); out=[]
    for k in nodes:
        num=Fr(1);den=Fr(1)
        for m in nodes:
            if m!=k: num*= (d-m); den*=(k-m)
        out.append(num/den)
    return out
worst=0
for order in range(1,112,2):
    h=(order+1)//2
    for d in (Fr(0),Fr(1,3),Fr(1,2),Fr(9,10),Fr(1,1000),Fr(999,1000)):
        t=lagrange_taps(np.array([float(d)]),h)[0]
        e=np.array([float(v) for v in exact_taps(d,h)])
        err=np.max(np.abs(t-e))/max(1,np.max(np.abs(e)))
        worst=max(worst,err)
print("taps worst rel err",worst)
rng=np.random.default_rng(0)
x=rng.standard_normal(200)
# integer shift
for s in (3.0,-5.0,250.0,-250.0,199.0,-199.0, 185.0):
    out=timeshift(x,s,order=31)
    idx=np.clip(np.arange(200)+int(s),0,199)
    print("int shift",s,np.max(np.abs(out-x[idx])))
# polynomial reproduction at interior
n=np.arange(200.0)
for order in (1,3,5,31,111):
    p=np.polynomial.Polynomial(rng.standard_normal(min(order,7)+1)/ (100.0**np.arange(min(order,7)+1)))
    for s in (0.37,-2.6,17.25):
        out=timeshift(p(n),s,order=order)
        h=(order+1)//2
        lo=max(0,int(np.ceil(h-1-np.floor(s)))); hi=min(200,int(200-h-np.floor(s)))
        ref=p(n+s)
        print("poly",order,s,np.max(np.abs(out[lo:hi]-ref[lo:hi])/np.maximum(1,np.abs(ref[lo:hi]))))
# const vs variable path
for s in (0.37,-2.6,17.25):
    a=timeshift(x,s,order=5); b=timeshift(x,np.full(200,s),order=5)
    h=3; lo=max(0,int(np.ceil(h-1-np.floor(s)))); hi=min(200,int(200-h-np.floor(s)))
    print("paths",s,np.max(np.abs(a[lo:hi]-b[lo:hi])), "edges differ:",np.max(np.abs(a-b)))
