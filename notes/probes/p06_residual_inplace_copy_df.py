import numpy as np, warnings, copy, pickle, traceback
warnings.filterwarnings("ignore")
import logging; logging.disable(logging.CRITICAL)
import speckit
from speckit import compute_spectrum, SpectrumAnalyzer
rng=np.random.default_rng(1)
N=4000; x=rng.standard_normal(N); 
# delayed coupling
d=3
y=0.7*np.roll(x,d)+0.3*rng.standard_normal(N)
r=compute_spectrum(np.vstack([x,y]),1.0,Jdes=30,Kdes=10,Lmin=50)
lhs=r.GyySx; rhs=r.Gyy*(1-r.coh)
print("C09 GyySx vs Gyy(1-coh): max rel", np.max(np.abs(lhs-rhs)/rhs), " GyyRx match", np.max(abs(r.GyyRx-rhs)))
print("C09 coh range", r.coh.min(), r.coh.max(), "K min", r.K.min())
print("C07 phase sign: mean(cf_rad + 2pi f d)", np.mean(np.angle(r.Hxy*np.exp(2j*np.pi*r.f*d))))
# zero-phase coupling
y2=0.7*x+0.3*rng.standard_normal(N)
r2=compute_spectrum(np.vstack([x,y2]),1.0,Jdes=30,Kdes=10,Lmin=50)
print("zero-phase GyySx rel err", np.max(np.abs(r2.GyySx-r2.Gyy*(1-r2.coh))/(r2.Gyy*(1-r2.coh)+1e-300)))
# C13 in place
a=rng.standard_normal(100); a[5]=np.nan; a0=a.copy()
SpectrumAnalyzer(a,1.0)
print("C13 caller 1D modified:", not np.array_equal(a,a0,equal_nan=True), a[5])
b=rng.standard_normal((2,100)); b[1,7]=np.inf; b0=b.copy()
SpectrumAnalyzer(b,1.0)
print("C13 caller 2xN modified:", not np.array_equal(b,b0,equal_nan=True), b[1,7])
c=rng.standard_normal((100,2)); c[7,1]=np.inf; c0=c.copy()
SpectrumAnalyzer(c,1.0)
print("C13 caller Nx2 modified:", not np.array_equal(c,c0,equal_nan=True))
# C20 copy/pickle
for nm,fn in [("copy",copy.copy),("deepcopy",copy.deepcopy),("pickle",lambda o: pickle.loads(pickle.dumps(o)))]:
    try:
        rr=fn(r2); print("C20",nm,"ok",np.array_equal(rr.Gxx,r2.Gxx))
    except BaseException as e: print("C20",nm,"EXC",type(e).__name__,str(e)[:80])
# C20 dataframe
try:
    df=r2.to_dataframe(); print("df ok",df.shape)
except BaseException as e: print("df EXC",type(e).__name__,str(e)[:100])
sb=SpectrumAnalyzer(np.vstack([x,y2]),1.0).compute_single_bin(0.1,L=400)
try:
    df=sb.to_dataframe(); print("single-bin df ok",df.shape, list(df.columns)[:5])
except BaseException as e: print("single-bin df EXC",type(e).__name__,str(e)[:100])
sb1=SpectrumAnalyzer(x,1.0).compute_single_bin(0.1,L=400)
try:
    df=sb1.to_dataframe(); print("single-bin auto df ok",df.shape)
except BaseException as e: print("single-bin auto df EXC",type(e).__name__,str(e)[:100])
# plan with equal K in all bins
xx=rng.standard_normal(64)
for sched in ("ltf","vectorized_ltf"):
    ra=compute_spectrum(xx,1.0,Jdes=5,Kdes=1,olap=0.0,scheduler=sched)
    print(sched,"K",ra.K, "D dtype/shape",ra.D.dtype, ra.D.shape)
    try:
        df=ra.to_dataframe(); print(" df ok",df.shape)
    except BaseException as e: print(" df EXC",type(e).__name__,str(e)[:100])
