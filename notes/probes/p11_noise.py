import numpy as np, warnings
warnings.filterwarnings("ignore")
from speckit.noise import white_noise, red_noise, alpha_noise, pink_noise, fftnoise, band_limited_noise
from scipy import signal
def mk(kind,seed):
    if kind=="white": return white_noise(10.0,2.0,seed=seed)
    if kind=="red": return red_noise(10.0,0.5,seed=seed)
    if kind=="alpha": return alpha_noise(10.0,0.05,4.0,1.3,seed=seed)
    if kind=="pink": return pink_noise(10.0,0.05,4.0,seed=seed)
for kind in ("white","red","alpha","pink"):
    a=mk(kind,3); b=mk(kind,3)
    whole=a.get_series(1000)
    chunks=[0,1,7,0,100,1,891]
    parts=np.concatenate([b.get_series(n) for n in chunks])
    print(kind,"chunk max diff",np.max(np.abs(whole-parts)), "bitwise", np.array_equal(whole,parts))
    c=mk(kind,3); s=np.array([c.get_sample() for _ in range(50)])
    print(kind,"get_sample prefix equal", np.array_equal(s,whole[:50]))
# cascade vs scipy reference
g=alpha_noise(10.0,0.05,4.0,1.3,seed=1,init_filter=False)
w=np.random.default_rng(0).standard_normal(500)
from speckit.noise import _numba_lfilter_cascade
out,_=_numba_lfilter_cascade(w,g._a_coeffs,g._b_coeffs,np.zeros_like(g._zi_states))
ref=w.copy()
for a,b in zip(g._a_coeffs,g._b_coeffs): ref=signal.lfilter(a,b,ref)
print("cascade vs lfilter",np.max(np.abs(out-ref)))
# fftnoise
rng=np.random.default_rng(0)
for N in (2,3,4,5,8,9,64,65):
    mag=rng.random(N)+0.1
    x=fftnoise(mag.astype(complex),rng=rng)
    F=np.fft.fft(x)
    Np=(N-1)//2
    pres=mag.copy(); 
    for k in range(1,Np+1): pres[N-k]=mag[k]
    print(N,"real",np.isrealobj(x),"mag err",np.max(np.abs(np.abs(F)-pres)))
x=band_limited_noise(10,50,samples=4096,samplerate=1000.0,rng=rng)
F=np.abs(np.fft.fft(x)); fr=np.abs(np.fft.fftfreq(4096,1/1000.0)); print("out of band max",F[(fr<10)|(fr>50)].max(),"in band min",F[(fr>=10)&(fr<=50)].min())
