import numpy as np, warnings
warnings.filterwarnings("ignore")
from speckit import core
rng=np.random.default_rng(0)
N=200; x=rng.standard_normal(N); y=rng.standard_normal(N)
L=37; starts=np.array([0,5,17,163,163,40],dtype=np.int64); w=np.hanning(L)+0.1; om=0.7
def ref(x,y,order):
    XX=[];YY=[];XY=[]
    n=np.arange(L)
    for s in starts:
        def tr(z):
            seg=z[s:s+L].copy()
            if order>=0:
                c=np.polyfit(n,seg,order); seg=seg-np.polyval(c,n)
            return np.sum(w*seg*np.exp(-1j*om*n))
        X=tr(x);Y=tr(y)
        XX.append(abs(X)**2);YY.append(abs(Y)**2);XY.append(X*np.conj(Y))
    XY=np.array(XY); mu=XY.mean()
    return np.mean(XX),np.mean(YY),mu.real,mu.imag,np.mean(abs(XY-mu)**2)
print("ref   -1",ref(x,y,-1))
print("numba -1",core._stats_win_only_csd(x,y,starts,L,w,om))
print("numpy -1",core._stats_win_only_csd_np(x,y,starts,L,w,om))
print("ref    0",ref(x,y,0))
print("numba  0",core._stats_detrend0_csd(x,y,starts,L,w,om))
print("numpy  0",core._stats_detrend0_csd_np(x,y,starts,L,w,om))
for o in (1,2):
    Q=core._build_Q(L,o)
    print("ref   ",o,ref(x,y,o))
    print("numba ",o,core._stats_poly_csd(x,y,starts,L,w,om,Q))
    print("numpy ",o,core._stats_poly_csd_np(x,y,starts,L,w,om,Q))
