import numpy as np, warnings, numba
warnings.filterwarnings("ignore")
import logging; logging.disable(logging.CRITICAL)
from speckit import compute_spectrum, SpectrumAnalyzer
rng=np.random.default_rng(0)
names=["Gxx","Gyy","Gxy","ENBW","csd","Gyx","Hxy","Hyx","coh","ccoh","cs","tf","cf","cf_db","cf_rad","cf_deg","GyyCx","GyyRx","GyySx","Gxx_dev","Gyy_dev","Gxy_dev","Hxy_dev","coh_dev","Gxx_error","Gxy_error","Hxy_mag_error","Hxy_rad_error","coh_error","XY_emp_var","XY_emp_dev","Gxy_emp_dev"]
for label,data in (("zeros",np.zeros((2,500))),("const",np.ones((2,500))*3),("x,0",np.vstack([rng.standard_normal(500),np.zeros(500)])),("identical",np.vstack([np.arange(500.0)]*2))):
  for order in (-1,0,1,2):
    r=compute_spectrum(data,1.0,order=order,Jdes=20,Kdes=5)
    bad=[n for n in names if not np.all(np.isfinite(getattr(r,n)))]
    print(label,order,"nonfinite:",bad)
x=rng.standard_normal((2,30000))
base=None
for nt in (1,2,3,7,16):
    numba.set_num_threads(nt)
    for cs in (0,1,5):
        numba.set_parallel_chunksize(cs)
        r=compute_spectrum(x,1.0,order=1,Jdes=50,Kdes=20)
        v=(r.XX.tobytes(),r.YY.tobytes(),r.XY.tobytes(),r.M2.tobytes())
        if base is None: base=v
        print(nt,cs,v==base)
