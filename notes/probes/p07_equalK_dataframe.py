import numpy as np, warnings
warnings.filterwarnings("ignore")
import logging; logging.disable(logging.CRITICAL)
from speckit import compute_spectrum, SpectrumAnalyzer
rng=np.random.default_rng(1)
xx=rng.standard_normal(64)
for kw in (dict(Lmin=64),dict(band=(0.2,0.5),Jdes=10,Kdes=2)):
  for sched in ("ltf","vectorized_ltf"):
    try:
        ra=compute_spectrum(xx,1.0,scheduler=sched,**kw)
        print(sched,kw,"K",ra.K[:8], "D shape",ra.D.shape)
        df=ra.to_dataframe(); print(" df ok",df.shape)
    except BaseException as e: print(" EXC",type(e).__name__,str(e)[:100])
