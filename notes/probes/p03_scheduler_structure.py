import numpy as np, warnings, sys, collections, math
warnings.filterwarnings("ignore")
from speckit.schedulers import lpsd_plan, ltf_plan, vectorized_ltf_plan, new_ltf_plan
rng=np.random.default_rng(int(sys.argv[1]) if len(sys.argv)>1 else 0)
S={"lpsd":lpsd_plan,"ltf":ltf_plan,"vec":vectorized_ltf_plan,"new":new_ltf_plan}
fails=collections.defaultdict(list)
def chk(name,cond,cfg,info=None):
    if not cond:
        fails[name].append((cfg,info))
ncfg=int(sys.argv[2]) if len(sys.argv)>2 else 300
for it in range(ncfg):
    N=int(rng.choice([8,9,10,16,33,100,257,1000,4096,10000]))
    if rng.random()<0.5: N=int(rng.integers(8,3000))
    fs=float(rng.choice([1.0,2.0,0.5,10.0,1000.0,3.3]))
    olap=float(rng.choice([0.0,0.5,0.75,0.9,0.3,0.99,rng.random()]))
    bmin=float(rng.choice([1.0,1.5,2.0,3.7,rng.uniform(1,max(1.0001,min(N/2-0.01,10)))]))
    if bmin>=N/2: bmin=1.0
    Lmin=int(rng.choice([1,1,2,8,N//4+1,N]))
    Lmin=max(1,min(Lmin,N))
    Jdes=int(rng.choice([1,2,5,10,50,100,500]))
    Kdes=int(rng.choice([1,2,10,100]))
    for sn,sf in S.items():
        cfg=dict(N=N,fs=fs,olap=olap,bmin=bmin,Lmin=Lmin,Jdes=Jdes,Kdes=Kdes)
        key=sn
        try:
            p=sf(**cfg)
        except BaseException as e:
            fails[key+":exception"].append((cfg,repr(e)[:100])); continue
        if sn=="lpsd": b_eff,Lm_eff=1.0,1
        else: b_eff,Lm_eff=bmin,Lmin
        nf=p["nf"]; f=np.asarray(p["f"]);r=np.asarray(p["r"]);L=np.asarray(p["L"]);K=np.asarray(p["K"]);navg=np.asarray(p["navg"]);D=p["D"];b=np.asarray(p["b"]);O=np.asarray(p["O"])
        chk(key+":nf>=1",nf>=1,cfg)
        if nf<1: continue
        for j in range(nf):
            d=np.asarray(D[j]); Lj=int(L[j])
            chk(key+":C02 K>=1",len(d)>=1,cfg,j)
            if len(d)<1: continue
            chk(key+":C02 navg==len(D)",int(navg[j])==len(d),cfg,(j,int(navg[j]),len(d)))
            chk(key+":C02 K==len(D)",int(K[j])==len(d),cfg,(j,int(K[j]),len(d)))
            chk(key+":C02 inrange",d.min()>=0 and d.max()+Lj<=N,cfg,(j,Lj,d.max()))
            chk(key+":C02 strictly inc",bool(np.all(np.diff(d)>0)),cfg,(j,Lj,len(d)))
            chk(key+":C02 start0",d[0]==0,cfg,j)
            chk(key+":C02 last ends at N",d[-1]+Lj==N,cfg,(j,Lj,int(d[-1]),len(d)))
            chk(key+":C02 L bounds",max(1,Lm_eff)<=Lj<=N,cfg,(j,Lj))
            chk(key+":C02 K=1 -> L=N",(len(d)!=1) or Lj==N,cfg,(j,Lj))
            # C03
            chk(key+":C03 r*L=fs",r[j]==fs/Lj,cfg,(j,r[j],fs/Lj))
            if j+1<nf: chk(key+":C03 step",f[j+1]==f[j]+r[j],cfg,(j,))
            chk(key+":C03 b=f/r",abs(b[j]-f[j]/r[j])<=1e-12*abs(b[j]),cfg,(j,b[j],f[j]/r[j]))
        chk(key+":C03 f0",f[0]==b_eff*fs/N or abs(f[0]-b_eff*fs/N)<1e-15*f[0],cfg,(f[0],b_eff*fs/N))
        chk(key+":C03 f inc",bool(np.all(np.diff(f)>0)),cfg)
        chk(key+":C03 f<nyq",f[-1]<fs/2,cfg)
        chk(key+":C04 L noninc",bool(np.all(np.diff(L)<=0)),cfg)
        chk(key+":C04 K nondec",bool(np.all(np.diff([len(d) for d in D])>=0)),cfg)
for k in sorted(fails):
    print(k,len(fails[k]),fails[k][0])
