"""Prototype: translate the numba kernel subset of core.py to Lean (generic over RealLike α)."""
import ast, sys, textwrap
SRC=open('/repo/speckit/core.py').read()
mod=ast.parse(SRC)
funcs={n.name:n for n in mod.body if isinstance(n,ast.FunctionDef)}

class Unsupported(Exception): pass

BIN={ast.Add:'+',ast.Sub:'-',ast.Mult:'*',ast.Div:'/'}
def assigned(stmts):
    out=[]
    for s in stmts:
        if isinstance(s,ast.Assign):
            for t in s.targets:
                if isinstance(t,ast.Name) and t.id not in out: out.append(t.id)
        elif isinstance(s,ast.AugAssign) and isinstance(s.target,ast.Name):
            if s.target.id not in out: out.append(s.target.id)
        elif isinstance(s,ast.For):
            for v in assigned(s.body):
                if v not in out: out.append(v)
    return out
def stores(stmts):
    out=[]
    for s in stmts:
        if isinstance(s,ast.Assign):
            for t in s.targets:
                if isinstance(t,ast.Subscript): out.append(t)
        elif isinstance(s,ast.For): out+=stores(s.body)
    return out

class Tr:
    def __init__(self, kinds): self.kinds=kinds  # name -> 'nat'|'real'|'arr1'|'arr2'
    def e(self,n):
        if isinstance(n,ast.Constant):
            if isinstance(n.value,float): return f"(RealLike.ofScientific {repr(n.value)!r})".replace("'", '"') if False else f"(lit {n.value!r})"
            if isinstance(n.value,int): return str(n.value)
        if isinstance(n,ast.Name): return n.id
        if isinstance(n,ast.BinOp) and type(n.op) in BIN:
            return f"({self.e(n.left)} {BIN[type(n.op)]} {self.e(n.right)})"
        if isinstance(n,ast.Subscript):
            base=self.e(n.value)
            if isinstance(n.slice,ast.Tuple): return "("+base+" "+" ".join(self.e(x) for x in n.slice.elts)+")"
            return f"({base} {self.e(n.slice)})"
        if isinstance(n,ast.Call):
            f=ast.unparse(n.func)
            a=[self.e(x) for x in n.args]
            if f in("np.cos","math.cos"): return f"(RealLike.cos {a[0]})"
            if f in("np.sin","math.sin"): return f"(RealLike.sin {a[0]})"
            if f=="int": return a[0]            # starts are already Nat in the model
            if f=="float": return f"(RealLike.ofNat {a[0]})"
            if f in funcs: return "("+f+" "+" ".join(a)+")"
        raise Unsupported(ast.dump(n)[:80])
    def block(self,stmts,ret,ind):
        """emit let-chain for stmts, ending in ret (string)."""
        out=[]
        pad=" "*ind
        for s in stmts:
            if isinstance(s,ast.Expr) and isinstance(s.value,ast.Constant): continue
            if isinstance(s,ast.Assign) and len(s.targets)==1 and isinstance(s.targets[0],ast.Name):
                if isinstance(s.value,ast.Call) and ast.unparse(s.value.func) in("np.empty","np.zeros"): continue
                if isinstance(s.value,ast.Attribute) or (isinstance(s.value,ast.Subscript) and isinstance(s.value.value,ast.Attribute)):
                    continue  # K = starts.shape[0] etc: sizes are explicit params
                out.append(f"{pad}let {s.targets[0].id} := {self.e(s.value)}")
            elif isinstance(s,ast.AugAssign) and isinstance(s.target,ast.Name) and type(s.op) in BIN:
                out.append(f"{pad}let {s.target.id} := ({s.target.id} {BIN[type(s.op)]} {self.e(s.value)})")
            elif isinstance(s,ast.For):
                it=ast.unparse(s.iter.func); bound=self.e(s.iter.args[0]); var=s.target.id
                st=stores(s.body)
                if st:
                    # map loop: every store must be exactly at [var]; arrays not read in body
                    for t in st:
                        if ast.unparse(t.slice)!=var: raise Unsupported("store not at loop index")
                    names=[t.value.id for t in st]
                    body=[x for x in s.body if not(isinstance(x,ast.Assign) and isinstance(x.targets[0],ast.Subscript))]
                    vals=[self.e(x.value) for x in s.body if isinstance(x,ast.Assign) and isinstance(x.targets[0],ast.Subscript)]
                    tup="("+", ".join(vals)+")"
                    inner=self.block(body,tup,ind+4)
                    out.append(f"{pad}let {var}_rows := fun ({var} : Nat) =>\n{inner}")
                    for i,nm in enumerate(names):
                        proj=f"({var}_rows {var})"+"".join([".2"]*i)+(".1" if i<len(names)-1 else "")
                        out.append(f"{pad}let {nm} := fun ({var} : Nat) => {proj}")
                else:
                    vs=assigned(s.body)
                    tup="("+", ".join(vs)+")"
                    inner=self.block(s.body,tup,ind+4)
                    out.append(f"{pad}let {tup} := forRange {bound} {tup} (fun {var} {tup} =>\n{inner})")
            elif isinstance(s,ast.Return):
                v=s.value
                r="("+", ".join(self.e(x) for x in v.elts)+")" if isinstance(v,ast.Tuple) else self.e(v)
                out.append(f"{pad}{r}"); return "\n".join(out)
            else: raise Unsupported(ast.dump(s)[:80])
        out.append(f"{pad}{ret}")
        return "\n".join(out)

for name in sys.argv[1:]:
    fn=funcs[name]
    print(f"-- generated from core.py:{fn.lineno} {name}")
    print(f"def {name} ... :=")
    print(Tr({}).block(fn.body,"()",2))
    print()
