import os
os.environ["NUMBA_ENABLE_CUDASIM"]="1"
import numpy as np, warnings
warnings.filterwarnings("ignore")
from numba import cuda
print("cuda avail", cuda.is_available())
from speckit import core
print(core._CUDA_ENABLED, core._CUDA_ERROR)
from speckit import core_cuda
rng=np.random.default_rng(0)
N=200; x=rng.standard_normal(N); y=rng.standard_normal(N)
L=37; starts=np.array([0,5,17,163,163,40],dtype=np.int64); w=np.hanning(L)+0.1; om=0.7
print(core_cuda._stats_win_only_csd_cuda(x,y,starts,L,w,om))
print(core._stats_win_only_csd(x,y,starts,L,w,om))
Q=core._build_Q(L,2)
print(core_cuda._stats_poly_csd_cuda(x,y,starts,L,w,om,Q))
print(core._stats_poly_csd(x,y,starts,L,w,om,Q))
import speckit
r=speckit.compute_spectrum(np.vstack([x,y]),1.0,backend="cuda",Jdes=20,Kdes=5)
print(r.XY[:3])
