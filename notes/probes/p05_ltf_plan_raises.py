import numpy as np, warnings
warnings.filterwarnings("ignore")
from speckit.schedulers import ltf_plan
from speckit import SpectrumAnalyzer
found=[]
for olap in [0.1,0.3,0.7,0.9]:
  for N in range(100,700):
    for Jdes in (5,10,20,50,100):
      for Kdes in (1,2,5,10,100):
        p=ltf_plan(N=N,fs=1.0,olap=olap,bmin=1.0,Lmin=1,Jdes=Jdes,Kdes=Kdes)
        bad=[j for j in range(p["nf"]) if p["K"][j]!=len(p["D"][j]) and max(p["D"][j])+p["L"][j]<=N]
        if bad:
            found.append((olap,N,Jdes,Kdes,bad[0],int(p["L"][bad[0]]),int(p["K"][bad[0]]),len(p["D"][bad[0]])))
            break
      if found and found[-1][1]==N: break
    if len(found)>3: break
print(found[:5])
olap,N,Jdes,Kdes=found[0][:4]
try:
    SpectrumAnalyzer(np.zeros(N),1.0,olap=olap,Jdes=Jdes,Kdes=Kdes,scheduler="ltf").plan()
    print("plan ok")
except Exception as e: print("EXC",e)
