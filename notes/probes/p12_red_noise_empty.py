import numpy as np, warnings
warnings.filterwarnings("ignore")
from speckit.noise import red_noise
from scipy import signal
for chunks in ([500,500],[1,999],[0,1000],[7,993],[1000]):
    a=red_noise(10.0,0.5,seed=3); b=red_noise(10.0,0.5,seed=3)
    whole=a.get_series(1000)
    parts=np.concatenate([b.get_series(n) for n in chunks])
    print(chunks,np.max(np.abs(whole-parts)), b._zi)
a=np.array([1.0]); b=np.array([1.0,-0.5]); zi=np.array([0.3])
print(signal.lfilter(a,b,np.array([]),zi=zi))
print(signal.lfilter(a,b,np.array([1.0]),zi=zi))
