import numpy as np, warnings, pandas as pd
warnings.filterwarnings("ignore")
import logging; logging.disable(logging.CRITICAL)
from speckit.dsp import polynomial_detrend, integral_rms, df_detrend, df_timeshift, timeshift
from speckit import compute_spectrum
rng=np.random.default_rng(0)
for n in (1,2,3,5,50,1000,20000):
  for order in range(0,6):
    x=rng.standard_normal(n)*3+5
    try:
        r=polynomial_detrend(x,order)
    except Exception as e:
        print(n,order,"EXC",e); continue
    t=np.arange(n)
    eff=min(order,n-1)
    orth=max(abs(np.dot(r,(t/max(1,n-1))**k)) for k in range(eff+1))/max(1,np.linalg.norm(x))
    idem=np.max(np.abs(polynomial_detrend(r,order)-r))/max(1,np.max(abs(x)))
    p=np.polyval(rng.standard_normal(eff+1),t/max(1,n-1)); zero=np.max(np.abs(polynomial_detrend(p,order)))/max(1e-300,np.max(abs(p)))
    if max(orth,idem,zero)>1e-9: print(n,order,"orth",orth,"idem",idem,"zero",zero)
print("detrend done")
# rms
f=np.sort(rng.random(50))*10; asd=rng.random(50)+0.1
tot=integral_rms(f,asd)**2
b=f[20]
print("additive at grid pt:",integral_rms(f,asd,(f[0],b))**2+integral_rms(f,asd,(b,f[-1]))**2 - tot)
b=(f[20]+f[21])/2
print("additive at non-grid pt:",integral_rms(f,asd,(f[0],b))**2+integral_rms(f,asd,(b,f[-1]))**2 - tot)
print("single point band:",integral_rms(f,asd,(f[20]-1e-9,f[20]+1e-9)))
print("band below grid:",integral_rms(f,asd,(-5,-1)))
# unsorted grid
# get_rms equality
x=rng.standard_normal(20000)
r=compute_spectrum(x,2.0,Jdes=300,Kdes=20)
print("get_rms vs integral", r.get_rms(), integral_rms(r.f,r.asd), "time rms", np.std(x))
print("get_rms band swapped", r.get_rms((0.5,0.1)), r.get_rms((0.1,0.5)))
# df_detrend
df=pd.DataFrame({"a":rng.standard_normal(30)+np.arange(30),"b":rng.standard_normal(30),"s":["x"]*30,"i":np.arange(30)})
o=df_detrend(df,columns=["a","i"],order=1)
print(list(o.columns), np.max(abs(o["i_detrended"])), np.allclose(o["a_detrended"],polynomial_detrend(df["a"].values,1)), o["b"].equals(df["b"]))
o2=df_timeshift(df[["a","b"]],2.0,0.6,columns=["a"])
print(list(o2.columns), np.allclose(o2["a_shifted"],timeshift(df["a"].to_numpy(),1.2)), o2["b"].equals(df["b"]))
