import numpy as np, warnings, sys, collections, math
warnings.filterwarnings("ignore")
from speckit.schedulers import lpsd_plan, ltf_plan, vectorized_ltf_plan, new_ltf_plan
rng=np.random.default_rng(5)
worst=[]; bminviol=collections.defaultdict(list); Oviol=collections.defaultdict(list); Kviol=collections.defaultdict(list); halfviol=collections.defaultdict(list); kdesviol=collections.defaultdict(list)
def rhu(v): return math.ceil(v) if (float(v)%1)>=0.5 else round(v)
for it in range(400):
    N=int(rng.integers(8,20000)); fs=float(rng.choice([1.0,2.0,10.0,3.3]))
    olap=float(rng.choice([0.0,0.5,0.75,0.9,0.3,rng.random()*0.95]))
    bmin=float(rng.choice([1.0,1.5,2.0,3.7])); 
    if bmin>=N/2: bmin=1.0
    Lmin=int(rng.choice([1,1,2,8,min(N,64)])); Jdes=int(rng.choice([1,2,5,10,50,100,500,1000])); Kdes=int(rng.choice([1,2,10,100]))
    cfg=dict(N=N,fs=fs,olap=olap,bmin=bmin,Lmin=Lmin,Jdes=Jdes,Kdes=Kdes)
    pl=ltf_plan(**cfg); pv=vectorized_ltf_plan(**cfg)
    worst.append((abs(pv["nf"]-pl["nf"])/pl["nf"],pl["nf"],pv["nf"],cfg))
    logfact=(N/2)**(1/Jdes)-1; xov=1-olap; fresmin=fs/N; freslim=fresmin*(1+xov*(Kdes-1))
    for sn,p in (("ltf",pl),("vec",pv)):
        f=np.asarray(p["f"]);L=np.asarray(p["L"]);b=np.asarray(p["b"]);O=np.asarray(p["O"]);D=p["D"];K=np.asarray(p["navg"])
        for j in range(p["nf"]):
            Lj=int(L[j]); d=np.asarray(D[j])
            # bmin: b >= bmin - slack ; slack from rounding L: b = f L/fs ; L>= fs/fres -0.5 -> b >= bmin - 0.5 f/fs
            if b[j] < bmin - 0.5*f[j]/fs - 1e-9: bminviol[sn].append((cfg,j,b[j],bmin,0.5*f[j]/fs))
            # K formula
            ideal=1+(N-Lj)/((1-olap)*Lj)
            kk=min(N-Lj+1, len(d))
            if abs(len(d)-ideal)>0.5+1e-9 and len(d)<N-Lj+1: Kviol[sn].append((cfg,j,Lj,len(d),ideal))
            if len(d)>1:
                sh=(N-Lj)/(len(d)-1)
                dev=np.max(np.abs(d-np.arange(len(d))*sh))
                if dev>0.5+1e-6: halfviol[sn].append((cfg,j,Lj,len(d),dev))
                real=np.mean((Lj-np.diff(d))/Lj)
                if abs(O[j]-real)>1e-9: Oviol[sn].append((cfg,j,O[j],real))
            else:
                if O[j]!=0: Oviol[sn].append((cfg,j,O[j],0))
            # Kdes in branch 1 no clamp
            fres1=f[j]*logfact
            if fres1>=freslim and f[j]/fres1>=bmin:
                L0=fs/fres1
                if Lmin<=round(L0)<=N and Lj==rhu(L0) and len(d)<Kdes:
                    kdesviol[sn].append((cfg,j,Lj,len(d),Kdes))
worst.sort(key=lambda t:-t[0])
print("nf ratio worst:",worst[:5])
print("count >10%:",sum(1 for w in worst if w[0]>0.1),"of",len(worst))
for nm,dct in (("bmin",bminviol),("K",Kviol),("half",halfviol),("O",Oviol),("Kdes",kdesviol)):
    for k,v in dct.items(): print(nm,k,len(v),v[0])
