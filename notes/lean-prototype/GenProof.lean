import SK.Gen
import SK.Proof

open Complex Finset

theorem forRange_succ {σ : Type} (n : Nat) (init : σ) (f : Nat → σ → σ) :
    forRange (n+1) init f = f n (forRange n init f) := by
  simp [forRange, Nat.fold_succ]

theorem forRange_zero {σ : Type} (init : σ) (f : Nat → σ → σ) : forRange 0 init f = init := by
  simp [forRange]

/-- generic loop-invariant rule: robust to how the body is written -/
theorem forRange_inv {σ : Type} (P : Nat → σ → Prop) (n : Nat) (init : σ) (f : Nat → σ → σ)
    (h0 : P 0 init) (hs : ∀ i s, i < n → P i s → P (i+1) (f i s)) : P n (forRange n init f) := by
  induction n with
  | zero => simpa [forRange_zero] using h0
  | succ k ih =>
    rw [forRange_succ]
    exact hs k _ (Nat.lt_succ_self k) (ih (fun i s hi hp => hs i s (Nat.lt_succ_of_lt hi) hp))

namespace Gen

/-- reference windowed DFT of a segment (forward convention) -/
noncomputable def refDFT (x : ℕ → ℝ) (s L : ℕ) (w : ℕ → ℝ) (ω : ℝ) : ℂ :=
  ∑ n ∈ range L, ((x (s+n) * w n : ℝ) : ℂ) * Complex.exp (-(ω * I)) ^ n

/-- Goertzel invariant, semantic form -/
def GInv (ω : ℝ) (v : ℕ → ℝ) (k : ℕ) (st : ℝ × ℝ × ℝ) : Prop :=
  ((st.2.2 : ℂ) - Complex.exp (-(ω * I)) * (st.2.1 : ℂ))
      = ∑ n ∈ range k, (v n : ℂ) * Complex.exp (ω * I) ^ (k - 1 - n)

theorem goertzel_loop (ω : ℝ) (v : ℕ → ℝ) (L : ℕ) (f : ℕ → ℝ × ℝ × ℝ → ℝ × ℝ × ℝ)
    (hf : ∀ n st, (f n st).2.2 = v n + (2 * Real.cos ω) * st.2.2 - st.2.1 ∧ (f n st).2.1 = st.2.2) :
    GInv ω v L (forRange L ((0:ℝ), (0:ℝ), (0:ℝ)) f) := by
  apply forRange_inv (GInv ω v)
  · simp [GInv]
  · intro i st _ hP
    obtain ⟨h1, h2⟩ := hf i st
    unfold GInv at *
    rw [h1, h2, Finset.sum_range_succ]
    have hE : Complex.exp (ω * I) * Complex.exp (-(ω * I)) = 1 := by
      rw [← Complex.exp_add]; simp
    have hc : (2 : ℂ) * Complex.cos (ω : ℂ) = Complex.exp (ω * I) + Complex.exp (-(ω * I)) := by
      rw [Complex.two_cos]; simp
    have hsum : ∑ n ∈ range i, (v n : ℂ) * Complex.exp (ω * I) ^ (i + 1 - 1 - n)
        = Complex.exp (ω * I) * ∑ n ∈ range i, (v n : ℂ) * Complex.exp (ω * I) ^ (i - 1 - n) := by
      rw [Finset.mul_sum]
      apply Finset.sum_congr rfl
      intro n hn
      have hn' : n < i := Finset.mem_range.mp hn
      have : i + 1 - 1 - n = (i - 1 - n) + 1 := by omega
      rw [this, pow_succ]; ring
    rw [hsum, ← hP]
    have : i + 1 - 1 - i = 0 := by omega
    rw [this, pow_zero, mul_one]
    push_cast
    linear_combination (st.2.2 : ℂ) * hc + ((st.2.1 : ℂ)) * hE

end Gen

