import SK.Basic
open RealLike

def forRange {σ : Type} (n : Nat) (init : σ) (f : Nat → σ → σ) : σ :=
  Nat.fold n (fun i _ s => f i s) init

namespace Gen
variable {α : Type} [RealLike α]

def lit0 : α := RealLike.ofNat 0
def lit2 : α := RealLike.ofNat 2

-- shape as the translator would emit it (liveness-pruned state: s0 s1 s2)
def seg_win_only_csd (x1 x2 : Nat → α) (s L : Nat) (w : Nat → α) (omega : α) : α × α × α × α :=
  let cosw := (RealLike.cos omega)
  let sinw := (RealLike.sin omega)
  let coeff := (lit2 * cosw)
  let s0 : α := lit0
  let s1 : α := lit0
  let s2 : α := lit0
  let (s0, s2, s1) := forRange L (s0, s2, s1) (fun n (s0, s2, s1) =>
      let v := ((x1 (s + n)) * (w n))
      let s0 := ((v + (coeff * s1)) - s2)
      let s2 := s1
      let s1 := s0
      (s0, s2, s1))
  let r1 := (s1 - (s2 * cosw))
  let i1 := (s2 * sinw)
  let s0 : α := lit0
  let s1 : α := lit0
  let s2 : α := lit0
  let (s0, s2, s1) := forRange L (s0, s2, s1) (fun n (s0, s2, s1) =>
      let v := ((x2 (s + n)) * (w n))
      let s0 := ((v + (coeff * s1)) - s2)
      let s2 := s1
      let s1 := s0
      (s0, s2, s1))
  let r2 := (s1 - (s2 * cosw))
  let i2 := (s2 * sinw)
  (((r1 * r1) + (i1 * i1)), ((r2 * r2) + (i2 * i2)), ((r1 * r2) + (i1 * i2)), ((i1 * r2) - (r1 * i2)))
end Gen
#eval Gen.seg_win_only_csd (α := Float) (fun n => Float.ofNat (n % 5)) (fun n => Float.ofNat (n % 3)) 2 37 (fun _ => 1.0) 0.7
