/-! Generic numeric interface: model code is written once against this class. -/
class RealLike (α : Type) extends Add α, Sub α, Mul α, Div α, Neg α where
  ofNat : Nat → α
  cos : α → α
  sin : α → α
  sqrt : α → α

instance : RealLike Float where
  ofNat n := Float.ofNat n
  cos := Float.cos
  sin := Float.sin
  sqrt := Float.sqrt

namespace Model
variable {α : Type} [RealLike α]
open RealLike

/-- Goertzel state after consuming samples `v 0 .. v (L-1)`: (s1, s2). -/
def goertzelState (coeff : α) (v : Nat → α) : Nat → α × α
  | 0 => (ofNat 0, ofNat 0)
  | n+1 =>
    let (s1, s2) := goertzelState coeff v n
    (v n + coeff * s1 - s2, s1)

def goertzelRI (omega : α) (v : Nat → α) (L : Nat) : α × α :=
  let cosw := cos omega
  let sinw := sin omega
  let coeff := ofNat 2 * cosw
  let (s1, s2) := goertzelState coeff v L
  (s1 - s2 * cosw, s2 * sinw)
end Model

#eval Model.goertzelRI (0.7 : Float) (fun n => Float.ofNat (n % 5)) 37
