import SK.Basic
import Mathlib.Analysis.SpecialFunctions.Trigonometric.Basic
import Mathlib.Algebra.BigOperators.Group.Finset.Basic

noncomputable instance : RealLike ℝ where
  ofNat n := (n : ℝ)
  cos := Real.cos
  sin := Real.sin
  sqrt := Real.sqrt

open Complex Finset

namespace Model

/-- complex Goertzel accumulator G = s1 - e^{-iω} s2 -/
theorem goertzel_state_spec (ω : ℝ) (v : ℕ → ℝ) (L : ℕ) :
    (((goertzelState (α := ℝ) (RealLike.ofNat 2 * RealLike.cos ω) v L).1 : ℂ)
        - Complex.exp (-(ω * I)) * ((goertzelState (α := ℝ) (RealLike.ofNat 2 * RealLike.cos ω) v L).2 : ℂ))
      = ∑ n ∈ range L, (v n : ℂ) * Complex.exp (ω * I) ^ (L - 1 - n) := by
  induction L with
  | zero => simp [goertzelState, RealLike.ofNat]
  | succ L ih =>
    rw [Finset.sum_range_succ]
    have hE : Complex.exp (ω * I) * Complex.exp (-(ω * I)) = 1 := by
      rw [← Complex.exp_add]; simp
    have hc : (2 : ℂ) * Complex.cos (ω : ℂ) = Complex.exp (ω * I) + Complex.exp (-(ω * I)) := by
      rw [Complex.two_cos]; simp
    have hsum : ∑ n ∈ range L, (v n : ℂ) * Complex.exp (ω * I) ^ (L + 1 - 1 - n)
        = Complex.exp (ω * I) * ∑ n ∈ range L, (v n : ℂ) * Complex.exp (ω * I) ^ (L - 1 - n) := by
      rw [Finset.mul_sum]
      apply Finset.sum_congr rfl
      intro n hn
      have hn' : n < L := Finset.mem_range.mp hn
      have : L + 1 - 1 - n = (L - 1 - n) + 1 := by omega
      rw [this, pow_succ]; ring
    rw [hsum, ← ih]
    simp only [goertzelState, RealLike.ofNat, RealLike.cos]
    have : L + 1 - 1 - L = 0 := by omega
    rw [this, pow_zero, mul_one]
    push_cast
    generalize (goertzelState (α := ℝ) ((2:ℕ) * Real.cos ω) v L).1 = s1
    generalize (goertzelState (α := ℝ) ((2:ℕ) * Real.cos ω) v L).2 = s2
    push_cast
    linear_combination (s1 : ℂ) * hc + ((s2 : ℂ)) * hE
end Model

#print axioms Model.goertzel_state_spec
