"""Runs SpecKit's CUDA kernels under Numba's CUDA *simulator* (NUMBA_ENABLE_CUDASIM=1 must be set
before numba is imported, hence a separate process).  Protocol: one JSON case per line on stdin,
one JSON reply per line on stdout."""
import os
os.environ["NUMBA_ENABLE_CUDASIM"] = "1"
import sys, json, warnings
warnings.filterwarnings("ignore")
import numpy as np

from speckit import core_cuda  # noqa: E402


def main():
    for line in sys.stdin:
        line = line.strip()
        if not line:
            continue
        c = json.loads(line)
        try:
            fn = getattr(core_cuda, c["fn"])
            args = []
            for a in c["args"]:
                if isinstance(a, dict) and "f64" in a:
                    args.append(np.array(a["f64"], dtype=np.float64).reshape(a.get("shape", [-1])))
                elif isinstance(a, dict) and "i64" in a:
                    args.append(np.array(a["i64"], dtype=np.int64))
                else:
                    args.append(a)
            r = fn(*args)
            print(json.dumps({"ok": [float(v) for v in r]}), flush=True)
        except Exception as ex:  # noqa
            print(json.dumps({"err": repr(ex)}), flush=True)


if __name__ == "__main__":
    main()
