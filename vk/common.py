"""Shared machinery of the SpecKit verification checks: driver process, Lean build/audit,
evidence, known findings, replay files."""
from __future__ import annotations

import fcntl
import json
import os
import re
import struct
import subprocess
import sys
import time
from dataclasses import dataclass, field
from typing import Any, Dict, List, Optional, Tuple

VERIF = os.path.dirname(os.path.dirname(os.path.abspath(__file__)))
LEAN_DIR = os.path.join(VERIF, "lean")
REPO = os.environ.get("SPECKIT_REPO", "/repo")
EVIDENCE_DIR = os.path.join(VERIF, "evidence")
REPLAY_DIR = os.path.join(VERIF, "replays")
CORPUS_DIR = os.path.join(VERIF, "corpus")
FINDINGS_FILE = os.path.join(VERIF, "KNOWN_FINDINGS.txt")
LOCK_FILE = os.path.join(LEAN_DIR, ".lake-lock")
ALLOWED_AXIOMS = {"propext", "Classical.choice", "Quot.sound"}
FORBIDDEN = re.compile(r"\bsorry\b|\badmit\b|^axiom |native_decide|bv_decide|implemented_by|\bunsafe |maxHeartbeats 0", re.M)


# ---------------------------------------------------------------- floats on the wire
def f2h(x: float) -> str:
    return "%016x" % struct.unpack("<Q", struct.pack("<d", float(x)))[0]


def h2f(s: str) -> float:
    return struct.unpack("<d", struct.pack("<Q", int(s, 16)))[0]


def arr(xs) -> str:
    xs = list(xs)
    return str(len(xs)) + "".join(" " + f2h(float(x)) for x in xs)


def iarr(xs) -> str:
    xs = list(xs)
    return str(len(xs)) + "".join(" " + str(int(x)) for x in xs)


# ---------------------------------------------------------------- lake / lean
class LakeLock:
    def __enter__(self):
        os.makedirs(os.path.dirname(LOCK_FILE), exist_ok=True)
        self.f = open(LOCK_FILE, "w")
        fcntl.flock(self.f, fcntl.LOCK_EX)
        return self

    def __exit__(self, *a):
        fcntl.flock(self.f, fcntl.LOCK_UN)
        self.f.close()


def run(cmd: List[str], cwd: Optional[str] = None, timeout: int = 3600) -> Tuple[int, str]:
    p = subprocess.run(cmd, cwd=cwd, stdout=subprocess.PIPE, stderr=subprocess.STDOUT, text=True, timeout=timeout)
    return p.returncode, p.stdout


def lake_build(targets: List[str], timeout: int = 3600) -> Tuple[bool, str]:
    with LakeLock():
        rc, out = run(["lake", "build"] + targets, cwd=LEAN_DIR, timeout=timeout)
    return rc == 0, out


def lean_source_scan() -> List[str]:
    """forbidden constructs anywhere in the Lean tree (outside comments)"""
    hits = []
    for root, _, files in os.walk(os.path.join(LEAN_DIR)):
        if ".lake" in root:
            continue
        for fn in files:
            if not fn.endswith(".lean"):
                continue
            p = os.path.join(root, fn)
            txt = open(p).read()
            txt = re.sub(r"/-.*?-/", lambda m: "\n" * m.group(0).count("\n"), txt, flags=re.S)
            txt = re.sub(r"--.*", "", txt)
            for m in FORBIDDEN.finditer(txt):
                hits.append(f"{os.path.relpath(p, LEAN_DIR)}: {m.group(0).strip()}")
    return hits


def audit_axioms(modules: Dict[str, List[str]], tag: str) -> Tuple[Dict[str, List[str]], str]:
    """`#print axioms` for every listed theorem; returns {theorem: [axioms]} (missing theorem => key absent)"""
    os.makedirs(os.path.join(LEAN_DIR, "SpecKitV", "Audit"), exist_ok=True)
    path = os.path.join(LEAN_DIR, "SpecKitV", "Audit", f"{tag}.lean")
    lines = [f"import {m}" for m in modules] + [""]
    for m, ths in modules.items():
        for t in ths:
            lines.append(f"#print axioms {t}")
    open(path, "w").write("\n".join(lines) + "\n")
    with LakeLock():
        rc, out = run(["lake", "env", "lean", path], cwd=LEAN_DIR, timeout=1800)
    res: Dict[str, List[str]] = {}
    for m in re.finditer(r"'(.+?)' depends on axioms: \[([^\]]*)\]", out):
        res[m.group(1)] = [a.strip() for a in m.group(2).replace("\n", " ").split(",") if a.strip()]
    for m in re.finditer(r"'(.+?)' does not depend on any axioms", out):
        res[m.group(1)] = []
    return res, out


# ---------------------------------------------------------------- driver
CORE_DRIVER_REGIONS = ["CoreKernels", "CudaKernels", "Attrs", "Utils"]
NO_DRIVER_OPS = {"KernelHeap", "Ctor", "ResultPurity", "GlobalState"}     # regions whose generated code is only reasoned about, never executed by the driver
GOOD_DRIVER = os.path.join(LEAN_DIR, ".lake", "build", "bin", "skdriver.good")


def _gen_shas() -> Dict[str, str]:
    import hashlib
    d = os.path.join(LEAN_DIR, "SpecKitV", "Gen")
    out = {}
    for fn in sorted(os.listdir(d)) if os.path.isdir(d) else []:
        if fn.endswith(".lean"):
            # the generated DEFINITIONS decide what the driver computes: the header comment (it quotes the sha of the whole source file, which changes
            # with any edit anywhere in that file) and `/-- file:lines -/` doc comments are left out of the comparison
            txt = open(os.path.join(d, fn)).read()
            txt = re.sub(r"/-.*?-/", "", txt, flags=re.S)
            out[fn[:-5]] = hashlib.sha256(txt.encode()).hexdigest()
    return out


def remember_good_driver() -> None:
    """after a successful driver build: keep a copy of the binary and the hashes of the generated sources it was built from"""
    import shutil
    exe = os.path.join(LEAN_DIR, ".lake", "build", "bin", "skdriver")
    try:
        shas = _gen_shas()
        meta = GOOD_DRIVER + ".json"
        if os.path.exists(meta) and os.path.exists(GOOD_DRIVER) and json.load(open(meta)) == shas:
            return
        tmp = GOOD_DRIVER + ".tmp%d" % os.getpid()
        shutil.copy2(exe, tmp)
        os.replace(tmp, GOOD_DRIVER)
        write_json(meta, shas)
    except Exception:
        pass


def good_driver_for(regions: List[str]) -> Tuple[Optional[str], str]:
    """path of the last good driver if it was built from the CURRENT generated files of `regions`, else (None, reason)"""
    meta = GOOD_DRIVER + ".json"
    if not (os.path.exists(GOOD_DRIVER) and os.path.exists(meta)):
        return None, "no previously built driver available"
    try:
        old = json.load(open(meta))
    except Exception:
        return None, "driver manifest unreadable"
    cur = _gen_shas()
    changed = [r for r in regions if old.get(r) != cur.get(r)]
    if changed:
        return None, "generated code of this property's own region(s) changed: " + ", ".join(changed)
    return GOOD_DRIVER, ""


class Driver:
    def __init__(self, exe: Optional[str] = None):
        exe = exe or os.path.join(LEAN_DIR, ".lake", "build", "bin", "skdriver")
        if os.path.exists(exe):
            cmd = [exe]
        else:
            cmd = ["lake", "env", "lean", "--run", "Driver.lean"]
        self.p = subprocess.Popen(cmd, cwd=LEAN_DIR, stdin=subprocess.PIPE, stdout=subprocess.PIPE, text=True, bufsize=1)
        self.n = 0

    def ask(self, line: str) -> str:
        self.p.stdin.write(line + "\n")
        self.p.stdin.flush()
        out = self.p.stdout.readline()
        if not out:
            raise RuntimeError("driver died on: " + line[:200])
        self.n += 1
        return out.strip()

    def floats(self, line: str) -> List[float]:
        r = self.ask(line)
        if r.startswith("ERR"):
            raise RuntimeError(f"driver error {r} on {line[:200]}")
        return [h2f(t) for t in r.split()]

    def close(self):
        try:
            self.p.stdin.close()
            self.p.wait(timeout=5)
        except Exception:
            self.p.kill()


# ---------------------------------------------------------------- results
@dataclass
class Violation:
    what: str                      # one-line description of what fails
    signature: Dict[str, Any]      # structured description matched against known findings
    replay: Dict[str, Any]         # input / history to replay


@dataclass
class Part:
    """result of one stage (correspondence or oracle)"""
    cases: int = 0
    nontrivial: set = field(default_factory=set)
    disagreements: List[Dict[str, Any]] = field(default_factory=list)   # correspondence only
    violations: List[Violation] = field(default_factory=list)           # oracle only
    unstable: int = 0
    histogram: Dict[str, int] = field(default_factory=dict)
    samples: List[Any] = field(default_factory=list)
    notes: List[str] = field(default_factory=list)

    def hit(self, key: str, n: int = 1):
        self.histogram[key] = self.histogram.get(key, 0) + n

    def sample(self, s: Any, cap: int = 6):
        if len(self.samples) < cap:
            self.samples.append(s)


# ---------------------------------------------------------------- known findings
def load_findings() -> List[Dict[str, Any]]:
    out = []
    if not os.path.exists(FINDINGS_FILE):
        return out
    for line in open(FINDINGS_FILE):
        line = line.strip()
        if not line.startswith("finding:"):
            continue
        m = re.match(r"finding:\s+property=(\S+)\s+id=(\S+)\s+match=(\{.*?\})\s+::\s+(.*)", line)
        if m:
            out.append({"property": m.group(1), "id": m.group(2), "match": json.loads(m.group(3)), "text": m.group(4)})
    return out


def finding_matches(f: Dict[str, Any], prop: str, sig: Dict[str, Any]) -> bool:
    if f["property"] != prop:
        return False
    for k, v in f["match"].items():
        if k.endswith("_lt"):
            key = k[:-3]
            if key not in sig or not (sig[key] < v):
                return False
        elif sig.get(k) != v:
            return False
    return True


# ---------------------------------------------------------------- evidence / replay
def jsonable(o: Any) -> Any:
    import numpy as np
    if isinstance(o, dict):
        return {str(k): jsonable(v) for k, v in o.items()}
    if isinstance(o, (list, tuple, set)):
        return [jsonable(v) for v in o]
    if isinstance(o, np.ndarray):
        return jsonable(o.tolist())
    if isinstance(o, (np.integer,)):
        return int(o)
    if isinstance(o, (np.floating,)):
        return float(o)
    if isinstance(o, complex):
        return {"re": o.real, "im": o.imag}
    if isinstance(o, float) and (o != o or o in (float("inf"), float("-inf"))):
        return repr(o)
    return o


def write_json(path: str, obj: Any):
    os.makedirs(os.path.dirname(path), exist_ok=True)
    tmp = path + ".tmp"
    with open(tmp, "w") as f:
        json.dump(jsonable(obj), f, indent=1)
    os.replace(tmp, path)


def log(*a):
    print(*a, file=sys.stderr, flush=True)


# ---------------------------------------------------------------- size thresholds mined from the source
def mined_sizes(files: List[str], lo: int = 16, hi: int = 4_000_000, names: Optional[List[str]] = None) -> List[int]:
    """Integer constants of the CURRENT source of `files` (paths relative to the repository root): literals and constant expressions built from
    literals with + - * // ** << (e.g. `1 << 16`, `4096 * 4`, `2**20`), optionally restricted to the functions / classes in `names`.  Block,
    chunk, buffer and cache sizes are where "for every record length / request size / segment count" breaks (wave-5 changes C16e: blocks of
    2**16 samples, C17e: blocks of 2**20, C11d: chunks of 32768 segments), and the constant is in the source, so the failing-input search reads
    it from there: oracles probe sizes just below, at and above every mined constant.  On the unchanged tree this yields the library's own
    thresholds (4096-sample buffer, NumPy chunk sizes, 1000-segment CUDA heuristic …)."""
    import ast

    def const(node) -> Optional[int]:
        if isinstance(node, ast.Constant) and isinstance(node.value, int) and not isinstance(node.value, bool):
            return int(node.value)
        if isinstance(node, ast.UnaryOp) and isinstance(node.op, ast.USub):
            v = const(node.operand)
            return -v if v is not None else None
        if isinstance(node, ast.BinOp):
            a, b = const(node.left), const(node.right)
            if a is None or b is None:
                return None
            try:
                if isinstance(node.op, ast.Add):
                    return a + b
                if isinstance(node.op, ast.Sub):
                    return a - b
                if isinstance(node.op, ast.Mult):
                    return a * b
                if isinstance(node.op, ast.FloorDiv) and b != 0:
                    return a // b
                if isinstance(node.op, ast.Pow) and 0 <= b <= 64 and abs(a) <= 1024:
                    return a ** b
                if isinstance(node.op, ast.LShift) and 0 <= b <= 40:
                    return a << b
            except Exception:
                return None
        return None

    out = set()
    for rel in files:
        try:
            tree = ast.parse(open(os.path.join(REPO, rel)).read())
        except Exception:
            continue
        roots = [tree]
        if names:
            roots = [n for n in ast.walk(tree) if isinstance(n, (ast.FunctionDef, ast.ClassDef)) and n.name in names] or [tree]
        for root in roots:
            for n in ast.walk(root):
                v = const(n)
                if v is not None and lo <= v <= hi:
                    out.add(v)
    return sorted(out)
