"""Region `DfWrappers`: speckit/dsp.py `df_timeshift` and `df_detrend`, WHOLE, statement by statement  ->  lean/SpecKitV/Gen/DfWrappers.lean

Generated definitions (namespace Gen, generic over RealLike α, Mathlib-free):

  df_timeshift (heap : NpDf.Heap α) (df : NpDf.Ref) (fs : NpDf.PyFloat α) (seconds : α) (columns : Option (List String))
               (truncate : NpDf.PyTrunc) (inplace : Bool) (suffix : String) : Option (NpDf.Heap α × NpDf.Ref)
  df_detrend   (polyfit : …) (heap : NpDf.Heap α) (df : NpDf.Ref) (columns : Option (List String)) (order : Int) (inplace : Bool)
               (suffix : String) : Option (NpDf.Heap α × NpDf.Ref)
  df_timeshift_<param>_default / df_detrend_<param>_default        the default values of the keyword parameters, as written

Value model (lean/SpecKitV/Np/DfWrappers.lean): a DataFrame is a MUTABLE Python object; the functions take the object store `heap` and
a reference `df`, and return the new store and the reference of the returned frame (`none` = the Python raises).  Python statements
become:
  * `if … : raise …`                               ->  `if … then none else …`      (the exception type / message is not modelled)
  * `return e`                                     ->  `some (heap, e)`
  * `x = df.copy()`                                ->  `NpDf.copy heap df` (allocates: new store, new reference);  `x = df` ALIASES
  * `frame[c] = v`                                 ->  `NpDf.setitem heap frame c v` (writes into the object; `none` if pandas rejects the length)
  * `frame[c]` (read), `.dtype.kind`, `.to_numpy()` / `.values`   ->  `NpDf.getitem` (`none` = KeyError), `.kind`, `.vals`
  * `frame.iloc[a:b]`                              ->  `NpDf.iloc heap frame a b` (allocates; Python slice semantics)
  * `frame.empty`, `len(frame)`, `frame.columns.tolist()`, `c in frame.columns`, `isinstance(frame, pd.DataFrame)`
  * `k in "<kinds>"` / `not in`                    ->  `NpDf.kindIn k [the characters of the literal]`
  * `[v for v in L if cond]`                       ->  `L.filter (fun v => cond)`;   a list in a test position -> `!L.isEmpty`
  * `f"{a}{b}"` of strings                         ->  `a ++ b`
  * `for c in L: body` (body may `continue`, store into frames, raise)   ->  `NpDf.forEach L heap (fun c heap => …)`
  * `if X is None: A else: B` on an optional argument   ->  `match X with | none => A… | some X => B…`
  * `if not np.isfinite(X) or REST: raise`         ->  `match X with | .fin X => if REST then none else … | _ => none`  (short-circuit `or`:
                                                       REST is evaluated only for a finite X)
  * `isinstance(truncate, bool)`, `isinstance(truncate, (int, np.integer))`, `truncate is not None`, `int(truncate)` on the dynamic type
    `NpDf.PyTrunc` of the argument
  * `timeshift(a, s[, order])` / `polynomial_detrend(a[, order])`   ->  CALLS of the already translated `Gen.timeshift` (region TimeShift;
    a Python float shift is the one-element array; the default order is read from timeshift's signature) / `Gen.polynomial_detrend`
    (region Rms; `np.polyfit` stays its contract parameter `polyfit`, passed through); `none` propagates
  * scalar arithmetic / comparisons / `int()` / `abs()`: the rules of vk.translate.FnTranslator (operand order, literals kept)
  * statements after an `if`/`else` are translated once per branch (continuation duplicated, no join) — exact, only longer.
Dropped as value-irrelevant (recognised syntactically): docstrings; `logger.<level>(…)` statements; the type and message of a `raise`.
Not modelled: `int()` of an infinite float raises OverflowError in Python (`RealLike.trunc` is total); frames with duplicate or
non-string column labels; complex columns; the dtype of the stored column in `timeshift`'s pass-through cases (NpDf.resultKind).
Everything else is derived from the AST; a construct without a rule raises Unsupported and the function becomes a stub that fails to build.
"""
from __future__ import annotations

import ast
import math
import os
import re
from typing import Callable, Dict, List, Optional, Tuple

from ..translate import FnTranslator, Env, Val, Unsupported, HEADER, parse_functions, sha_of

REGION = "DfWrappers"
SOURCES = ["speckit/dsp.py"]

LT = {"R": "α", "Z": "Int", "N": "Nat", "B": "Bool", "S": "String", "LS": "List String", "A": "Arr α", "F": "NpDf.Ref",
      "COL": "NpDf.Col α", "CH": "Char", "PF": "NpDf.PyFloat α", "TR": "NpDf.PyTrunc", "OLS": "Option (List String)"}
RESERVED = {"heap", "polyfit", "none", "some", "fun", "match", "with", "if", "then", "else", "let", "def", "at", "from", "end", "open", "in", "do"}
POLYFIT_TY = "Arr Int → Arr α → Int → Option (Arr α)"


def lean_str(s: str) -> str:
    if any(ord(ch) > 126 or ord(ch) < 32 for ch in s):
        raise Unsupported(f"string literal {s!r} (printable ASCII only)")
    return '"' + s.replace("\\", "\\\\").replace('"', '\\"') + '"'


def lean_chars(s: str) -> str:
    out = []
    for ch in s:
        if not (ch.isalnum() and ord(ch) < 128):
            raise Unsupported(f"dtype kind literal {s!r}")
        out.append(f"'{ch}'")
    return "[" + ", ".join(out) + "]"


class DfTranslator(FnTranslator):
    """statements and expressions on DataFrame objects (see the module docstring); scalar arithmetic by FnTranslator"""

    def __init__(self, fn: ast.FunctionDef, sig: Dict[str, str], lean_name: str, callees: Dict[str, Dict]):
        super().__init__(fn, sig, {}, lean_name)
        self.callees = callees
        self.pre: List[Tuple] = []          # effects of the statement being translated, in evaluation order:
        #                                     ("match", option code, bound name, kind) | ("alloc", pair code, bound name)
        self.uses_polyfit = False

    # ------------------------------------------------------------------ helpers
    def fresh(self, stem: str) -> str:
        self.tmp += 1
        return f"{stem}__{self.tmp}"

    def frame_of(self, v: Val) -> str:
        if v.kind != "F":
            raise Unsupported(f"a DataFrame is expected, got a value of kind {v.kind}")
        return f"(NpDf.Heap.frame heap {v.code})"

    def hoist_match(self, code: str, stem: str, kind: str) -> Val:
        for p in self.pre:
            if p[0] == "match" and p[1] == code:
                return Val(p[2], p[3])
        name = self.fresh(stem)
        self.pre.append(("match", code, name, kind))
        return Val(name, kind)

    def hoist_alloc(self, code: str, stem: str) -> Val:
        name = self.fresh(stem)
        self.pre.append(("alloc", code, name))
        return Val(f"{name}.2", "F")

    def emit_pre(self, ind: str) -> str:
        """the effects collected for the current statement as Lean lines (the statement's own text follows at the same indentation)"""
        out = ""
        for p in self.pre:
            if p[0] == "match":
                out += f"{ind}match {p[1]} with\n{ind}| none => none\n{ind}| some {p[2]} =>\n"
            else:
                out += f"{ind}let {p[2]} := {p[1]}\n{ind}let heap : NpDf.Heap α := {p[2]}.1\n"
        self.pre = []
        return out

    def as_int(self, v: Val, what: str, lineno: int) -> Val:
        if v.kind == "Z":
            return v
        if v.kind == "N":
            return Val(f"(({v.code} : Nat) : Int)", "Z")
        raise Unsupported(f"line {lineno}: {what} of kind {v.kind} (integer expected)")

    # ------------------------------------------------------------------ expressions
    def expr(self, e: ast.AST, env: Env) -> Val:
        if isinstance(e, ast.Name) and e.id in RESERVED:
            raise Unsupported(f"line {e.lineno}: the identifier {e.id} is reserved")
        if isinstance(e, ast.Constant) and isinstance(e.value, str):
            return Val(lean_str(e.value), "S")
        if isinstance(e, ast.JoinedStr):
            parts = []
            for p in e.values:
                if isinstance(p, ast.Constant) and isinstance(p.value, str):
                    parts.append(lean_str(p.value))
                elif isinstance(p, ast.FormattedValue) and p.conversion == -1 and p.format_spec is None:
                    v = self.expr(p.value, env)
                    if v.kind != "S":
                        raise Unsupported(f"line {e.lineno}: f-string field of kind {v.kind}")
                    parts.append(v.code)
                else:
                    raise Unsupported(f"line {e.lineno}: f-string field with a conversion / format")
            if not parts:
                return Val('""', "S")
            return Val("(" + " ++ ".join(parts) + ")" if len(parts) > 1 else parts[0], "S")
        if isinstance(e, ast.ListComp):
            if len(e.generators) != 1 or e.generators[0].is_async or not isinstance(e.generators[0].target, ast.Name):
                raise Unsupported(f"line {e.lineno}: list comprehension form")
            g = e.generators[0]
            v = g.target.id
            if v in RESERVED:
                raise Unsupported(f"line {e.lineno}: the identifier {v} is reserved")
            if not (isinstance(e.elt, ast.Name) and e.elt.id == v):
                raise Unsupported(f"line {e.lineno}: list comprehension that maps its elements")
            it = self.expr(g.iter, env)
            if it.kind != "LS":
                raise Unsupported(f"line {e.lineno}: list comprehension over a value of kind {it.kind}")
            e2 = env.copy()
            e2.kinds[v] = "S"
            n0 = len(self.pre)
            conds = [self.truth(self.expr(c, e2), c) for c in g.ifs]
            if len(self.pre) != n0:
                raise Unsupported(f"line {e.lineno}: a call that can raise inside a list comprehension")
            if not conds:
                return it
            return Val(f"({it.code}.filter (fun {v} => {' && '.join(conds)}))", "LS")
        if isinstance(e, ast.BoolOp):
            vals = []
            for j, x in enumerate(e.values):
                n0 = len(self.pre)
                vals.append(self.truth(self.expr(x, env), x))
                if j > 0 and len(self.pre) != n0:
                    raise Unsupported(f"line {e.lineno}: a call that can raise / allocate inside a short-circuit operand")
            op = " && " if isinstance(e.op, ast.And) else " || "
            return Val("(" + op.join(vals) + ")", "B")
        if isinstance(e, ast.IfExp):
            raise Unsupported(f"line {e.lineno}: conditional expression")
        return super().expr(e, env)

    def truth(self, v: Val, node: ast.AST) -> str:
        """Python truthiness of a value in a test position"""
        if v.kind == "B":
            return v.code
        if v.kind == "LS":
            return f"(!({v.code}.isEmpty))"
        raise Unsupported(f"line {getattr(node, 'lineno', '?')}: truth value of a value of kind {v.kind}")

    def compare(self, e: ast.Compare, env: Env) -> Val:
        if len(e.ops) != 1:
            raise Unsupported(f"line {e.lineno}: chained comparison")
        op, left, right = e.ops[0], e.left, e.comparators[0]
        if isinstance(op, (ast.Is, ast.IsNot)):
            if not (isinstance(right, ast.Constant) and right.value is None):
                raise Unsupported(f"line {e.lineno}: `is` against something other than None")
            v = self.expr(left, env)
            if v.kind == "TR":
                c = f"(NpDf.PyTrunc.isNone {v.code})"
            elif v.kind == "OLS":
                raise Unsupported(f"line {e.lineno}: `{ast.unparse(e)}` on an optional list is translated only as the test of an if statement")
            elif v.kind in LT:
                c = "false"                 # a value of a non-optional kind is never None
            else:
                raise Unsupported(f"line {e.lineno}: `is None` on a value of kind {v.kind}")
            return Val(c if isinstance(op, ast.Is) else f"(!{c})", "B")
        if isinstance(op, (ast.In, ast.NotIn)):
            a = self.expr(left, env)
            if isinstance(right, ast.Constant) and isinstance(right.value, str):
                if a.kind != "CH":
                    raise Unsupported(f"line {e.lineno}: `in \"…\"` on a value of kind {a.kind} (a dtype kind expected)")
                c = f"(NpDf.kindIn {a.code} {lean_chars(right.value)})"
            elif isinstance(right, ast.Attribute) and right.attr == "columns":
                if a.kind != "S":
                    raise Unsupported(f"line {e.lineno}: `in <frame>.columns` on a value of kind {a.kind}")
                c = f"(NpDf.Frame.hasCol {self.frame_of(self.expr(right.value, env))} {a.code})"
            else:
                b = self.expr(right, env)
                if b.kind != "LS" or a.kind != "S":
                    raise Unsupported(f"line {e.lineno}: membership test on kinds {a.kind},{b.kind}")
                c = f"({b.code}.contains {a.code})"
            return Val(c if isinstance(op, ast.In) else f"(!{c})", "B")
        n0 = len(self.pre)
        a, b = self.expr(left, env), self.expr(right, env)
        if a.kind == "S" and b.kind == "S" and isinstance(op, (ast.Eq, ast.NotEq)):
            c = f"({a.code} == {b.code})"
            return Val(c if isinstance(op, ast.Eq) else f"(!{c})", "B")
        for v in (a, b):
            if v.kind not in ("R", "N", "Z"):
                raise Unsupported(f"line {e.lineno}: comparison of a value of kind {v.kind}")
        del self.pre[n0:]                       # the operands are translated again by the base class
        return super().compare(e, env)

    def binop(self, e: ast.BinOp, env: Env) -> Val:
        n0 = len(self.pre)
        a, b = self.expr(e.left, env), self.expr(e.right, env)
        if a.kind == "S" and b.kind == "S" and isinstance(e.op, ast.Add):
            return Val(f"({a.code} ++ {b.code})", "S")
        for v in (a, b):
            if v.kind not in ("R", "N", "Z"):
                raise Unsupported(f"line {e.lineno}: arithmetic on a value of kind {v.kind}")
        if a.kind == "N" and b.kind == "N" and isinstance(e.op, ast.Sub):
            return Val(f"(({a.code} : Int) - ({b.code} : Int))", "Z")
        del self.pre[n0:]                       # the operands are translated again by the base class
        return super().binop(e, env)

    def attribute(self, e: ast.Attribute, env: Env) -> Val:
        u = ast.unparse(e)
        if e.attr == "empty":
            return Val(f"(NpDf.Frame.empty {self.frame_of(self.expr(e.value, env))})", "B")
        if e.attr == "kind" and isinstance(e.value, ast.Attribute) and e.value.attr == "dtype":
            c = self.expr(e.value.value, env)
            if c.kind != "COL":
                raise Unsupported(f"line {e.lineno}: .dtype.kind of a value of kind {c.kind}")
            return Val(f"{c.code}.kind", "CH")
        if e.attr == "values":
            c = self.expr(e.value, env)
            if c.kind != "COL":
                raise Unsupported(f"line {e.lineno}: .values of a value of kind {c.kind}")
            return Val(f"{c.code}.vals", "A")
        raise Unsupported(f"line {e.lineno}: attribute {u}")

    def subscript(self, e: ast.Subscript, env: Env) -> Val:
        # frame.iloc[a:b]
        if isinstance(e.value, ast.Attribute) and e.value.attr == "iloc":
            fr = self.expr(e.value.value, env)
            if fr.kind != "F":
                raise Unsupported(f"line {e.lineno}: .iloc of a value of kind {fr.kind}")
            sl = e.slice
            if not isinstance(sl, ast.Slice) or sl.step is not None:
                raise Unsupported(f"line {e.lineno}: .iloc[...] is translated for a row slice lo:hi only")
            lo = Val("(0 : Int)", "Z") if sl.lower is None else self.as_int(self.expr(sl.lower, env), "slice bound", e.lineno)
            hi = (Val(f"(({self.frame_of(fr)}.nrows : Nat) : Int)", "Z") if sl.upper is None
                  else self.as_int(self.expr(sl.upper, env), "slice bound", e.lineno))
            lo_c = lo.code if lo.code.startswith("(") else f"({lo.code} : Int)"
            hi_c = hi.code if hi.code.startswith("(") else f"({hi.code} : Int)"
            return self.hoist_alloc(f"NpDf.iloc heap {fr.code} {lo_c} {hi_c}", "il")
        base = self.expr(e.value, env)
        if base.kind == "F":
            idx = self.expr(e.slice, env)
            if idx.kind != "S":
                raise Unsupported(f"line {e.lineno}: frame[...] with an index of kind {idx.kind} (a column label expected)")
            return self.hoist_match(f"(NpDf.getitem heap {base.code} {idx.code})", "it", "COL")
        raise Unsupported(f"line {e.lineno}: subscript of a value of kind {base.kind}")

    def call(self, e: ast.Call, env: Env) -> Val:
        f = e.func
        fu = ast.unparse(f)
        kws = {k.arg: k.value for k in e.keywords}
        if fu == "isinstance" and len(e.args) == 2 and not kws:
            v = self.expr(e.args[0], env)
            ty = ast.unparse(e.args[1])
            if v.kind == "F" and ty in ("pd.DataFrame", "pandas.DataFrame"):
                return Val(f"(NpDf.Heap.isFrame heap {v.code})", "B")
            if v.kind == "TR" and ty == "bool":
                return Val(f"(NpDf.PyTrunc.isBool {v.code})", "B")
            if v.kind == "TR" and (ty == "int" or (isinstance(e.args[1], ast.Tuple)
                                                    and sorted(ast.unparse(t) for t in e.args[1].elts) == ["int", "np.integer"])):
                return Val(f"(NpDf.PyTrunc.isInt {v.code})", "B")
            raise Unsupported(f"line {e.lineno}: isinstance({v.kind}, {ty})")
        if fu == "np.isfinite":
            raise Unsupported(f"line {e.lineno}: np.isfinite outside the guard form `if not np.isfinite(X) or …: raise`")
        if fu == "len" and len(e.args) == 1 and not kws:
            v = self.expr(e.args[0], env)
            if v.kind == "F":
                return Val(f"{self.frame_of(v)}.nrows", "N")
            if v.kind == "LS":
                return Val(f"{v.code}.length", "N")
            raise Unsupported(f"line {e.lineno}: len of a value of kind {v.kind}")
        if fu == "int" and len(e.args) == 1 and not kws:
            v = self.expr(e.args[0], env)
            if v.kind == "TR":
                return self.hoist_match(f"(NpDf.PyTrunc.toInt? {v.code})", "iv", "Z")
            if v.kind in ("N", "Z"):
                return self.as_int(v, "int()", e.lineno)
            if v.kind == "R":
                return Val(f"(RealLike.trunc {v.code})", "Z")
            raise Unsupported(f"line {e.lineno}: int() of a value of kind {v.kind}")
        if fu == "abs" and len(e.args) == 1 and not kws:
            v = self.expr(e.args[0], env)
            if v.kind == "R":
                return Val(f"(RealLike.abs {v.code})", "R")
            raise Unsupported(f"line {e.lineno}: abs() of a value of kind {v.kind}")
        if isinstance(f, ast.Attribute) and f.attr == "copy" and not e.args and not kws:
            v = self.expr(f.value, env)
            if v.kind != "F":
                raise Unsupported(f"line {e.lineno}: .copy() of a value of kind {v.kind}")
            return self.hoist_alloc(f"NpDf.copy heap {v.code}", "cp")
        if isinstance(f, ast.Attribute) and f.attr == "tolist" and not e.args and not kws \
                and isinstance(f.value, ast.Attribute) and f.value.attr == "columns":
            return Val(f"(NpDf.Frame.names {self.frame_of(self.expr(f.value.value, env))})", "LS")
        if isinstance(f, ast.Attribute) and f.attr == "to_numpy" and not e.args and not kws:
            c = self.expr(f.value, env)
            if c.kind != "COL":
                raise Unsupported(f"line {e.lineno}: .to_numpy() of a value of kind {c.kind}")
            return Val(f"{c.code}.vals", "A")
        if isinstance(f, ast.Name) and f.id in self.callees:
            info = self.callees[f.id]
            names = info["params"]
            if len(e.args) > len(names) or set(kws) - set(names[len(e.args):]):
                raise Unsupported(f"line {e.lineno}: call form of {f.id}")
            actual: Dict[str, Val] = {}
            for nm, a in zip(names, e.args):
                actual[nm] = self.expr(a, env)
            for nm in names[len(e.args):]:
                if nm in kws:
                    actual[nm] = self.expr(kws[nm], env)
                elif nm in info["defaults"]:
                    d = info["defaults"][nm]
                    if not (isinstance(d, ast.Constant) and isinstance(d.value, int) and not isinstance(d.value, bool)):
                        raise Unsupported(f"line {e.lineno}: default of {f.id}({nm}=…) is not an integer literal")
                    actual[nm] = Val(f"({d.value} : Int)", "Z")
                else:
                    raise Unsupported(f"line {e.lineno}: {f.id}: no argument for {nm}")
            codes = []
            for nm, k in zip(names, info["kinds"]):
                v = actual[nm]
                if k == "A1":                      # an array, or a Python float = the one-element array
                    if v.kind in ("R", "N", "Z"):
                        v = Val(f"(NpTS.ofScalar {self.to_real(v).code})", "A")
                    k = "A"
                if k == "Z":
                    v = self.as_int(v, f"{f.id}({nm}=…)", e.lineno)
                    if not v.code.startswith("("):
                        v = Val(f"({v.code} : Int)", "Z")
                if v.kind != k:
                    raise Unsupported(f"line {e.lineno}: {f.id}({nm}=…) of kind {v.kind} ({k} expected)")
                codes.append(v.code)
            if info.get("polyfit"):
                self.uses_polyfit = True
                codes = ["polyfit"] + codes
            return self.hoist_match(f"({info['lean']} " + " ".join(codes) + ")", "r", "A")
        raise Unsupported(f"line {e.lineno}: call {fu}")

    # ------------------------------------------------------------------ statements
    @staticmethod
    def is_log(s: ast.stmt) -> bool:
        return (isinstance(s, ast.Expr) and isinstance(s.value, ast.Call) and isinstance(s.value.func, ast.Attribute)
                and isinstance(s.value.func.value, ast.Name) and s.value.func.value.id == "logger"
                and s.value.func.attr in ("debug", "info", "warning", "error", "critical"))

    def block(self, stmts: List[ast.stmt], env: Env, ind: str, final: Optional[Callable[[Env], str]], in_loop: bool = False) -> str:
        """CPS: `final` is what happens when control runs off the end of the list (None = the function would return None: unsupported)"""
        if not stmts:
            if final is None:
                raise Unsupported(f"{self.fn.name}: control reaches the end of the function without a return")
            return ind + final(env)
        s, rest = stmts[0], stmts[1:]
        if self.is_log(s) or (isinstance(s, ast.Expr) and isinstance(s.value, ast.Constant) and isinstance(s.value.value, str)):
            return self.block(rest, env, ind, final, in_loop)
        if isinstance(s, ast.Pass):
            return self.block(rest, env, ind, final, in_loop)
        if isinstance(s, ast.Raise):
            return ind + "none"                                     # statements after it are unreachable
        if isinstance(s, ast.Continue):
            if not in_loop:
                raise Unsupported(f"line {s.lineno}: continue outside a loop")
            return ind + "some heap"
        if isinstance(s, ast.Return):
            if in_loop:
                raise Unsupported(f"line {s.lineno}: return inside a loop")
            if s.value is None:
                raise Unsupported(f"line {s.lineno}: bare return")
            self.pre = []
            v = self.expr(s.value, env)
            if v.kind != "F":
                raise Unsupported(f"line {s.lineno}: return of a value of kind {v.kind} (a DataFrame expected)")
            return self.emit_pre(ind) + f"{ind}some (heap, {v.code})"
        if isinstance(s, ast.Assign) and len(s.targets) == 1 and isinstance(s.targets[0], ast.Name):
            name = s.targets[0].id
            if name in RESERVED or re.search(r"__\d+$", name):
                raise Unsupported(f"line {s.lineno}: the identifier {name} is reserved")
            if in_loop and name in self.outer_names:
                raise Unsupported(f"line {s.lineno}: a loop body re-binds {name}, which lives outside the loop")
            self.pre = []
            v = self.expr(s.value, env)
            if v.kind == "N":
                v = Val(f"(({v.code} : Nat) : Int)", "Z")
            if v.kind not in ("R", "Z", "B", "S", "LS", "A", "F", "COL", "CH"):
                raise Unsupported(f"line {s.lineno}: assignment of a value of kind {v.kind}")
            env = env.copy()
            env.kinds[name] = v.kind
            return (self.emit_pre(ind) + f"{ind}let {name} : {LT[v.kind]} := {v.code}\n" + self.block(rest, env, ind, final, in_loop))
        if isinstance(s, ast.Assign) and len(s.targets) == 1 and isinstance(s.targets[0], ast.Subscript):
            t = s.targets[0]
            self.pre = []
            fr = self.expr(t.value, env)
            if fr.kind != "F":
                raise Unsupported(f"line {s.lineno}: store into a value of kind {fr.kind}")
            idx = self.expr(t.slice, env)
            if idx.kind != "S":
                raise Unsupported(f"line {s.lineno}: frame[...] = … with an index of kind {idx.kind}")
            v = self.expr(s.value, env)
            if v.kind != "A":
                raise Unsupported(f"line {s.lineno}: frame[...] = a value of kind {v.kind} (an ndarray expected)")
            self.pre.append(("match", f"(NpDf.setitem heap {fr.code} {idx.code} {v.code})", "heap", "H"))
            return self.emit_pre(ind) + self.block(rest, env, ind, final, in_loop)
        if isinstance(s, ast.If):
            return self.if_stmt2(s, rest, env, ind, final, in_loop)
        if isinstance(s, ast.For):
            return self.for_stmt(s, rest, env, ind, final, in_loop)
        raise Unsupported(f"line {s.lineno}: statement {type(s).__name__}: {ast.unparse(s)[:60]}")

    def if_stmt2(self, s: ast.If, rest, env: Env, ind: str, final, in_loop: bool) -> str:
        t = s.test
        # --- `if X is None: A else: B` on an optional argument
        if (isinstance(t, ast.Compare) and len(t.ops) == 1 and isinstance(t.ops[0], (ast.Is, ast.IsNot)) and isinstance(t.left, ast.Name)
                and env.kinds.get(t.left.id) == "OLS" and isinstance(t.comparators[0], ast.Constant) and t.comparators[0].value is None):
            x = t.left.id
            none_body, some_body = (s.body, s.orelse) if isinstance(t.ops[0], ast.Is) else (s.orelse, s.body)
            e_none = env.copy()
            e_none.kinds[x] = "NONE"
            e_some = env.copy()
            e_some.kinds[x] = "LS"
            a = self.block(list(none_body) + rest, e_none, ind + "  ", final, in_loop)
            b = self.block(list(some_body) + rest, e_some, ind + "  ", final, in_loop)
            return f"{ind}match {x} with\n{ind}| none => (\n{a}\n{ind}  )\n{ind}| some {x} => (\n{b}\n{ind}  )"
        # --- `if not np.isfinite(X) or REST: <raise>`
        if (isinstance(t, ast.BoolOp) and isinstance(t.op, ast.Or) and len(t.values) >= 2 and isinstance(t.values[0], ast.UnaryOp)
                and isinstance(t.values[0].op, ast.Not) and isinstance(t.values[0].operand, ast.Call)
                and ast.unparse(t.values[0].operand.func) == "np.isfinite" and len(t.values[0].operand.args) == 1
                and isinstance(t.values[0].operand.args[0], ast.Name) and env.kinds.get(t.values[0].operand.args[0].id) == "PF"):
            x = t.values[0].operand.args[0].id
            body = [b for b in s.body if not self.is_log(b)]
            if s.orelse or not (body and isinstance(body[-1], ast.Raise)):
                raise Unsupported(f"line {s.lineno}: the np.isfinite guard must end in a raise and have no else")
            e_fin = env.copy()
            e_fin.kinds[x] = "R"
            restv = t.values[1:]
            rtest = restv[0] if len(restv) == 1 else ast.BoolOp(op=ast.Or(), values=restv)
            ast.copy_location(rtest, t)
            self.pre = []
            c = self.truth(self.expr(rtest, e_fin), rtest)
            if self.pre:
                raise Unsupported(f"line {s.lineno}: a call that can raise in the test of the np.isfinite guard")
            a = self.block(list(s.body) + rest, e_fin, ind + "    ", final, in_loop)
            b = self.block(rest, e_fin, ind + "    ", final, in_loop)
            nf = self.block(list(s.body) + rest, env, ind + "  ", final, in_loop)       # not finite: the body runs (it raises)
            return (f"{ind}match {x} with\n{ind}| NpDf.PyFloat.fin {x} => (\n{ind}  if {c} then\n{a}\n{ind}  else\n{b}\n{ind}  )\n"
                    f"{ind}| _ => (\n{nf}\n{ind}  )")
        self.pre = []
        c = self.truth(self.expr(t, env), t)
        head = self.emit_pre(ind)
        a = self.block(list(s.body) + rest, env, ind + "  ", final, in_loop)
        b = self.block(list(s.orelse) + rest, env, ind + "  ", final, in_loop)
        return f"{head}{ind}if {c} then\n{a}\n{ind}else\n{b}"

    def for_stmt(self, s: ast.For, rest, env: Env, ind: str, final, in_loop: bool) -> str:
        if in_loop:
            raise Unsupported(f"line {s.lineno}: nested loop")
        if s.orelse or not isinstance(s.target, ast.Name):
            raise Unsupported(f"line {s.lineno}: for-loop form")
        c = s.target.id
        if c in RESERVED or c in env.kinds:
            raise Unsupported(f"line {s.lineno}: loop variable {c} is reserved / already bound")
        self.pre = []
        it = self.expr(s.iter, env)
        if it.kind != "LS" or self.pre:
            raise Unsupported(f"line {s.lineno}: loop over a value of kind {it.kind} (a list of column labels expected)")
        for n in ast.walk(s):
            if isinstance(n, (ast.Break, ast.While)):
                raise Unsupported(f"line {n.lineno}: {type(n).__name__} inside the column loop")
        assigned = {n.id for st in s.body for n in ast.walk(st) if isinstance(n, ast.Name) and isinstance(n.ctx, ast.Store)} - {c}
        used_after = {n.id for st in rest for n in ast.walk(st) if isinstance(n, ast.Name)}
        if assigned & used_after:
            raise Unsupported(f"line {s.lineno}: {sorted(assigned & used_after)} assigned in the loop body and used after the loop")
        e2 = env.copy()
        e2.kinds[c] = "S"
        self.outer_names = set(env.kinds)
        body = self.block(list(s.body), e2, ind + "    ", lambda _e: "some heap", True)
        after = self.block(rest, env, ind, final, in_loop)
        return (f"{ind}match (NpDf.forEach {it.code} heap (fun {c} heap =>\n{body})) with\n"
                f"{ind}| none => none\n{ind}| some heap =>\n{after}")

    # ------------------------------------------------------------------ whole function
    def translate_fn(self, params: List[Tuple[str, str]]) -> str:
        fn = self.fn
        got = [a.arg for a in fn.args.args]
        if got != [p for p, _ in params] or fn.args.vararg or fn.args.kwarg or fn.args.kwonlyargs or fn.args.posonlyargs:
            raise Unsupported(f"{fn.name}: parameters {got} (expected {[p for p, _ in params]})")
        env = Env()
        for p, k in params:
            env.kinds[p] = k
        self.outer_names = set()
        code = self.block(list(fn.body), env, "  ", None)
        decl = (["(polyfit : " + POLYFIT_TY + ")"] if self.uses_polyfit else []) + ["(heap : NpDf.Heap α)"] + [f"({p} : {LT[k]})" for p, k in params]
        src = f"/-- {os.path.basename(fn.__dict__.get('_file', ''))}:{fn.lineno}-{fn.end_lineno} `{fn.name}` -/\n"
        text = src + f"def {self.lean_name} " + " ".join(decl) + " : Option (NpDf.Heap α × NpDf.Ref) :=\n" + code + "\n"
        # the defaults of the keyword parameters, as written
        defaults = dict(zip(got[len(got) - len(fn.args.defaults):], fn.args.defaults)) if fn.args.defaults else {}
        for p, k in params:
            if p not in defaults:
                continue
            d = defaults[p]
            if isinstance(d, ast.Constant) and d.value is None and k == "OLS":
                val = "(none : Option (List String))"
            elif isinstance(d, ast.Constant) and d.value is None and k == "TR":
                val = "NpDf.PyTrunc.none"
            elif isinstance(d, ast.Constant) and isinstance(d.value, bool) and k == "B":
                val = "true" if d.value else "false"
            elif isinstance(d, ast.Constant) and isinstance(d.value, int) and not isinstance(d.value, bool) and k == "Z":
                val = f"({d.value} : Int)"
            elif isinstance(d, ast.Constant) and isinstance(d.value, str) and k == "S":
                val = lean_str(d.value)
            else:
                raise Unsupported(f"{fn.name}: default {ast.unparse(d)} of parameter {p} (kind {k})")
            text += f"\n/-- dsp.py:{fn.lineno} default of `{fn.name}({p}=…)` -/\ndef {self.lean_name}_{p}_default : {LT[k]} := {val}\n"
        return text


DOC = """/-!
  Region `DfWrappers` — dsp.df_timeshift and dsp.df_detrend (speckit/dsp.py), translated WHOLE by vk/regions/df_wrappers.py.
  A DataFrame is a mutable object of the store `heap` (value model and pandas contracts: SpecKitV/Np/DfWrappers.lean); the functions
  return the new store and the reference of the returned frame; `none` = the Python call raises.  `timeshift` / `polynomial_detrend`
  are CALLS of the translated `Gen.timeshift` (region TimeShift) / `Gen.polynomial_detrend` (region Rms, `np.polyfit` = its parameter).
  Dropped (value-irrelevant, each recognised syntactically): docstrings; `logger.<level>(…)`; the type and message of a `raise`.
  Statements after an if/else are translated once per branch (no join).
-/

"""

PARAMS = {
    "df_timeshift": [("df", "F"), ("fs", "PF"), ("seconds", "R"), ("columns", "OLS"), ("truncate", "TR"), ("inplace", "B"), ("suffix", "S")],
    "df_detrend": [("df", "F"), ("columns", "OLS"), ("order", "Z"), ("inplace", "B"), ("suffix", "S")],
}


def _callee(fns: Dict[str, ast.FunctionDef], name: str, expected: List[str], kinds: List[str], lean: str, polyfit: bool) -> Dict:
    if name not in fns:
        raise Unsupported(f"{name} not found in speckit/dsp.py")
    fn = fns[name]
    params = [a.arg for a in fn.args.args]
    if params != expected or fn.args.vararg or fn.args.kwarg or fn.args.kwonlyargs:
        raise Unsupported(f"{name}: parameters {params} (expected {expected})")
    defaults = dict(zip(params[len(params) - len(fn.args.defaults):], fn.args.defaults)) if fn.args.defaults else {}
    return {"params": params, "kinds": kinds, "defaults": defaults, "lean": lean, "polyfit": polyfit}


def generate(repo: str) -> Tuple[str, List[str]]:
    path = os.path.join(repo, SOURCES[0])
    out = HEADER.format(src=SOURCES[0], sha=sha_of(path))
    out = out.replace("/verif/vk/translate.py", "/verif/vk/regions/df_wrappers.py (py2lean region plug-in)")
    out = out.replace("import SpecKitV.Num\n", "import SpecKitV.Num\nimport SpecKitV.Np.DfWrappers\nimport SpecKitV.Gen.TimeShift\nimport SpecKitV.Gen.Rms\n")
    out += DOC
    errors: List[str] = []
    fns = parse_functions(path)
    for name, params in PARAMS.items():
        try:
            if name not in fns:
                raise Unsupported(f"{name} not found in speckit/dsp.py")
            callees = {
                "timeshift": _callee(fns, "timeshift", ["data", "shifts", "order"], ["A", "A1", "Z"], "Gen.timeshift", False),
                "polynomial_detrend": _callee(fns, "polynomial_detrend", ["x", "order"], ["A", "Z"], "Gen.polynomial_detrend", True),
            }
            tr = DfTranslator(fns[name], dict(params), name, callees)
            out += tr.translate_fn(params) + "\n"
        except Unsupported as ex:
            errors.append(f"{name}: {ex}")
            msg = str(ex).replace("-/", "- /")
            out += f"/- UNSUPPORTED {name}: {msg} -/\ndef {name}_UNSUPPORTED : Nat := translation_failed_{name}\n\n"
    out += "end Gen\n"
    return out, errors


if __name__ == "__main__":
    import sys
    t, errs = generate(sys.argv[1] if len(sys.argv) > 1 else os.environ.get("SPECKIT_REPO", "/repo"))
    print(t)
    print("ERRORS", errs, file=sys.stderr)


# =====================================================================================================================
#  Differential harness of the region (used by vk/props/C16.py: df_timeshift, and vk/props/C19.py: df_detrend):
#  the REAL functions on generated pandas frames vs the GENERATED definitions executed by the driver (ops gdfts / gdfdt).
#  Compared: raised-or-not; identity (`out is df`  <->  returned reference 0); input untouched (`df.equals(before)`  <->  object 0
#  of the new store unchanged); column labels and ORDER; dtype kinds; row count; which rows survive (row index and the opaque
#  tokens of non-numeric columns); values (exact for columns the generated code leaves untouched, forward tolerance otherwise).
# =====================================================================================================================
U = 2.0 ** -53
SHIFT_TOL = (16.0 * 16 + 1000.0) * U * 8.0      # C16.tolc(16) x (max|x| x a bound 8 on sum|taps| for h = 16), per sample
POOL = [("a", "f"), ("b", "f"), ("i", "i"), ("u", "u"), ("k", "b"), ("s", "s"), ("d", "d")]
MAX_DISAGREE = 12
TABLE_DEG = 5          # the polyfit table handed to the driver covers the degrees 0..max(order, 5) whatever `order` the case passes: a code variant
#                        that asks for another degree than the harness expects (say the default) must still get NumPy's answer, not a spurious "raises"


def _quiet():
    import logging
    for name in ("speckit", "speckit.dsp"):
        logging.getLogger(name).setLevel(logging.CRITICAL + 10)


def build_frame(spec: Dict):
    """the pandas frame of a case spec: {"n", "cols": [[label, type]], "seed", "index"}; types f i u b (numeric) s d (not numeric)"""
    import numpy as np
    import pandas as pd
    n = int(spec["n"])
    rng = np.random.default_rng(int(spec["seed"]))
    t = np.arange(n) / max(n, 1)
    data = {}
    for name, ty in spec["cols"]:
        if ty == "f":
            data[name] = rng.standard_normal(n) + 9 * t ** 3 - 4 * t + 1.5 + 3 * np.sin(7 * t)
        elif ty == "i":
            data[name] = (rng.integers(-50, 50, n) + (np.arange(n) ** 2) // 7).astype(np.int64)
        elif ty == "u":
            data[name] = rng.integers(0, 200, n).astype(np.uint8)
        elif ty == "b":
            data[name] = rng.integers(0, 2, n).astype(bool)
        elif ty == "s":
            data[name] = np.array([f"r{k}" for k in range(n)], dtype=object)
        elif ty == "d":
            data[name] = pd.date_range("2020-01-01", periods=n, freq="s")
        else:
            raise ValueError(ty)
    kind = spec.get("index", "range")
    if kind == "range":
        idx = None
    elif kind == "shuffled":
        idx = rng.permutation(n) * 3 + 7
    elif kind == "datetime":
        idx = pd.date_range("2021-05-01", periods=n, freq="min")[::-1]
    else:
        idx = [f"row{(k * 7) % max(n, 1)}_{k}" for k in range(n)]
    return pd.DataFrame(data, index=idx, columns=[c for c, _ in spec["cols"]])


def encode_col(df, j: int):
    import numpy as np
    s = df.iloc[:, j]
    if s.dtype.kind in "biuf":
        return s.to_numpy().astype(np.float64)
    return j * 1.0e6 + np.arange(len(df), dtype=np.float64)          # opaque tokens: (column, row)


def frame_tokens(df) -> str:
    from .. import common as C
    toks = ["1", str(len(df.columns))]
    for j, c in enumerate(df.columns):
        toks += ["=" + str(c), df.iloc[:, j].dtype.kind, C.arr(encode_col(df, j))]
    toks += [str(len(df)), C.iarr(range(len(df)))]
    return " ".join(toks)


def cols_tokens(cols) -> str:
    return "0" if cols is None else " ".join(["1", str(len(cols))] + ["=" + str(c) for c in cols])


def trunc_token(tr) -> str:
    import numpy as np
    if tr is None:
        return "N"
    if isinstance(tr, bool):
        return "B1" if tr else "B0"
    if isinstance(tr, (int, np.integer)):
        return f"I{int(tr)}"
    return "O"


def parse_reply(r: str):
    from .. import common as C
    if r == "RAISE":
        return None
    if not r.startswith("OK "):
        raise RuntimeError("driver: " + r[:200])
    t = r.split(" ")
    t = [x for x in t if x != ""]
    ref, nobjs, same, nc = int(t[1]), int(t[2]), int(t[3]), int(t[4])
    pos = 5
    cols = []
    for _ in range(nc):
        name, kind, n = t[pos][1:], t[pos + 1], int(t[pos + 2])
        vals = [C.h2f(v) for v in t[pos + 3:pos + 3 + n]]
        cols.append((name, kind, vals))
        pos += 3 + n
    nrows, ni = int(t[pos]), int(t[pos + 1])
    idx = [int(v) for v in t[pos + 2:pos + 2 + ni]]
    return {"ref": ref, "nobjs": nobjs, "input_same": same, "cols": cols, "nrows": nrows, "index": idx}


def _jsonable(v):
    import numpy as np
    if isinstance(v, (np.integer,)):
        return {"np.int64": int(v)}
    if isinstance(v, float) and (v != v or v in (float("inf"), float("-inf"))):
        return repr(v)
    return v


def compare_case(P, which: str, spec: Dict, df, before, out, exc, gen, passthrough: bool, src_of: Dict[str, str], tol_of) -> Optional[str]:
    """-> None if the generated run agrees with the real one, else a description of the first difference"""
    import numpy as np
    if exc is not None or gen is None:
        if (exc is not None) != (gen is None):
            return f"real {'raised ' + repr(exc) if exc is not None else 'returned'} but generated {'raised' if gen is None else 'returned'}"
        return None
    if (out is df) != (gen["ref"] == 0):
        return f"identity: real `out is df` = {out is df}, generated returned reference {gen['ref']}"
    if df.equals(before) != (gen["input_same"] == 1):
        return f"input frame: real df.equals(before) = {df.equals(before)}, generated input-unchanged flag = {gen['input_same']}"
    names = [c for c, _, _ in gen["cols"]]
    if [str(c) for c in out.columns] != names:
        return f"column labels/order: real {[str(c) for c in out.columns]} generated {names}"
    if len(out) != gen["nrows"]:
        return f"row count: real {len(out)} generated {gen['nrows']}"
    rows = gen["index"]
    if len(rows) != len(out) or not out.index.equals(before.index[rows]):
        return f"row index: the rows kept by the generated code {rows[:6]}… do not carry the real result's index"
    for j, (name, kind, vals) in enumerate(gen["cols"]):
        s = out.iloc[:, j]
        rk = s.dtype.kind
        if rk != kind:
            # the generated code stores kind 'f' (NpDf.resultKind); the real timeshift returns an array of the INPUT's dtype in its pass-through /
            # early-return branches (values equal: compared below).  Accepted whenever the real kind is the source column's; whether the harness
            # expected such a branch (from seconds*fs) is only recorded, so that this check does not depend on a Python-side re-computation
            src = src_of.get(name)
            if not (kind == "f" and src is not None and rk == before[src].dtype.kind):
                return f"dtype kind of {name!r}: real {rk!r} generated {kind!r}"
            P.hit("gen-df-passthrough-dtype" if passthrough else "gen-df-passthrough-dtype(not predicted from seconds*fs)")
        v = np.asarray(vals, dtype=np.float64)
        if len(v) != len(out):
            return f"column {name!r}: generated length {len(v)} vs {len(out)} rows"
        if kind not in "biuf":
            jj, rr = (v // 1.0e6).astype(int), (v % 1.0e6).astype(int)
            if len(v) and (np.any(jj != jj[0]) or jj[0] >= before.shape[1]):
                return f"column {name!r}: generated tokens are not from one input column"
            exp = before.iloc[rr, int(jj[0])].reset_index(drop=True) if len(v) else None
            if len(v) and not exp.equals(s.reset_index(drop=True)):
                return f"non-numeric column {name!r}: values differ from the input rows the generated code kept"
            continue
        got = s.to_numpy().astype(np.float64)
        untouched = False
        if name in [str(c) for c in before.columns]:
            j0 = [str(c) for c in before.columns].index(name)
            if before.iloc[:, j0].dtype.kind == kind:
                e0 = encode_col(before, j0)[rows] if len(rows) else np.zeros(0)
                untouched = len(e0) == len(v) and np.array_equal(e0.view(np.uint64), v.view(np.uint64))
        tol = 0.0 if untouched else tol_of(name)
        with np.errstate(invalid="ignore"):
            ok = (np.abs(got - v) <= tol) | (np.isnan(got) & np.isnan(v))
        if not np.all(ok):
            k = int(np.argmax(~ok))
            return (f"column {name!r} ({'untouched: exact' if untouched else 'computed'}): row {k}: real {got[k]!r} generated {v[k]!r} "
                    f"(tol {tol:.3g})")
    return None


def polyfit_entries(x, maxdeg: int) -> str:
    """one table entry of the polyfit contract parameter: the array and NumPy's coefficients for the degrees 0..maxdeg"""
    import warnings
    import numpy as np
    from .. import common as C
    t = np.arange(len(x))
    tab = []
    for dg in range(maxdeg + 1):
        if len(x) == 1 and dg >= 1:
            tab.append(np.zeros(0))
            continue
        try:
            with warnings.catch_warnings():
                warnings.simplefilter("ignore")
                tab.append(np.asarray(np.polyfit(t, x, deg=dg), dtype=np.float64))
        except Exception:
            tab.append(np.zeros(0))
    return C.arr(x) + f" {len(tab)} " + " ".join(C.arr(c) for c in tab)


def gen_spec(rng, i: int, which: str) -> Dict:
    import numpy as np
    sfx_default = "_shifted" if which == "timeshift" else "_detrended"
    n = int([1, 2, 3, 5, 33, 40, 64, 0][i % 8]) if i < 16 else int(rng.integers(2, 120))
    k = int(rng.integers(1, len(POOL) + 1))
    order = [int(j) for j in rng.permutation(len(POOL))[:k]]
    cols = [list(POOL[j]) for j in order]
    if not any(ty in "fiub" for _, ty in cols):
        cols.append(["a", "f"])
    suffix = [None, None, "_x", "", ".d"][int(rng.integers(0, 5))]
    sfx = sfx_default if suffix is None else suffix
    names = [c for c, _ in cols]
    mode = i % 7
    if mode in (2, 5) and sfx:                       # suffix collisions: the frame already has `<c><suffix>` (and its own target)
        c0 = names[int(rng.integers(0, len(names)))]
        for extra in (c0 + sfx, c0 + sfx + sfx)[: 1 + int(rng.integers(0, 2))]:
            if extra not in names:
                cols.insert(int(rng.integers(0, len(cols) + 1)), [extra, "f" if rng.integers(0, 3) else "s"])
                names = [c for c, _ in cols]
    if i % 29 == 11:
        cols = []                                    # a frame without columns (df.empty)
        names = []
    csel = i % 6
    if csel in (0, 1) or not names:
        columns = None
    elif csel == 2:
        columns = [names[int(rng.integers(0, len(names)))]]
    elif csel == 3:
        columns = [str(c) for c in rng.choice(names, size=int(rng.integers(1, len(names) + 1)), replace=False)]
    elif csel == 4:
        columns = [str(c) for c in rng.choice(names, size=int(rng.integers(1, 4)), replace=True)] + (["zz"] if rng.integers(0, 2) else [])
    else:
        columns = [] if rng.integers(0, 4) == 0 else [str(c) for c in rng.choice(names, size=2, replace=True)]
    spec = {"which": which, "n": n, "cols": cols, "seed": int(rng.integers(0, 2 ** 62)),
            "index": ["range", "shuffled", "datetime", "str"][int(rng.integers(0, 4))], "columns": columns,
            "inplace": bool(rng.integers(0, 2)), "suffix": suffix, "not_a_frame": bool(i % 37 == 5)}
    if which == "timeshift":
        fs = [0.5, 1.0, 2.0, 10.0, 100.0, 1.0 / 3.0][int(rng.integers(0, 6))]
        if i % 11 == 3:
            fs = [float("nan"), float("inf"), float("-inf"), 0.0, -1.0][int(rng.integers(0, 5))]
        sc = i % 9
        if sc == 0:
            seconds = 0.0 if rng.integers(0, 2) else -0.0
        elif sc == 1:
            seconds = float(rng.choice([1e-9, -1e-9, 1e-300, 1e-320]))
        elif sc == 2:
            seconds = float(rng.integers(-3, 4) or 2) / fs if fs == fs and fs not in (0.0, float("inf"), float("-inf")) else 1.0   # integer shift
        elif sc == 3:
            seconds = float(rng.choice([-1, 1])) * (n + 40.0)          # beyond the record
        else:
            seconds = float(rng.uniform(-6, 6))
        tr = [None, None, True, False, 0, 3, 10 ** 6, -2, 2.5, "x", np.int64(2), 1][int(rng.integers(0, 12))]
        spec.update({"fs": fs, "seconds": seconds, "truncate": tr})
    else:
        spec["order"] = int([0, 1, 2, 3, 5, -1, 1, 4][int(rng.integers(0, 8))])
        spec["order_default"] = bool(rng.integers(0, 5) == 0)
    return spec


def run_case(P, ctx, spec: Dict, defaults: Dict) -> None:
    import warnings
    import numpy as np
    from .. import common as C
    from speckit.dsp import df_timeshift, df_detrend, polynomial_detrend
    which = spec["which"]
    df = build_frame(spec)
    before = df.copy(deep=True)
    arg = {"x": 1} if spec.get("not_a_frame") else df
    obj = "0" if spec.get("not_a_frame") else frame_tokens(df)
    cols, inplace, suffix = spec["columns"], bool(spec["inplace"]), spec["suffix"]
    kw = {"inplace": inplace}
    if cols is not None:
        kw["columns"] = list(cols)
    if suffix is not None:
        kw["suffix"] = suffix
    P.cases += 1
    P.hit(f"gen-df_{which}")
    if which == "timeshift":
        tr = spec["truncate"]
        if isinstance(tr, dict):
            tr = np.int64(tr["np.int64"])
        fs, seconds = float(spec["fs"]), float(spec["seconds"])
        if tr is not None:
            kw["truncate"] = tr
        sfx = defaults["ts_suffix"] if suffix is None else suffix
        line = f"gdfts {obj} {C.f2h(fs)} {C.f2h(seconds)} {cols_tokens(cols)} {trunc_token(tr)} {1 if inplace else 0} ={sfx}"
        call = lambda: df_timeshift(arg, fs, seconds, **kw)
        with np.errstate(all="ignore"):
            # timeshift returns an array of the INPUT's dtype (not float64) in its pass-through / early-return branches: a record of size <= 1,
            # an exactly zero shift, and a shift that moves the whole record out (np.repeat of the first / last sample): NpDf.resultKind
            sh = seconds * fs
            si = math.floor(sh) if sh == sh and abs(sh) < 1e300 else 0
            passthrough = len(df) <= 1 or sh == 0.0 or (si + 16 + len(df) - 1 < 0) or (si - 15 > len(df) - 1)
        P.hit("gen-dfts-truncate=%s" % ("None" if tr is None else type(tr).__name__ + (str(tr) if isinstance(tr, bool) else "")))
        P.hit("gen-dfts-seconds=%s" % ("0" if seconds == 0 else "tiny" if abs(seconds) < 1e-6 else "neg" if seconds < 0 else "pos"))
        if not (fs == fs and 0 < fs < float("inf")):
            P.hit("gen-dfts-bad-fs")
    else:
        order = int(spec["order"])
        if not spec.get("order_default"):
            kw["order"] = order
        else:
            order = int(defaults["dt_order"])
        sfx = defaults["dt_suffix"] if suffix is None else suffix
        numeric = [j for j in range(df.shape[1]) if df.iloc[:, j].dtype.kind in "biuf"]
        entries = []
        for j in numeric:
            x = encode_col(df, j)
            entries.append(polyfit_entries(x, max(order, TABLE_DEG)))
            if len(x) and order >= 0:                      # also what a column detrended once looks like (a code variant may ask)
                try:
                    with warnings.catch_warnings():
                        warnings.simplefilter("ignore")
                        entries.append(polyfit_entries(np.asarray(polynomial_detrend(x, order), dtype=np.float64), max(order, TABLE_DEG)))
                except Exception:
                    pass
        line = (f"gdfdt {obj} {cols_tokens(cols)} {order} {1 if inplace else 0} ={sfx} {len(entries)} " + " ".join(entries))
        call = lambda: df_detrend(arg, **kw)
        passthrough = False
        P.hit(f"gen-dfdt-order={order}")
    P.hit("gen-df-columns=%s" % ("None" if cols is None else "list"))
    P.hit("gen-df-inplace" if inplace else "gen-df-suffix")
    out, exc = None, None
    try:
        with warnings.catch_warnings():
            warnings.simplefilter("ignore")
            out = call()
    except Exception as ex:                                 # the generated code must raise exactly where the source does
        exc = ex
    r = ctx.driver.ask(line)
    if r.startswith("ERR"):
        raise RuntimeError(f"driver error {r[:200]} on {line[:200]}")
    gen = parse_reply(r)
    # harness-side bookkeeping only (tolerances, histogram): which input column a result label comes from
    names0 = [str(c) for c in before.columns]
    sel = names0 if cols is None else [c for c in cols if c in names0]
    src_of = {(c if inplace else c + sfx): c for c in sel if before[c].dtype.kind in "biufc"}

    def tol_of(name: str) -> float:
        c = src_of.get(name)
        if c is None:
            return 0.0
        x = before[c].to_numpy().astype(np.float64)
        amax = float(np.max(np.abs(x))) if len(x) else 0.0
        if which == "timeshift":
            return SHIFT_TOL * amax + 1e-300
        return 8 * U * (len(x) + 2) * amax + 1e-300 if order == 0 else 8 * U * 2 * amax * 4 + 1e-300

    why = compare_case(P, which, spec, df, before, out, exc, gen, passthrough, src_of, tol_of)
    if exc is not None:
        P.hit("gen-df-raise:" + type(exc).__name__)
    elif out is df:
        P.hit("gen-df-identity")
    else:
        if len(out) < len(before):
            P.hit("gen-df-truncated" if len(out) else "gen-df-truncated-to-empty")
        if any(t in names0 for t in src_of) and not inplace:
            P.hit("gen-df-suffix-collision")
    if why is not None:
        P.hit("gen-vs-real-disagreement")
        if len(P.disagreements) < MAX_DISAGREE:
            P.disagreements.append({"op": "gdfts" if which == "timeshift" else "gdfdt", "what": why,
                                    "spec": {k: _jsonable(v) for k, v in spec.items()}, "case": {"kind": "dfgen", "spec": {k: _jsonable(v) for k, v in spec.items()}}})
    elif exc is None and out is not df and src_of and len(before) >= 2:
        P.nontrivial.add(("gen-df", which, spec["n"], tuple(names0), str(cols), inplace, sfx,
                          str(spec.get("truncate")), spec.get("order"), spec.get("seconds")))


def differential(P, ctx, crng, which: str) -> None:
    """the generated DataFrame wrapper (`which` = "timeshift" | "detrend") vs the real one; every random choice from `crng`"""
    _quiet()
    t0 = ctx.time_left()
    d = ctx.driver.ask("gdfdefaults").split(" ")
    defaults = {"ts_columns": d[0], "ts_truncate": d[1], "ts_inplace": d[2], "ts_suffix": d[3][1:], "dt_columns": d[4], "dt_order": d[5],
                "dt_inplace": d[6], "dt_suffix": d[7][1:]}
    n = ctx.scale(260, 2000)
    for i in range(n):
        if ctx.time_left() < 20 or t0 - ctx.time_left() > ctx.scale(18, 180):
            P.notes.append(f"generated-code differential (region DfWrappers, {which}): stopped after {i} cases (time)")
            break
        run_case(P, ctx, gen_spec(crng, i, which), defaults)
    P.notes.append(f"generated-code differential (region DfWrappers, df_{which}): {t0 - ctx.time_left():.1f}s")
