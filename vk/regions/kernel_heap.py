"""Region KernelHeap — the buffer operations of the NumPy fallback kernels of core.py.

For `_gather_segments`, `_check_starts_bounds` and the six `_stats_*_np` kernels every statement is classified by its effect on
array BUFFERS (not on values): does it allocate, create a view, rebind a name, or write into an existing buffer?  The result is one
`List Model.KOp` per kernel (callees inlined at their call sites), over numbered array variables whose first `k` are the kernel's
array parameters (= the caller's buffers).  Model/KHeap.lean gives the ops their aliasing semantics, Props/KernelHeapGen.lean proves
that no execution writes a caller buffer.

Classification rules (each checked on the AST; anything not listed raises Unsupported):
  expression -> array variable | scalar
    Name                                         its variable (arrays) / scalar
    v[idx]      idx built from array values      fancy   (advanced indexing copies)
                idx slices/ints/None/scalars     basic   (view)
    v.T v.real v.imag                            basic
    v.shape v.size v.ndim v.dtype                scalar
    np.asarray / np.ascontiguousarray (v, …)     asarray
    np.nan_to_num(v, copy=<literal>)             nanToNum
    np.<f>(…, out=v)                             write v; value aliases v
    np.<f>(…) for f in FRESH_FUNCS, v.<m>(…) for m in FRESH_METHODS, BinOp/UnaryOp/Compare on arrays     fresh
    np.<f>(v, …) for f in VIEW_FUNCS, v.<m>(…) for m in VIEW_METHODS                                     basic
    int() float() len() min() max() complex() range() of anything                                        scalar
    call of another function of the region       inlined (parameters bound to the argument variables)
  statement
    name = expr            bind (arrays) / nothing (scalars);  a, b = e1, e2 pairwise
    v[...] = expr          write v        v op= expr   write v (arrays: in place)
    if / for / with        bodies in order; names bound differently on the two paths of an `if`, or before/after a loop body, are joined by phi;
                           a loop body is interpreted until the bindings are stable (at most 4 passes)
    return expr            the function's value;  raise / pass / docstrings / logging  nothing
"""
from __future__ import annotations

import ast
import os
from typing import Dict, List, Optional, Tuple

from ..translate import Unsupported, parse_functions, sha_of

REGION = "KernelHeap"
SOURCES = ["speckit/core.py"]

KERNELS = ["_stats_win_only_auto_np", "_stats_win_only_csd_np", "_stats_detrend0_auto_np", "_stats_detrend0_csd_np",
           "_stats_poly_auto_np", "_stats_poly_csd_np"]
INLINE = ["_gather_segments", "_check_starts_bounds"]
ARRAY_PARAMS = {"x", "x1", "x2", "starts", "w", "Q"}          # array-valued parameters (all other parameters are scalars)
SCALAR_CALLS = {"int", "float", "len", "min", "max", "complex", "range", "bool", "abs", "str", "isinstance"}
FRESH_FUNCS = {"arange", "exp", "cos", "sin", "sqrt", "empty", "zeros", "ones", "zeros_like", "ones_like", "empty_like", "mean", "sum",
               "conj", "conjugate", "abs", "dot", "matmul", "array", "copy", "where", "log", "log10", "power", "square", "add", "subtract",
               "multiply", "divide", "einsum", "vstack", "hstack", "concatenate", "stack", "full", "linspace", "isfinite", "isnan", "any", "all"}
VIEW_FUNCS = {"reshape", "ravel", "squeeze", "transpose", "swapaxes", "atleast_1d", "atleast_2d", "broadcast_to", "real", "imag", "expand_dims"}
FRESH_METHODS = {"mean", "sum", "min", "max", "conj", "conjugate", "astype", "copy", "dot", "std", "var", "any", "all", "item", "tolist", "prod"}
VIEW_METHODS = {"reshape", "ravel", "squeeze", "transpose", "swapaxes", "view"}
VIEW_ATTRS = {"T", "real", "imag"}
SCALAR_ATTRS = {"shape", "size", "ndim", "dtype", "itemsize", "nbytes"}


class Interp:
    def __init__(self, fns: Dict[str, ast.FunctionDef]):
        self.fns = fns
        self.ops: List[str] = []
        self.nvars = 0
        self.depth = 0

    def new(self) -> int:
        self.nvars += 1
        return self.nvars - 1

    def emit(self, s: str):
        self.ops.append(s)

    # ---- expressions: returns a variable id (array) or None (scalar)
    def ev(self, e: ast.AST, env: Dict[str, Optional[int]]) -> Optional[int]:
        if isinstance(e, ast.Constant):
            return None
        if isinstance(e, ast.Name):
            if e.id in env:
                return env[e.id]
            if e.id in ("np", "True", "False", "None"):
                return None
            raise Unsupported(f"line {e.lineno}: unbound name {e.id}")
        if isinstance(e, (ast.Tuple, ast.List)):
            vs = [self.ev(x, env) for x in e.elts]
            if any(v is not None for v in vs):
                d = self.new()
                self.emit(f".fresh {d}")          # np.array([...]) style containers of arrays are copied on use; the container itself is new
                return d
            return None
        if isinstance(e, ast.Subscript):
            base = self.ev(e.value, env)
            if base is None:
                self.index_kind(e.slice, env)
                return None
            kind = self.index_kind(e.slice, env)
            d = self.new()
            self.emit(f".{kind} {d} {base}")
            return d
        if isinstance(e, ast.Attribute):
            if isinstance(e.value, ast.Name) and e.value.id == "np":
                return None                        # np.float64, np.pi …
            base = self.ev(e.value, env)
            if base is None:
                return None
            if e.attr in VIEW_ATTRS:
                d = self.new()
                self.emit(f".basic {d} {base}")
                return d
            if e.attr in SCALAR_ATTRS:
                return None
            raise Unsupported(f"line {e.lineno}: attribute .{e.attr} of an array")
        if isinstance(e, (ast.BinOp, ast.BoolOp, ast.Compare, ast.UnaryOp)):
            subs = [n for n in ast.iter_child_nodes(e) if isinstance(n, ast.expr)]
            vs = [self.ev(n, env) for n in subs]
            if any(v is not None for v in vs):
                d = self.new()
                self.emit(f".fresh {d}")
                return d
            return None
        if isinstance(e, ast.IfExp):
            self.ev(e.test, env)
            a, b = self.ev(e.body, env), self.ev(e.orelse, env)
            if a is None and b is None:
                return None
            if a is None or b is None:
                raise Unsupported(f"line {e.lineno}: conditional expression mixing array and scalar")
            d = self.new()
            self.emit(f".phi {d} {a} {b}")
            return d
        if isinstance(e, ast.Call):
            return self.call(e, env)
        raise Unsupported(f"line {getattr(e, 'lineno', 0)}: expression {type(e).__name__}")

    def index_kind(self, idx: ast.AST, env) -> str:
        """'basic' (view) or 'fancy' (copy) for v[idx]"""
        parts = idx.elts if isinstance(idx, ast.Tuple) else [idx]
        fancy = False
        for p in parts:
            if isinstance(p, ast.Slice):
                for q in (p.lower, p.upper, p.step):
                    if q is not None and self.ev(q, env) is not None:
                        raise Unsupported(f"line {p.lineno}: array-valued slice bound")
                continue
            if isinstance(p, ast.Constant) and (p.value is None or isinstance(p.value, int) or p.value is Ellipsis):
                continue
            v = self.ev(p, env)
            if v is not None:
                fancy = True               # an index ARRAY (integer or boolean): advanced indexing
        return "fancy" if fancy else "basic"

    def call(self, e: ast.Call, env) -> Optional[int]:
        f = e.func
        kw = {k.arg: k.value for k in e.keywords if k.arg}
        # plain builtins
        if isinstance(f, ast.Name):
            if f.id in SCALAR_CALLS:
                for a in e.args:
                    self.ev(a, env)
                return None
            if f.id in self.fns and f.id in INLINE:
                return self.inline(f.id, e, env)
            raise Unsupported(f"line {e.lineno}: call of {f.id}")
        if isinstance(f, ast.Attribute) and isinstance(f.value, ast.Name) and f.value.id == "np":
            name = f.attr
            args = [self.ev(a, env) for a in e.args]
            if name in ("asarray", "ascontiguousarray", "asanyarray"):
                if args and args[0] is not None:
                    d = self.new()
                    self.emit(f".asarray {d} {args[0]}")
                    return d
                d = self.new()
                self.emit(f".fresh {d}")
                return d
            if name == "nan_to_num":
                if not args or args[0] is None:
                    return None
                c = kw.get("copy")
                if c is None:
                    copy = True
                elif isinstance(c, ast.Constant) and isinstance(c.value, bool):
                    copy = c.value
                else:
                    raise Unsupported(f"line {e.lineno}: nan_to_num copy= is not a literal")
                d = self.new()
                self.emit(f".nanToNum {d} {args[0]} {'true' if copy else 'false'}")
                return d
            if name == "errstate":
                return None
            for k, v in kw.items():
                if k != "out":
                    self.ev(v, env)
            if "out" in kw:
                o = self.ev(kw["out"], env)
                if o is None:
                    raise Unsupported(f"line {e.lineno}: out= is not an array")
                self.emit(f".write {o}")
                return o
            if name in VIEW_FUNCS:
                if args and args[0] is not None:
                    d = self.new()
                    self.emit(f".basic {d} {args[0]}")
                    return d
                return None
            if name in FRESH_FUNCS:
                d = self.new()
                self.emit(f".fresh {d}")
                return d
            raise Unsupported(f"line {e.lineno}: np.{name} has no aliasing rule")
        if isinstance(f, ast.Attribute):
            base = self.ev(f.value, env)
            for a in e.args:
                self.ev(a, env)
            for k, v in kw.items():
                self.ev(v, env)
            if base is None:
                return None                  # method of a scalar / module object (e.g. logger.debug)
            if f.attr in FRESH_METHODS:
                d = self.new()
                self.emit(f".fresh {d}")
                return d
            if f.attr in VIEW_METHODS:
                d = self.new()
                self.emit(f".basic {d} {base}")
                return d
            if f.attr in ("fill", "sort", "resize", "put", "itemset", "partition", "setfield", "byteswap"):
                self.emit(f".write {base}")
                return None
            raise Unsupported(f"line {e.lineno}: array method .{f.attr}() has no aliasing rule")
        raise Unsupported(f"line {e.lineno}: call form")

    def inline(self, name: str, call: ast.Call, env) -> Optional[int]:
        if self.depth > 4:
            raise Unsupported(f"line {call.lineno}: inlining too deep")
        fn = self.fns[name]
        params = [a.arg for a in fn.args.args]
        if call.keywords or len(call.args) != len(params):
            raise Unsupported(f"line {call.lineno}: call of {name} with keywords / wrong arity")
        sub: Dict[str, Optional[int]] = {}
        for p, a in zip(params, call.args):
            v = self.ev(a, env)
            if (p in ARRAY_PARAMS) != (v is not None):
                raise Unsupported(f"line {call.lineno}: argument {p} of {name}: array/scalar mismatch")
            sub[p] = v
        self.depth += 1
        ret = self.block(fn.body, sub)
        self.depth -= 1
        return ret

    # ---- statements: returns the variable of a `return` value seen (last one wins; joined by phi if several)
    def block(self, stmts: List[ast.stmt], env: Dict[str, Optional[int]]) -> Optional[int]:
        ret: List[Optional[int]] = []
        for s in stmts:
            r = self.stmt(s, env)
            ret.extend(r)
        arr = [r for r in ret if r is not None]
        if not arr:
            return None
        out = arr[0]
        for r in arr[1:]:
            d = self.new()
            self.emit(f".phi {d} {out} {r}")
            out = d
        return out

    def assign(self, tgt: ast.AST, val: Optional[int], env, lineno: int):
        if isinstance(tgt, ast.Name):
            if val is None:
                env[tgt.id] = None
            else:
                d = self.new()
                self.emit(f".bind {d} {val}")
                env[tgt.id] = d
            return
        if isinstance(tgt, ast.Subscript):
            base = self.ev(tgt.value, env)
            self.index_kind(tgt.slice, env)
            if base is None:
                raise Unsupported(f"line {lineno}: element store into a non-array")
            self.emit(f".write {base}")
            return
        raise Unsupported(f"line {lineno}: assignment target {type(tgt).__name__}")

    def stmt(self, s: ast.stmt, env) -> List[Optional[int]]:
        if isinstance(s, ast.Expr):
            if isinstance(s.value, ast.Constant):
                return []
            self.ev(s.value, env)
            return []
        if isinstance(s, ast.Assign):
            if len(s.targets) != 1:
                raise Unsupported(f"line {s.lineno}: chained assignment")
            t = s.targets[0]
            if isinstance(t, ast.Tuple):
                if isinstance(s.value, ast.Tuple) and len(s.value.elts) == len(t.elts):
                    vals = [self.ev(v, env) for v in s.value.elts]
                    for tt, v in zip(t.elts, vals):
                        self.assign(tt, v, env, s.lineno)
                    return []
                v = self.ev(s.value, env)
                if v is not None:
                    raise Unsupported(f"line {s.lineno}: tuple unpacking of an array-valued expression")
                for tt in t.elts:
                    self.assign(tt, None, env, s.lineno)
                return []
            self.assign(t, self.ev(s.value, env), env, s.lineno)
            return []
        if isinstance(s, ast.AugAssign):
            self.ev(s.value, env)
            if isinstance(s.target, ast.Name):
                v = env.get(s.target.id, "unbound")
                if v == "unbound":
                    raise Unsupported(f"line {s.lineno}: augmented assignment to unbound {s.target.id}")
                if v is not None:
                    self.emit(f".write {v}")       # ndarray op= works in place
                return []
            if isinstance(s.target, ast.Subscript):
                base = self.ev(s.target.value, env)
                if base is None:
                    raise Unsupported(f"line {s.lineno}: element update of a non-array")
                self.emit(f".write {base}")
                return []
            raise Unsupported(f"line {s.lineno}: augmented assignment target")
        if isinstance(s, ast.Return):
            return [self.ev(s.value, env)] if s.value is not None else []
        if isinstance(s, (ast.Raise, ast.Pass, ast.Assert)):
            return []
        if isinstance(s, ast.With):
            for it in s.items:
                self.ev(it.context_expr, env)
            return [self.block(s.body, env)]
        if isinstance(s, ast.If):
            self.ev(s.test, env)
            e1, e2 = dict(env), dict(env)
            r1 = self.block(s.body, e1)
            r2 = self.block(s.orelse, e2)
            self.join(env, e1, e2, s.lineno)
            return [r1, r2]
        if isinstance(s, ast.For):
            self.ev(s.iter, env)
            if not isinstance(s.target, ast.Name):
                raise Unsupported(f"line {s.lineno}: loop target")
            env[s.target.id] = None
            rets: List[Optional[int]] = []
            for _ in range(4):
                before = dict(env)
                e1 = dict(env)
                rets.append(self.block(s.body, e1))
                changed = self.join(env, before, e1, s.lineno)
                if not changed:
                    break
            else:
                raise Unsupported(f"line {s.lineno}: loop bindings do not stabilise")
            return rets
        raise Unsupported(f"line {s.lineno}: statement {type(s).__name__}")

    def join(self, env, e1, e2, lineno) -> bool:
        """env := join(e1, e2); True when a phi was needed for a name that was bound in `env` before to something else"""
        changed = False
        for k in sorted(set(e1) | set(e2)):
            a, b = e1.get(k, "unbound"), e2.get(k, "unbound")
            if a == "unbound" or b == "unbound":
                v = b if a == "unbound" else a       # bound on one path only: usable only on that path; keep it
                if env.get(k, "unbound") != v:
                    env[k] = v
                continue
            if a == b:
                env[k] = a
                continue
            if a is None or b is None:
                raise Unsupported(f"line {lineno}: {k} is an array on one path and a scalar on the other")
            d = self.new()
            self.emit(f".phi {d} {a} {b}")
            env[k] = d
            changed = True
        return changed


def kernel_ops(fns: Dict[str, ast.FunctionDef], name: str) -> Tuple[int, List[str], List[str]]:
    fn = fns[name]
    it = Interp(fns)
    params = [a.arg for a in fn.args.args]
    env: Dict[str, Optional[int]] = {}
    arrs = [p for p in params if p in ARRAY_PARAMS]
    for p in arrs:
        env[p] = it.new()
    for p in params:
        if p not in ARRAY_PARAMS:
            env[p] = None
    for a in fn.args.kwonlyargs:
        env[a.arg] = None
    it.block(fn.body, env)
    return len(arrs), it.ops, arrs


def generate(repo: str):
    path = os.path.join(repo, SOURCES[0])
    fns = parse_functions(path)
    out = (f"/-\n  GENERATED by /verif/vk/regions/kernel_heap.py from {SOURCES[0]} (sha256 {sha_of(path)}).\n"
           "  Buffer operations (allocate / view / rebind / write) of the NumPy fallback kernels, callees inlined; the first `k` variables are the\n"
           "  kernel's array parameters = the caller's buffers.  Semantics: Model/KHeap.lean.  Do not edit: regenerated on every check run.\n-/\n"
           "import SpecKitV.Model.KHeap\n\nnamespace Gen\nopen Model Model.KHeap\n\n")
    errors: List[str] = []
    names = []
    for name in KERNELS:
        try:
            if name not in fns:
                raise Unsupported("function not found")
            for dep in INLINE:
                if dep not in fns:
                    raise Unsupported(f"{dep} not found")
            k, ops, arrs = kernel_ops(fns, name)
            body = ",\n   ".join(ops)
            out += (f"/-- core.py:{fns[name].lineno}-{fns[name].end_lineno} `{name}`; caller buffers: {', '.join(f'{i}={a}' for i, a in enumerate(arrs))} -/\n"
                    f"def kheap{name} : Nat × List KOp := ({k},\n  [{body}])\n\n")
            names.append(name)
        except Unsupported as ex:
            errors.append(f"{name}: {ex}")
            msg = str(ex).replace("-/", "- /")
            out += f"/- UNSUPPORTED {name}: {msg} -/\ndef kheap{name} : Nat × List KOp := translation_failed_{name}\n\n"
    out += "def kheapAll : List (Nat × List KOp) := [" + ", ".join(f"kheap{n}" for n in KERNELS) + "]\n\nend Gen\n"
    return out, errors
