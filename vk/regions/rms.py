"""Region `Rms`: dsp.crop_data, dsp.integral_rms, dsp.polynomial_detrend and SpectrumResult.get_rms, translated from the
current source into lean/SpecKitV/Gen/Rms.lean (namespace Gen).

What the emitter does (everything is derived from the AST of the current source; anything without a rule raises
`vk.translate.Unsupported` and the function becomes a stub that fails to build):

  * Functions that can `raise` return `Option …`: `raise` is `none`, `return e` is `some e`; a call of another translated
    function is bound with `match … with | none => none | some r => …` (exceptions propagate, as in Python).
  * NumPy whole-array expressions are translated at array level, one (eagerly evaluated, `Arr.memo`) temporary `t__k` per NumPy
    operation: `a >= s`, `a <= s`, `m1 & m2`, `a ** 2` (NumPy computes `x*x`), `a - b`, `a - s`, …; boolean-mask selection
    `a[mask]`, `np.min/np.max/np.mean`, `cumulative_trapezoid(y, x, initial=0)`, `np.polyval`, `np.arange(n)`, Python
    `max(a, b)`/`min(a, b)`, negative indices `a[-1]` are the contracts of lean/SpecKitV/Np/Rms.lean (+ `Arr.mean`, `Np.pyIndex` of Num.lean);
    `np.polyfit` is a PARAMETER of the generated `polynomial_detrend` (Option-valued: it may raise, e.g. LinAlgError).
  * Scalars that may be infinite (band edges, `xmin`/`xmax`; the literals `np.inf`, `-np.inf`) have the type `Np.Rms.XR α`;
    finite values met in a comparison / `max` / `min` with them are injected with `XR.fin`.
  * `if NAME is None: A else: B` on an optional parameter is a `match`.
  * An `if` that is not an early return exports the names it assigns (defined before it, or assigned in both branches) as an
    `Option` tuple, so that a `raise` inside a branch propagates.

Statements that do not affect the value and are DROPPED (each recognised syntactically, nothing else is skipped):
  docstrings and `pass`; `NAME = np.asarray(NAME)` of an array parameter; `logger.<level>(…)` calls; the exception type and message of
  a `raise` (only the fact that the call raises is kept, `none`); `try: BODY except …: raise …` is BODY (every exception is `none`
  either way); `float(v)` of a float.  `self.f`, `self.asd`, `self.iscsd` of `get_rms` become parameters.
"""
from __future__ import annotations

import ast
import copy
import os
from typing import Dict, List, Optional, Tuple

from vk.translate import FnTranslator, FnInfo, Env, Val, Unsupported, HEADER, sha_of, parse_functions

REGION = "Rms"
SOURCES = ["speckit/dsp.py", "speckit/analysis.py"]

XR = "Np.Rms.XR"
BASE_TY = {"R": "α", "N": "Nat", "Z": "Int", "B": "Bool", "A": "Arr α", "AB": "Arr Bool", "AZ": "Arr Int",
           "X": f"{XR} α", "OXX": f"Option ({XR} α × {XR} α)", "PF": "Arr Int → Arr α → Int → Option (Arr α)"}
ARRAY_KINDS = ("A", "AB", "AZ")
ELEM = {"A": "R", "AB": "B", "AZ": "Z"}
VEC = {"R": "A", "B": "AB", "Z": "AZ", "N": "AZ"}


def lean_type(kind: str) -> str:
    if kind.startswith("T:"):
        parts = kind[2:].split(",")
        return " × ".join(("(" + lean_type(k) + ")") if " " in lean_type(k) else lean_type(k) for k in parts)
    if kind not in BASE_TY:
        raise Unsupported(f"no Lean type for a value of kind {kind}")
    return BASE_TY[kind]


def paren_type(kind: str) -> str:
    t = lean_type(kind)
    return f"({t})" if " " in t else t


class RmsTranslator(FnTranslator):
    """one Python function of the region -> one Lean definition returning `Option <ret>`"""

    def __init__(self, fn: ast.FunctionDef, sig: Dict[str, str], params: List[Tuple[str, str]], ret_kind: str,
                 known: Dict[str, FnInfo], lean_name: str):
        super().__init__(fn, sig, known, lean_name)
        self.params = params
        self.declared_ret = ret_kind
        self.pre: List[str] = []          # `let t__k := …` lines of the NumPy temporaries of the statement being translated
        self.ntmp = 0
        self.nfin = 0
        self.fin_table: Dict[str, Tuple[Env, List[str]]] = {}

    # ------------------------------------------------------------------ helpers
    def fresh(self, stem: str) -> str:
        self.ntmp += 1
        return f"{stem}__{self.ntmp}"

    def temp_array(self, length: str, body: str, kind: str) -> Val:
        """a NumPy operation creates a new array: bind it once (eager evaluation)"""
        name = self.fresh("t")
        self.pre.append(f"let {name} : {lean_type(kind)} := Arr.memo ⟨{length}, fun i_ => {body}⟩")
        return Val(name, kind)

    def to_x(self, v: Val, lineno: int = 0) -> Val:
        if v.kind == "X":
            return v
        if v.kind in ("R", "N", "Z"):
            return Val(f"({XR}.fin {self.to_real(v).code})", "X")
        raise Unsupported(f"line {lineno}: a value of kind {v.kind} where a (possibly infinite) float is expected")

    def flush(self, ind: str) -> str:
        out = "".join(f"{ind}{l}\n" for l in self.pre)
        self.pre = []
        return out

    def is_np(self, f: ast.AST, name: str) -> bool:
        return isinstance(f, ast.Attribute) and isinstance(f.value, ast.Name) and f.value.id == "np" and f.attr == name

    def scalar_cmp(self, op: ast.cmpop, a: Val, b: Val, lineno: int) -> str:
        """comparison of two scalars (R/N/Z/X) -> Bool code"""
        if a.kind == "X" or b.kind == "X":
            f = {ast.Lt: "lt", ast.LtE: "le", ast.Gt: "gt", ast.GtE: "ge"}.get(type(op))
            if f is None:
                raise Unsupported(f"line {lineno}: comparison {type(op).__name__} with a possibly infinite float")
            return f"({XR}.{f} {self.to_x(a, lineno).code} {self.to_x(b, lineno).code})"
        if a.kind == "R" or b.kind == "R":
            f = {ast.Lt: "RealLike.lt", ast.LtE: "RealLike.le", ast.Gt: "RealLike.gt", ast.GtE: "RealLike.ge",
                 ast.Eq: "RealLike.beq", ast.NotEq: "RealLike.bne"}.get(type(op))
            if f is None:
                raise Unsupported(f"line {lineno}: comparison {type(op).__name__}")
            return f"({f} {self.to_real(a).code} {self.to_real(b).code})"
        sym = {ast.Lt: "<", ast.LtE: "≤", ast.Gt: ">", ast.GtE: "≥", ast.Eq: "=", ast.NotEq: "≠"}.get(type(op))
        if sym is None or a.kind not in ("N", "Z") or b.kind not in ("N", "Z"):
            raise Unsupported(f"line {lineno}: comparison {type(op).__name__} of kinds {a.kind},{b.kind}")
        if a.kind == "N" and b.kind == "N":
            return f"(decide ({a.code} {sym} {b.code}))"
        return f"(decide (({a.code} : Int) {sym} ({b.code} : Int)))"

    # ------------------------------------------------------------------ expressions
    def expr(self, e: ast.AST, env: Env) -> Val:
        if self.is_np(e, "inf"):
            return Val(f"({XR}.pinf : {XR} α)", "X")
        if isinstance(e, ast.UnaryOp) and isinstance(e.op, ast.USub):
            v = self.expr(e.operand, env)
            if v.kind == "X":
                return Val(f"({XR}.neg {v.code})", "X")
            if v.kind == "R":
                return Val(f"(-{v.code})", "R")
            if v.kind in ("N", "Z"):
                return Val(f"(-({v.code} : Int))", "Z")
            raise Unsupported(f"line {e.lineno}: unary minus on {v.kind}")
        if isinstance(e, (ast.Tuple, ast.List)) and e.elts:
            vals = [self.expr(x, env) for x in e.elts]
            return Val("(" + ", ".join(v.code for v in vals) + ")", "T:" + ",".join(v.kind for v in vals))
        if isinstance(e, ast.Compare):
            return self.compare(e, env)
        if isinstance(e, ast.BinOp):
            return self.binop(e, env)
        if isinstance(e, ast.Subscript):
            return self.subscript(e, env)
        if isinstance(e, ast.Call):
            return self.call(e, env)
        if isinstance(e, ast.IfExp):
            raise Unsupported(f"line {e.lineno}: conditional expression")
        return super().expr(e, env)

    def compare(self, e: ast.Compare, env: Env) -> Val:
        if len(e.ops) != 1:
            raise Unsupported(f"line {e.lineno}: chained comparison")
        op = e.ops[0]
        if isinstance(op, (ast.Is, ast.IsNot, ast.In, ast.NotIn)):
            raise Unsupported(f"line {e.lineno}: `{type(op).__name__}` outside the test of an if statement")
        a, b = self.expr(e.left, env), self.expr(e.comparators[0], env)
        if a.kind in ARRAY_KINDS or b.kind in ARRAY_KINDS:
            # NumPy elementwise comparison (a scalar operand is broadcast): a new boolean array
            if "AB" in (a.kind, b.kind):
                raise Unsupported(f"line {e.lineno}: comparison of boolean arrays")
            ln = f"{a.code}.n" if a.kind in ARRAY_KINDS else f"{b.code}.n"
            ea = Val(f"({a.code}.get i_)", ELEM[a.kind]) if a.kind in ARRAY_KINDS else a
            eb = Val(f"({b.code}.get i_)", ELEM[b.kind]) if b.kind in ARRAY_KINDS else b
            return self.temp_array(ln, self.scalar_cmp(op, ea, eb, e.lineno), "AB")
        if a.kind in ("R", "N", "Z", "X") and b.kind in ("R", "N", "Z", "X"):
            return Val(self.scalar_cmp(op, a, b, e.lineno), "B")
        raise Unsupported(f"line {e.lineno}: comparison of kinds {a.kind},{b.kind}")

    def binop(self, e: ast.BinOp, env: Env) -> Val:
        op = e.op
        if isinstance(op, (ast.BitAnd, ast.BitOr)):
            a, b = self.expr(e.left, env), self.expr(e.right, env)
            sym = "&&" if isinstance(op, ast.BitAnd) else "||"
            if a.kind == "AB" and b.kind == "AB":      # elementwise and/or of two boolean arrays
                return self.temp_array(f"{a.code}.n", f"({a.code}.get i_ {sym} {b.code}.get i_)", "AB")
            if a.kind == "B" and b.kind == "B":
                return Val(f"({a.code} {sym} {b.code})", "B")
            raise Unsupported(f"line {e.lineno}: `{'&' if sym == '&&' else '|'}` on kinds {a.kind},{b.kind}")
        a, b = self.expr(e.left, env), self.expr(e.right, env)
        if a.kind == "X" or b.kind == "X":
            raise Unsupported(f"line {e.lineno}: arithmetic on a possibly infinite float")
        if a.kind in ("A", "AZ") or b.kind in ("A", "AZ"):
            if isinstance(op, ast.Pow):
                if (a.kind == "A" and isinstance(e.right, ast.Constant) and type(e.right.value) is int and e.right.value == 2):
                    return self.temp_array(f"{a.code}.n", f"({a.code}.get i_ * {a.code}.get i_)", "A")   # NumPy: x ** 2 is x * x
                raise Unsupported(f"line {e.lineno}: array power other than `a ** 2`")
            sym = {ast.Add: "+", ast.Sub: "-", ast.Mult: "*", ast.Div: "/"}.get(type(op))
            if sym is None:
                raise Unsupported(f"line {e.lineno}: array operator {type(op).__name__}")

            def elem(v: Val) -> str:
                if v.kind == "A":
                    return f"{v.code}.get i_"
                if v.kind == "AZ":
                    return f"(RealLike.ofInt ({v.code}.get i_))"
                if v.kind in ("R", "N", "Z"):
                    c = self.fresh("c")                    # the scalar operand is evaluated once, then broadcast
                    self.pre.append(f"let {c} : α := {self.to_real(v).code}")
                    return c
                raise Unsupported(f"line {e.lineno}: array arithmetic with a value of kind {v.kind}")
            ln = f"{a.code}.n" if a.kind in ("A", "AZ") else f"{b.code}.n"
            ea, eb = elem(a), elem(b)
            return self.temp_array(ln, f"({ea} {sym} {eb})", "A")
        if a.kind in ARRAY_KINDS or b.kind in ARRAY_KINDS:
            raise Unsupported(f"line {e.lineno}: arithmetic on a boolean array")
        if isinstance(op, ast.Sub) and a.kind == "N" and b.kind == "N":
            return Val(f"(({a.code} : Int) - ({b.code} : Int))", "Z")      # Python ints: the difference may be negative
        if not all(v.kind in ("R", "N", "Z") for v in (a, b)):
            raise Unsupported(f"line {e.lineno}: arithmetic on kinds {a.kind},{b.kind}")
        # scalar arithmetic: rules of the base translator, on the already translated operands
        sym = {ast.Add: "+", ast.Sub: "-", ast.Mult: "*", ast.Div: "/"}.get(type(op))
        if isinstance(op, ast.Pow) and isinstance(e.right, ast.Constant) and type(e.right.value) is int and e.right.value == 2:
            a = self.to_real(a)
            return Val(f"({a.code} * {a.code})", "R")
        if isinstance(op, ast.Pow):
            return Val(f"(RealLike.pow {self.to_real(a).code} {self.to_real(b).code})", "R")
        if isinstance(op, ast.FloorDiv) and a.kind in ("N", "Z") and b.kind in ("N", "Z"):
            return Val(f"(Int.fdiv ({a.code} : Int) ({b.code} : Int))", "Z")
        if sym is None:
            raise Unsupported(f"line {e.lineno}: operator {type(op).__name__}")
        if a.kind == "R" or b.kind == "R" or isinstance(op, ast.Div):
            return Val(f"({self.to_real(a).code} {sym} {self.to_real(b).code})", "R")
        if a.kind == "N" and b.kind == "N":
            return Val(f"({a.code} {sym} {b.code})", "N")
        return Val(f"(({a.code} : Int) {sym} ({b.code} : Int))", "Z")

    def subscript(self, e: ast.Subscript, env: Env) -> Val:
        base = self.expr(e.value, env)
        if base.kind.startswith("T:"):
            kinds = base.kind[2:].split(",")
            idx = e.slice
            if isinstance(idx, ast.UnaryOp) and isinstance(idx.op, ast.USub) and isinstance(idx.operand, ast.Constant) and type(idx.operand.value) is int:
                k = len(kinds) - idx.operand.value
            elif isinstance(idx, ast.Constant) and type(idx.value) is int:
                k = idx.value
            else:
                raise Unsupported(f"line {e.lineno}: non-constant index into a pair")
            if not 0 <= k < len(kinds):
                raise Unsupported(f"line {e.lineno}: index {ast.unparse(idx)} outside a sequence of length {len(kinds)} (IndexError)")
            proj = "".join(".2" for _ in range(k)) + (".1" if k < len(kinds) - 1 else "")
            return Val(f"{base.code}{proj}", kinds[k])
        if base.kind in ("A", "AZ"):
            idx = self.expr(e.slice, env)
            if idx.kind == "AB":
                if base.kind != "A":
                    raise Unsupported(f"line {e.lineno}: boolean-mask selection from a non-float array")
                return Val(f"(Np.Rms.compress {idx.code} {base.code})", "A")     # a[mask]
            if idx.kind == "Z":
                return Val(f"({base.code}.get (Np.pyIndex {base.code}.n {idx.code}))", ELEM[base.kind])   # a negative index counts from the end
            if idx.kind == "N":
                return Val(f"({base.code}.get {idx.code})", ELEM[base.kind])
            raise Unsupported(f"line {e.lineno}: index of kind {idx.kind}")
        raise Unsupported(f"line {e.lineno}: subscript of a value of kind {base.kind}")

    def attribute(self, e: ast.Attribute, env: Env) -> Val:
        if isinstance(e.value, ast.Name) and e.value.id == "self":
            if f"self.{e.attr}" in self.sig:
                return Val(e.attr, self.sig[f"self.{e.attr}"])
            raise Unsupported(f"line {e.lineno}: attribute self.{e.attr} is not a parameter of the translated method")
        if e.attr == "size":
            b = self.expr(e.value, env)
            if b.kind in ARRAY_KINDS:
                return Val(f"{b.code}.n", "N")
        if isinstance(e.value, ast.Name) and e.value.id in ("np", "math") and e.attr == "pi":
            return Val("RealLike.pi", "R")
        raise Unsupported(f"line {e.lineno}: attribute .{e.attr}")

    def call(self, e: ast.Call, env: Env) -> Val:
        f = e.func
        fu = ast.unparse(f)
        kws = {k.arg: k.value for k in e.keywords}
        nargs = len(e.args)

        def no_kw():
            if e.keywords:
                raise Unsupported(f"line {e.lineno}: keyword arguments of {fu}")
        if fu in ("np.min", "np.max", "np.mean") and nargs == 1:
            no_kw()
            v = self.expr(e.args[0], env)
            if v.kind != "A":
                raise Unsupported(f"line {e.lineno}: {fu} of a value of kind {v.kind}")
            return Val({"np.min": f"(Np.Rms.npMin {v.code})", "np.max": f"(Np.Rms.npMax {v.code})", "np.mean": f"(Arr.mean {v.code})"}[fu], "R")
        if fu in ("max", "min") and nargs == 2:
            no_kw()
            a, b = self.expr(e.args[0], env), self.expr(e.args[1], env)
            fn = "pyMax" if fu == "max" else "pyMin"
            if a.kind == "X" or b.kind == "X":
                return Val(f"({XR}.{fn} {self.to_x(a, e.lineno).code} {self.to_x(b, e.lineno).code})", "X")
            if a.kind == "R" or b.kind == "R":
                return Val(f"(Np.Rms.{fn} {self.to_real(a).code} {self.to_real(b).code})", "R")
            if a.kind in ("N", "Z") and b.kind in ("N", "Z"):
                cmp_ = ">" if fu == "max" else "<"
                return Val(f"(if ({b.code} : Int) {cmp_} ({a.code} : Int) then ({b.code} : Int) else ({a.code} : Int))", "Z")
            raise Unsupported(f"line {e.lineno}: {fu} of kinds {a.kind},{b.kind}")
        if fu == "np.isfinite" and nargs == 1:
            no_kw()
            v = self.expr(e.args[0], env)
            if v.kind != "X":
                raise Unsupported(f"line {e.lineno}: np.isfinite of a value of kind {v.kind}")
            return Val(f"({XR}.isFinite {v.code})", "B")
        if fu == "float" and nargs == 1:
            no_kw()
            v = self.expr(e.args[0], env)
            if v.kind == "X":
                return v
            return self.to_real(v)
        if fu == "len" and nargs == 1:
            no_kw()
            v = self.expr(e.args[0], env)
            if v.kind in ARRAY_KINDS:
                return Val(f"{v.code}.n", "N")
            if v.kind.startswith("T:"):
                return Val(str(len(v.kind[2:].split(","))), "N")
            raise Unsupported(f"line {e.lineno}: len of a value of kind {v.kind}")
        if fu == "np.arange" and nargs == 1:
            no_kw()
            n = self.expr(e.args[0], env)
            if n.kind == "Z":
                n = Val(f"(Int.toNat {n.code})", "N")
            if n.kind != "N":
                raise Unsupported(f"line {e.lineno}: np.arange bound of kind {n.kind}")
            return self.temp_array(n.code, "((i_ : Nat) : Int)", "AZ")
        if fu == "np.polyfit":
            raise Unsupported(f"line {e.lineno}: call of np.polyfit in a position where its exceptions cannot be propagated")
        if fu == "np.polyval" and nargs == 2:
            no_kw()
            c, t = self.expr(e.args[0], env), self.expr(e.args[1], env)
            if c.kind != "A" or t.kind != "AZ":
                raise Unsupported(f"line {e.lineno}: np.polyval argument kinds {c.kind},{t.kind}")
            return Val(f"(Np.Rms.polyval {c.code} {t.code})", "A")
        if fu == "cumulative_trapezoid":
            if nargs != 2 or set(kws) != {"initial"}:
                raise Unsupported(f"line {e.lineno}: cumulative_trapezoid form (expected cumulative_trapezoid(y, x, initial=…))")
            y, x, c = self.expr(e.args[0], env), self.expr(e.args[1], env), self.expr(kws["initial"], env)
            if y.kind != "A" or x.kind != "A" or c.kind not in ("R", "N", "Z"):
                raise Unsupported(f"line {e.lineno}: cumulative_trapezoid argument kinds {y.kind},{x.kind},{c.kind}")
            return Val(f"(Np.Rms.cumtrapz {y.code} {x.code} {self.to_real(c).code})", "A")
        if isinstance(f, ast.Name) and f.id in self.known:
            raise Unsupported(f"line {e.lineno}: call of {f.id} in a position where its exceptions cannot be propagated")
        if fu in ("np.sqrt", "np.abs", "np.exp", "np.log", "np.log10", "np.sin", "np.cos", "math.sqrt", "abs") and nargs == 1:
            no_kw()
            v = self.expr(e.args[0], env)
            if v.kind not in ("R", "N", "Z"):
                raise Unsupported(f"line {e.lineno}: {fu} of a value of kind {v.kind}")
            return Val(f"(RealLike.{fu.split('.')[-1]} {self.to_real(v).code})", "R")
        raise Unsupported(f"line {e.lineno}: call {fu}")

    # ------------------------------------------------------------------ hoisting of calls that may raise
    def hoist(self, e: ast.AST, env: Env, ind: str) -> Tuple[ast.AST, Env, str, int]:
        """replace every call of a translated (Option-returning) function inside `e` by a fresh name bound with a `match`;
        returns (rewritten expression, environment, opening code, number of matches opened)"""
        tr = self
        opened: List[str] = []
        env = env.copy()

        class H(ast.NodeTransformer):
            def __init__(self):
                self.guarded = 0

            def visit_BoolOp(self, n):
                self.guarded += 1
                r = self.generic_visit(n)
                self.guarded -= 1
                return r
            visit_IfExp = visit_BoolOp
            visit_Lambda = visit_BoolOp
            visit_ListComp = visit_BoolOp

            def visit_Call(self, n):
                self.generic_visit(n)
                if ast.unparse(n.func) == "np.polyfit":
                    # the external routine is the contract PARAMETER `polyfit`; it may raise (LinAlgError): `none`
                    if self.guarded:
                        raise Unsupported(f"line {n.lineno}: call of np.polyfit under a short-circuit operator")
                    if tr.sig.get("polyfit") != "PF":
                        raise Unsupported(f"line {n.lineno}: np.polyfit is not a parameter of this function")
                    kws = {k.arg: k.value for k in n.keywords}
                    if len(n.args) != 2 or set(kws) != {"deg"}:
                        raise Unsupported(f"line {n.lineno}: np.polyfit form (expected np.polyfit(t, x, deg=…))")
                    t, x, d = tr.expr(n.args[0], env), tr.expr(n.args[1], env), tr.expr(kws["deg"], env)
                    if t.kind != "AZ" or x.kind != "A" or d.kind not in ("N", "Z"):
                        raise Unsupported(f"line {n.lineno}: np.polyfit argument kinds {t.kind},{x.kind},{d.kind}")
                    name = tr.fresh("call")
                    opened.append(tr.flush(ind) + f"{ind}match (polyfit {t.code} {x.code} ({d.code} : Int)) with\n{ind}| none => none\n{ind}| some {name} =>\n")
                    env.kinds[name] = "A"
                    return ast.copy_location(ast.Name(id=name, ctx=ast.Load()), n)
                if isinstance(n.func, ast.Name) and n.func.id in tr.known:
                    if self.guarded:
                        raise Unsupported(f"line {n.lineno}: call of {n.func.id} under a short-circuit operator")
                    info = tr.known[n.func.id]
                    if n.keywords or len(n.args) != len(info.param_kinds):
                        raise Unsupported(f"line {n.lineno}: call of {n.func.id} must pass its {len(info.param_kinds)} arguments positionally")
                    codes = []
                    for a, k in zip(n.args, info.param_kinds):
                        v = tr.expr(a, env)
                        codes.append(tr.coerce_to(v, k, n.lineno).code)
                    name = tr.fresh("call")
                    opened.append(tr.flush(ind) + f"{ind}match ({info.lean_name} " + " ".join(codes) + f") with\n{ind}| none => none\n{ind}| some {name} =>\n")
                    env.kinds[name] = info.ret_kind
                    return ast.copy_location(ast.Name(id=name, ctx=ast.Load()), n)
                return n
        new = H().visit(copy.deepcopy(e))
        return new, env, "".join(opened), len(opened)

    def coerce_to(self, v: Val, kind: str, lineno: int) -> Val:
        if v.kind == kind:
            return v
        if kind == "R" and v.kind in ("N", "Z"):
            return self.to_real(v)
        if kind == "X" and v.kind in ("R", "N", "Z"):
            return self.to_x(v, lineno)
        if kind == "Z" and v.kind == "N":
            return Val(f"(({v.code} : Nat) : Int)", "Z")
        if kind == "OXX" and v.kind == "NONE":
            return Val(f"(none : {lean_type('OXX')})", "OXX")
        if kind == "OXX" and v.kind.startswith("T:") and len(v.kind[2:].split(",")) == 2:
            parts = v.kind[2:].split(",")
            if all(p in ("X", "R", "N", "Z") for p in parts):
                if parts == ["X", "X"]:
                    return Val(f"(some {v.code})", "OXX")
                a = self.to_x(Val(f"{v.code}.1", parts[0]), lineno)
                b = self.to_x(Val(f"{v.code}.2", parts[1]), lineno)
                return Val(f"(some ({a.code}, {b.code}))", "OXX")
        raise Unsupported(f"line {lineno}: a value of kind {v.kind} where {kind} is required")

    # ------------------------------------------------------------------ statements
    def block(self, stmts: List[ast.stmt], env: Env, ind: str, final) -> str:
        """code of type `Option _` for the statements followed by `final(env)` (None: the function must have returned)"""
        if not stmts:
            if final is None:
                raise Unsupported(f"{self.fn.name}: control reaches the end of the function without `return` (returns None)")
            return ind + final(env)
        s, rest = stmts[0], stmts[1:]
        if isinstance(s, ast.Expr) and isinstance(s.value, ast.Constant) and isinstance(s.value.value, str):
            return self.block(rest, env, ind, final)                      # docstring
        if isinstance(s, ast.Pass):
            return self.block(rest, env, ind, final)
        if (isinstance(s, ast.Expr) and isinstance(s.value, ast.Call) and isinstance(s.value.func, ast.Attribute)
                and isinstance(s.value.func.value, ast.Name) and s.value.func.value.id == "logger"
                and s.value.func.attr in ("debug", "info", "warning", "error", "critical")):
            return self.block(rest, env, ind, final)                      # logging
        if isinstance(s, ast.Raise):
            if rest:
                raise Unsupported(f"line {s.lineno}: code after raise")
            return ind + "none"
        if isinstance(s, ast.Return):
            if rest:
                raise Unsupported(f"line {s.lineno}: code after return")
            if final is not None:
                raise Unsupported(f"line {s.lineno}: `return` inside a branch whose continuation is outside it")
            if s.value is None:
                raise Unsupported(f"line {s.lineno}: bare return")
            val, env2, opening, _ = self.hoist(s.value, env, ind)
            v = self.coerce_to(self.expr(val, env2), self.declared_ret, s.lineno)
            return opening + self.flush(ind) + ind + f"some {v.code}"
        if isinstance(s, ast.Try):
            if s.orelse or s.finalbody or not s.handlers or not all(h.body and isinstance(h.body[-1], ast.Raise) and
                                                                     all(isinstance(b, (ast.Raise, ast.Expr)) for b in h.body) for h in s.handlers):
                raise Unsupported(f"line {s.lineno}: try statement other than `try: … except …: raise …`")
            return self.block(list(s.body) + list(rest), env, ind, final)   # any exception in the body is `none` with or without the handler
        if isinstance(s, ast.AugAssign) and isinstance(s.target, ast.Name):
            fake = ast.Assign(targets=[s.target], value=ast.BinOp(left=ast.Name(id=s.target.id, ctx=ast.Load()), op=s.op, right=s.value), lineno=s.lineno)
            ast.fix_missing_locations(fake)
            return self.block([fake] + list(rest), env, ind, final)
        if isinstance(s, ast.Assign):
            return self.assign(s, rest, env, ind, final)
        if isinstance(s, ast.If):
            return self.if_stmt(s, rest, env, ind, final)
        raise Unsupported(f"line {s.lineno}: statement {type(s).__name__}")

    def bind(self, name: str, v: Val, env: Env, ind: str, lineno: int) -> str:
        declared = self.sig.get(name)
        if declared is not None and declared != v.kind and not v.kind.startswith("T:"):
            v = self.coerce_to(v, declared, lineno)
        if v.kind == "NONE":
            env.kinds[name] = "NONE"          # `NAME = None`: no Lean value yet; it becomes `none` where an optional value is required
            return ""
        if v.kind in ("SHAPE", "EMPTYLIST"):
            raise Unsupported(f"line {lineno}: assignment of a value of kind {v.kind} to {name}")
        env.kinds[name] = v.kind
        return f"{ind}let {name} : {lean_type(v.kind)} := {v.code}\n"

    def assign(self, s: ast.Assign, rest, env: Env, ind: str, final) -> str:
        if len(s.targets) != 1:
            raise Unsupported(f"line {s.lineno}: chained assignment")
        tgt = s.targets[0]
        # NAME = np.asarray(NAME) of an array: the same value
        if (isinstance(tgt, ast.Name) and isinstance(s.value, ast.Call) and ast.unparse(s.value.func) == "np.asarray"
                and len(s.value.args) == 1 and not s.value.keywords and isinstance(s.value.args[0], ast.Name)
                and s.value.args[0].id == tgt.id and env.kinds.get(tgt.id) in ("A", "AZ")):
            return self.block(rest, env, ind, final)
        val, env, opening, _ = self.hoist(s.value, env, ind)
        env = env.copy()
        if isinstance(tgt, ast.Name):
            v = self.expr(val, env)
            code = self.flush(ind) + self.bind(tgt.id, v, env, ind, s.lineno)
            return opening + code + self.block(rest, env, ind, final)
        if isinstance(tgt, ast.Tuple) and all(isinstance(t, ast.Name) for t in tgt.elts):
            names = [t.id for t in tgt.elts]
            if len(set(names)) != len(names):
                raise Unsupported(f"line {s.lineno}: repeated target in a tuple assignment")
            v = self.expr(val, env)
            if not v.kind.startswith("T:") or len(v.kind[2:].split(",")) != len(names):
                raise Unsupported(f"line {s.lineno}: unpacking a value of kind {v.kind} into {len(names)} names")
            kinds = v.kind[2:].split(",")
            # simultaneous assignment: the right-hand side is evaluated completely before any target is bound
            tmp = self.fresh("tup")
            code = self.flush(ind) + f"{ind}let {tmp} : {lean_type(v.kind)} := {v.code}\n"
            for k, (n, kd) in enumerate(zip(names, kinds)):
                proj = tmp + "".join(".2" for _ in range(k)) + (".1" if k < len(names) - 1 else "")
                code += self.bind(n, Val(proj, kd), env, ind, s.lineno)
            return opening + code + self.block(rest, env, ind, final)
        raise Unsupported(f"line {s.lineno}: assignment target {type(tgt).__name__}")

    @staticmethod
    def ends(stmts: List[ast.stmt]) -> bool:
        return bool(stmts) and isinstance(stmts[-1], (ast.Return, ast.Raise))

    def none_test(self, test: ast.AST, env: Env) -> Optional[Tuple[str, bool]]:
        """`NAME is None` / `NAME is not None` on an optional value -> (NAME, is_none)"""
        if (isinstance(test, ast.Compare) and len(test.ops) == 1 and isinstance(test.ops[0], (ast.Is, ast.IsNot))
                and isinstance(test.left, ast.Name) and isinstance(test.comparators[0], ast.Constant) and test.comparators[0].value is None):
            if env.kinds.get(test.left.id) != "OXX":
                raise Unsupported(f"line {test.lineno}: `is None` test of {test.left.id}, which is not an optional parameter")
            return test.left.id, isinstance(test.ops[0], ast.Is)
        return None

    def export_fin(self, names: List[str], lineno: int):
        """a branch end that exports `names`; the value is filled in once the kinds of all branches are known"""
        self.nfin += 1
        group = self.nfin
        ends: List[Tuple[str, Env]] = []

        def fin(e2: Env) -> str:
            key = f"⟪FIN{group}_{len(ends)}⟫"
            ends.append((key, e2))
            return key

        def resolve(code: str) -> Tuple[str, Dict[str, str]]:
            kinds: Dict[str, str] = {}
            for n in names:
                ks = []
                for _, e2 in ends:
                    if n not in e2.kinds:
                        raise Unsupported(f"line {lineno}: {n} is not defined at the end of every branch")
                    ks.append(e2.kinds[n])
                u = ks[0]
                for k in ks[1:]:
                    u = self.unify(u, k, n, lineno)
                kinds[n] = u
            for key, e2 in ends:
                vals = [self.coerce_to(Val(n, e2.kinds[n]), kinds[n], lineno).code for n in names]
                tup = "(" + ", ".join(vals) + ")" if len(vals) != 1 else vals[0]
                code = code.replace(key, f"some {tup}")
            return code, kinds
        return fin, resolve, ends

    def unify(self, a: str, b: str, name: str, lineno: int) -> str:
        if a == b:
            return a
        if {a, b} <= {"N", "Z"}:
            return "Z"
        if {a, b} <= {"N", "Z", "R"}:
            return "R"
        if {a, b} <= {"N", "Z", "R", "X"}:
            return "X"
        for x, y in ((a, b), (b, a)):
            if x in ("NONE", "OXX") and (y == "OXX" or (y.startswith("T:") and len(y[2:].split(",")) == 2 and
                                                       all(p in ("X", "R", "N", "Z") for p in y[2:].split(",")))):
                return "OXX"
        raise Unsupported(f"line {lineno}: {name} has kinds {a} and {b} in different branches")

    def if_stmt(self, s: ast.If, rest, env: Env, ind: str, final) -> str:
        nt = self.none_test(s.test, env)
        cond_pre = ""
        if nt is None:
            c = self.expr(s.test, env)
            if c.kind != "B":
                raise Unsupported(f"line {s.lineno}: if condition of kind {c.kind}")
            cond_pre = self.flush(ind)

        def two_way(then_code: str, else_code: str, i2: str) -> str:
            if nt is None:
                return f"{i2}if {c.code} then\n{then_code}\n{i2}else\n{else_code}"
            name, is_none = nt
            none_code, some_code = (then_code, else_code) if is_none else (else_code, then_code)
            return f"{i2}match {name} with\n{i2}| none =>\n{none_code}\n{i2}| some {name} =>\n{some_code}"

        def branch_env(is_then: bool) -> Env:
            e2 = env.copy()
            if nt is not None and (nt[1] != is_then):       # the branch in which NAME is not None: NAME denotes the pair itself
                e2.kinds[nt[0]] = "T:X,X"
            return e2
        # early exit: `if c: …; return/raise` (no else): the rest of the block is the else branch
        if self.ends(s.body) and not s.orelse:
            then_code = self.block(s.body, branch_env(True), ind + "  ", None)
            else_code = self.block(rest, branch_env(False), ind + "  ", final)
            return cond_pre + two_way(then_code, else_code, ind)
        if self.ends(s.body) and self.ends(s.orelse):
            if rest:
                raise Unsupported(f"line {s.lineno}: code after an if whose branches both return/raise")
            then_code = self.block(s.body, branch_env(True), ind + "  ", None)
            else_code = self.block(s.orelse, branch_env(False), ind + "  ", None)
            return cond_pre + two_way(then_code, else_code, ind)
        if not s.body and self.ends(s.orelse):
            raise Unsupported(f"line {s.lineno}: if statement shape")
        # general: both branches continue; export the names they (re)define
        a_then, a_else = self.assigned_names(s.body), self.assigned_names(s.orelse)
        names = [n for n in dict.fromkeys(a_then + a_else) if n in env.kinds or (n in a_then and n in a_else)]
        if nt is not None and nt[0] not in names and nt[0] in env.kinds:
            pass
        for st in ast.walk(ast.Module(body=list(s.body) + list(s.orelse), type_ignores=[])):
            if isinstance(st, ast.Return):
                raise Unsupported(f"line {st.lineno}: `return` inside a branch whose continuation is outside it")
        if not names:
            # a pure guard block (only raises): keep it, exporting nothing
            names = []
        fin, resolve, ends = self.export_fin(names, s.lineno)
        then_code = self.block(s.body, branch_env(True), ind + "    ", fin)
        else_code = self.block(s.orelse, branch_env(False), ind + "    ", fin) if s.orelse else (ind + "    " + fin(branch_env(False)))
        if not ends:
            raise Unsupported(f"line {s.lineno}: every branch of the if raises")
        if not names:
            code = two_way(then_code, else_code, ind + "  ")
            for key, _ in ends:
                code = code.replace(key, "some ()")
            out = cond_pre + f"{ind}match (\n{code}) with\n{ind}| none => none\n{ind}| some _ =>\n"
            return out + self.block(rest, env, ind, final)
        code, kinds = resolve(two_way(then_code, else_code, ind + "  "))
        br = self.fresh("br")
        out = cond_pre + f"{ind}match (\n{code}) with\n{ind}| none => none\n{ind}| some {br} =>\n"
        env = env.copy()
        for k, n in enumerate(names):
            proj = br + ("" if len(names) == 1 else "".join(".2" for _ in range(k)) + (".1" if k < len(names) - 1 else ""))
            out += f"{ind}let {n} : {lean_type(kinds[n])} := {proj}\n"
            env.kinds[n] = kinds[n]
        return out + self.block(rest, env, ind, final)

    # ------------------------------------------------------------------ whole function
    def translate(self) -> Tuple[str, FnInfo]:
        fn = self.fn
        env = Env()
        decl = []
        for name, kind in self.params:
            env.kinds[name] = kind
            decl.append(f"({name} : {lean_type(kind)})")
        clash = sorted(set(self.assigned_names(list(fn.body))) & ({n for n, _ in self.params} - {a.arg for a in fn.args.args}))
        if clash:
            raise Unsupported(f"{fn.name}: local variable(s) {clash} shadow a parameter introduced by the translation")
        code = self.block(list(fn.body), env, "  ", None)
        if "⟪FIN" in code:
            raise Unsupported(f"{fn.name}: unresolved branch end (translator bug)")
        src = f"/-- {os.path.basename(fn.__dict__.get('_file', ''))}:{fn.lineno}-{fn.end_lineno} `{fn.name}` -/\n"
        text = src + f"def {self.lean_name} " + " ".join(decl) + f" : Option {paren_type(self.declared_ret)} :=\n" + code + "\n"
        return text, FnInfo(self.lean_name, [k for _, k in self.params], self.declared_ret)


# ----------------------------------------------------------------------------------------------------------------------
# the region
# ----------------------------------------------------------------------------------------------------------------------
def check_params(fn: ast.FunctionDef, expected: List[str]) -> None:
    a = fn.args
    got = [x.arg for x in a.args]
    if got != expected or a.vararg or a.kwarg or a.kwonlyargs or a.posonlyargs:
        raise Unsupported(f"{fn.name}: parameters {got} (expected {expected})")


def find_method(path: str, cls: str, name: str) -> ast.FunctionDef:
    tree = ast.parse(open(path).read())
    for c in tree.body:
        if isinstance(c, ast.ClassDef) and c.name == cls:
            for m in c.body:
                if isinstance(m, ast.FunctionDef) and m.name == name:
                    m.__dict__["_file"] = path
                    return m
    raise Unsupported(f"{cls}.{name} not found")


DOC = """/-!
  Region `Rms` — dsp.crop_data, dsp.integral_rms, dsp.polynomial_detrend (speckit/dsp.py) and SpectrumResult.get_rms
  (speckit/analysis.py), translated by vk/regions/rms.py.  `none` = the Python call raises; `Np.Rms.XR α` = a float that may be ±inf.
  NumPy/SciPy/Python primitives are the contracts of SpecKitV/Np/Rms.lean; `np.polyfit` is the parameter `polyfit`.
  Dropped (value-irrelevant, each recognised syntactically): docstrings; `NAME = np.asarray(NAME)` of an array parameter;
  `logger.<level>(…)`; the type and message of a `raise`; the `try … except …: raise` wrapper around float(…) conversions;
  `float(v)` of a float.  `self.iscsd`, `self.f`, `self.asd` are parameters of `get_rms`.
-/

"""


def generate(repo: str) -> Tuple[str, List[str]]:
    p_dsp = os.path.join(repo, "speckit/dsp.py")
    p_an = os.path.join(repo, "speckit/analysis.py")
    out = HEADER.format(src="speckit/dsp.py, speckit/analysis.py", sha=f"{sha_of(p_dsp)}, {sha_of(p_an)}")
    out = out.replace("/verif/vk/translate.py", "/verif/vk/regions/rms.py (py2lean region plug-in)")
    out = out.replace("import SpecKitV.Num\n", "import SpecKitV.Num\nimport SpecKitV.Np.Rms\n")
    out += DOC
    errors: List[str] = []
    known: Dict[str, FnInfo] = {}
    fns = parse_functions(p_dsp)

    def one(name: str, get_fn, expected_params: List[str], sig: Dict[str, str], params: List[Tuple[str, str]], ret: str) -> None:
        nonlocal out
        try:
            fn = get_fn()
            check_params(fn, expected_params)
            tr = RmsTranslator(fn, sig, params, ret, known, name)
            text, info = tr.translate()
            out += text + "\n"
            known[name] = info
        except Unsupported as ex:
            errors.append(f"{name}: {ex}")
            msg = str(ex).replace("-/", "- /")
            out += f"/- UNSUPPORTED {name}: {msg} -/\ndef {name}_UNSUPPORTED : Nat := translation_failed_{name}\n\n"

    def dsp_fn(name: str):
        def get():
            if name not in fns:
                raise Unsupported(f"{name} not found in speckit/dsp.py")
            return fns[name]
        return get

    one("crop_data", dsp_fn("crop_data"), ["x", "y", "xmin", "xmax"],
        {"x": "A", "y": "A", "xmin": "X", "xmax": "X"},
        [("x", "A"), ("y", "A"), ("xmin", "X"), ("xmax", "X")], "T:A,A")
    one("integral_rms", dsp_fn("integral_rms"), ["fourier_freq", "asd", "pass_band"],
        {"fourier_freq": "A", "asd": "A", "pass_band": "OXX"},
        [("fourier_freq", "A"), ("asd", "A"), ("pass_band", "OXX")], "R")
    one("polynomial_detrend", dsp_fn("polynomial_detrend"), ["x", "order"],
        {"polyfit": "PF", "x": "A", "order": "Z"},
        [("polyfit", "PF"), ("x", "A"), ("order", "Z")], "A")
    one("get_rms", lambda: find_method(p_an, "SpectrumResult", "get_rms"), ["self", "pass_band"],
        {"self.iscsd": "B", "self.f": "A", "self.asd": "A", "pass_band": "OXX"},
        [("iscsd", "B"), ("f", "A"), ("asd", "A"), ("pass_band", "OXX")], "R")
    out += "end Gen\n"
    return out, errors
