"""Region FftNoise — speckit/noise.py: `fftnoise`, `band_limited_noise`, the filter DESIGN arithmetic of `alpha_noise.__init__`
and `white_noise.__init__`, translated to lean/SpecKitV/Gen/FftNoise.lean on every run.

The subset is "straight-line NumPy vector code": scalars (Python int -> Int, float -> α, complex -> Cx α, bool), 1-D vectors of
those (`Arr`), elementwise arithmetic / comparisons / ufuncs (one `NpFN.map` / `NpFN.zipWith` per NumPy temporary, in the source's
operand order), basic slices with Python's negative-index / negative-step conventions (`NpFN.pySlice`, exactly
`PySlice_AdjustIndices`), slice / index / mask stores, `if` statements, early `raise` validation (collected into a separate
`<fn>_rejects : Bool`), `rng.random(k)` (the next k draws of an abstract stream of uniforms), `np.fft.fftfreq`, `np.fft.ifft`
(contracts in lean/SpecKitV/Np/FftNoise.lean), calls of other translated functions.  Everything emitted is derived from the AST of the
current source; whatever has no rule raises `Unsupported` and the function becomes a stub that does not build.

Value kinds:  Z Int   R α   C Cx α   B Bool   AR Arr α   AC Arr (Cx α)   AB Arr Bool   AZ Arr Int   A2 Arr2 α   T:k1,k2,… tuples
"""
from __future__ import annotations

import ast
import os
from typing import Callable, Dict, List, Optional, Tuple

from ..translate import HEADER, Unsupported, Val, _lit_float, sha_of

REGION = "FftNoise"
SOURCES = ["speckit/noise.py"]

LT = {"Z": "Int", "R": "α", "C": "Cx α", "B": "Bool", "AR": "Arr α", "AC": "Arr (Cx α)", "AB": "Arr Bool", "AZ": "Arr Int",
      "A2": "Arr2 α", "RNG": "Nat → α", "NAT": "Nat"}
EK = {"AR": "R", "AC": "C", "AB": "B", "AZ": "Z"}          # element kind of a vector kind
VK = {v: k for k, v in EK.items()}                         # vector kind of an element kind

REAL_UFUNCS = {"cos": "RealLike.cos", "sin": "RealLike.sin", "sqrt": "RealLike.sqrt", "exp": "RealLike.exp", "log": "RealLike.log",
               "log10": "RealLike.log10", "arcsin": "RealLike.arcsin"}
# names a Python local may not have: binders used by the emitter, Lean keywords / namespaces the emitted text refers to
RESERVED = {"x_", "y_", "t_", "i_", "rng__pos", "fun", "let", "if", "then", "else", "at", "from", "end", "do", "have", "show", "match", "with",
            "open", "in", "def", "theorem", "namespace", "section", "variable", "Type", "Prop", "Sort", "true", "false", "some", "none",
            "NpFN", "Arr", "Arr2", "Cx", "RealLike", "Int", "Nat", "Bool", "α"}
ROUNDERS = {"ceil": "RealLike.ceil", "floor": "RealLike.floor", "round": "RealLike.roundEven", "trunc": "RealLike.trunc"}   # np.X: float -> float


def lty(kind: str) -> str:
    if kind.startswith("T:"):
        return " × ".join(("(" + lty(k) + ")" if " " in lty(k) else lty(k)) for k in kind[2:].split(","))
    return LT[kind]


class Known:
    """a function translated earlier in this file (or in Gen/Noise.lean) that later functions may call"""
    def __init__(self, lean: str, params: List[Tuple[str, str]], ret: str):
        self.lean, self.params, self.ret = lean, params, ret          # params: [(python name, kind)]


class VT:
    """translate one Python function of the straight-line NumPy subset into one Lean definition"""

    def __init__(self, fn: ast.FunctionDef, lean_name: str, sig: Dict[str, str], known: Dict[str, Known],
                 props: Optional[Dict[str, str]] = None, drops: Optional[List[str]] = None, drop_params: Optional[List[str]] = None,
                 methods: Optional[Dict[str, Known]] = None, path: str = ""):
        self.fn, self.lean_name, self.sig, self.known = fn, lean_name, sig, known
        self.props = props or {}                 # property name -> attribute it returns (read from the class's AST)
        self.drops = drops or []                 # statements dropped as value-irrelevant: exact `ast.unparse` text
        self.drop_params = drop_params or []
        self.methods = methods or {}             # elementwise methods translated elsewhere: self.<m>(vec, vec)
        self.path = path
        self.pre: List[str] = []                 # lets to emit before the statement being translated (rng draws)
        self.tmp = 0
        self.dropped_seen: List[str] = []
        self.rng_dead = False
        self.uses_rng = False
        self.rejects_mode = False
        self.n_raise = 0

    # ------------------------------------------------------------------ helpers
    def fresh(self, base: str) -> str:
        self.tmp += 1
        return f"{base}{self.tmp}"

    def to_real(self, v: Val, where: str = "") -> Val:
        if v.kind == "R":
            return v
        if v.kind == "Z":
            return Val(f"(RealLike.ofInt {v.code})", "R")
        raise Unsupported(f"{where}: a value of kind {v.kind} where a real is needed")

    def to_cx(self, v: Val, where: str = "") -> Val:
        if v.kind == "C":
            return v
        return Val(f"(Cx.ofReal {self.to_real(v, where).code})", "C")

    def coerce(self, v: Val, kind: str, where: str) -> Val:
        if v.kind == kind:
            return v
        if kind == "R":
            return self.to_real(v, where)
        if kind == "C":
            return self.to_cx(v, where)
        raise Unsupported(f"{where}: cannot use a value of kind {v.kind} where {kind} is expected")

    def lift(self, f: Callable[[List[Val]], Val], vals: List[Val], where: str) -> Val:
        """apply the scalar rule `f` elementwise when one or two arguments are vectors (one NumPy temporary per call)"""
        vi = [i for i, v in enumerate(vals) if v.kind in EK]
        if not vi:
            return f(vals)
        if any(v.kind not in EK and v.kind not in ("Z", "R", "C", "B") for v in vals):
            raise Unsupported(f"{where}: elementwise operation on {[v.kind for v in vals]}")
        if len(vi) == 1:
            i = vi[0]
            ek = EK[vals[i].kind]
            args = list(vals)
            args[i] = Val("x_", ek)
            r = f(args)
            if r.kind not in VK:
                raise Unsupported(f"{where}: elementwise result of kind {r.kind}")
            return Val(f"(NpFN.map (fun (x_ : {LT[ek]}) => {r.code}) {vals[i].code})", VK[r.kind])
        if len(vi) == 2:
            i, j = vi
            eki, ekj = EK[vals[i].kind], EK[vals[j].kind]
            args = list(vals)
            args[i], args[j] = Val("x_", eki), Val("y_", ekj)
            r = f(args)
            if r.kind not in VK:
                raise Unsupported(f"{where}: elementwise result of kind {r.kind}")
            return Val(f"(NpFN.zipWith (fun (x_ : {LT[eki]}) (y_ : {LT[ekj]}) => {r.code}) {vals[i].code} {vals[j].code})", VK[r.kind])
        raise Unsupported(f"{where}: elementwise operation on three vectors")

    # ------------------------------------------------------------------ scalar rules
    def s_binop(self, op: ast.operator, where: str) -> Callable[[List[Val]], Val]:
        def rule(v: List[Val]) -> Val:
            a, b = v
            if isinstance(op, (ast.BitAnd, ast.BitOr)):
                if a.kind == "B" and b.kind == "B":
                    return Val(f"({a.code} {'&&' if isinstance(op, ast.BitAnd) else '||'} {b.code})", "B")
                raise Unsupported(f"{where}: & / | on {a.kind},{b.kind}")
            if a.kind == "B" or b.kind == "B":
                raise Unsupported(f"{where}: arithmetic on a bool")
            sym = {ast.Add: "+", ast.Sub: "-", ast.Mult: "*"}.get(type(op))
            if a.kind == "Z" and b.kind == "Z":
                if sym:
                    return Val(f"({a.code} {sym} {b.code})", "Z")
                if isinstance(op, ast.FloorDiv):
                    return Val(f"(Int.fdiv {a.code} {b.code})", "Z")          # Python // : floor division
                if isinstance(op, ast.Mod):
                    return Val(f"(Int.fmod {a.code} {b.code})", "Z")          # Python %  : sign of the divisor
                if isinstance(op, ast.Div):
                    return Val(f"({self.to_real(a).code} / {self.to_real(b).code})", "R")
                raise Unsupported(f"{where}: integer operator {type(op).__name__}")
            if a.kind == "C" or b.kind == "C":
                if sym:
                    return Val(f"({self.to_cx(a, where).code} {sym} {self.to_cx(b, where).code})", "C")
                if isinstance(op, ast.Div) and b.kind in ("R", "Z"):
                    return Val(f"(Cx.divReal {a.code} {self.to_real(b).code})", "C")
                raise Unsupported(f"{where}: complex operator {type(op).__name__}")
            a, b = self.to_real(a, where), self.to_real(b, where)
            if sym:
                return Val(f"({a.code} {sym} {b.code})", "R")
            if isinstance(op, ast.Div):
                return Val(f"({a.code} / {b.code})", "R")
            if isinstance(op, ast.Pow):
                return Val(f"(RealLike.pow {a.code} {b.code})", "R")
            raise Unsupported(f"{where}: real operator {type(op).__name__}")
        return rule

    def s_compare(self, op: ast.cmpop, where: str) -> Callable[[List[Val]], Val]:
        def rule(v: List[Val]) -> Val:
            a, b = v
            if a.kind == "Z" and b.kind == "Z":
                sym = {ast.Lt: "<", ast.LtE: "≤", ast.Gt: ">", ast.GtE: "≥", ast.Eq: "=", ast.NotEq: "≠"}.get(type(op))
                if sym is None:
                    raise Unsupported(f"{where}: comparison {type(op).__name__}")
                return Val(f"(decide ({a.code} {sym} {b.code}))", "B")
            if a.kind in ("R", "Z") and b.kind in ("R", "Z"):
                f = {ast.Lt: "RealLike.lt", ast.LtE: "RealLike.le", ast.Gt: "RealLike.gt", ast.GtE: "RealLike.ge", ast.Eq: "RealLike.beq",
                     ast.NotEq: "RealLike.bne"}.get(type(op))
                if f is None:
                    raise Unsupported(f"{where}: comparison {type(op).__name__}")
                return Val(f"({f} {self.to_real(a).code} {self.to_real(b).code})", "B")
            raise Unsupported(f"{where}: comparison of {a.kind} with {b.kind}")
        return rule

    # ------------------------------------------------------------------ expressions
    def expr(self, e: ast.AST, env: Dict[str, str]) -> Val:
        ln = getattr(e, "lineno", "?")
        where = f"line {ln}"
        if isinstance(e, ast.Constant):
            v = e.value
            if isinstance(v, bool):
                return Val("true" if v else "false", "B")
            if isinstance(v, int):
                return Val(f"({v} : Int)", "Z")
            if isinstance(v, float):
                return Val(_lit_float(v), "R")
            if isinstance(v, complex):
                return Val(f"(⟨{_lit_float(v.real)}, {_lit_float(v.imag)}⟩ : Cx α)", "C")
            raise Unsupported(f"{where}: constant {v!r}")
        if isinstance(e, ast.Name):
            if e.id not in env:
                raise Unsupported(f"{where}: unknown variable {e.id}")
            if env[e.id] == "RNG":
                raise Unsupported(f"{where}: the random generator used as a value")
            return Val(e.id, env[e.id])
        if isinstance(e, ast.UnaryOp):
            if isinstance(e.op, ast.USub) and isinstance(e.operand, ast.Constant) and isinstance(e.operand.value, int) and not isinstance(e.operand.value, bool):
                return Val(f"(-({e.operand.value} : Int))", "Z")
            v = self.expr(e.operand, env)
            if isinstance(e.op, ast.USub):
                def neg(a: List[Val]) -> Val:
                    if a[0].kind in ("Z", "R"):
                        return Val(f"(-{a[0].code})", a[0].kind)
                    raise Unsupported(f"{where}: unary minus on {a[0].kind}")
                return self.lift(neg, [v], where)
            if isinstance(e.op, ast.Not) and v.kind == "B":
                return Val(f"(!{v.code})", "B")
            if isinstance(e.op, ast.Invert) and v.kind in ("B", "AB"):
                return self.lift(lambda a: Val(f"(!{a[0].code})", "B"), [v], where)
            raise Unsupported(f"{where}: unary {type(e.op).__name__} on {v.kind}")
        if isinstance(e, ast.BinOp):
            a, b = self.expr(e.left, env), self.expr(e.right, env)
            return self.lift(self.s_binop(e.op, where), [a, b], where)
        if isinstance(e, ast.Compare):
            operands = [e.left] + list(e.comparators)
            for mid in operands[1:-1]:
                if not isinstance(mid, (ast.Name, ast.Constant)):
                    raise Unsupported(f"{where}: chained comparison whose middle operand is not a name or literal")
            vals = [self.expr(o, env) for o in operands]
            parts = [self.lift(self.s_compare(op, where), [vals[i], vals[i + 1]], where) for i, op in enumerate(e.ops)]
            out = parts[0]
            for p in parts[1:]:           # a < b < c  ==  (a < b) and (b < c)
                out = self.lift(lambda v: Val(f"({v[0].code} && {v[1].code})", "B"), [out, p], where)
            return out
        if isinstance(e, ast.BoolOp):
            vals = [self.expr(x, env) for x in e.values]
            if any(v.kind != "B" for v in vals):
                raise Unsupported(f"{where}: and/or on non-bool")
            return Val("(" + (" && " if isinstance(e.op, ast.And) else " || ").join(v.code for v in vals) + ")", "B")
        if isinstance(e, ast.Attribute):
            return self.attribute(e, env, where)
        if isinstance(e, ast.Subscript):
            return self.subscript_load(e, env, where)
        if isinstance(e, ast.Call):
            return self.call(e, env, where)
        if isinstance(e, ast.Tuple):
            vals = [self.expr(x, env) for x in e.elts]
            return Val("(" + ", ".join(v.code for v in vals) + ")", "T:" + ",".join(v.kind for v in vals))
        raise Unsupported(f"{where}: expression {type(e).__name__}")

    def attribute(self, e: ast.Attribute, env: Dict[str, str], where: str) -> Val:
        if isinstance(e.value, ast.Name) and e.value.id in ("np", "math") and e.attr == "pi":
            return Val("RealLike.pi", "R")
        if isinstance(e.value, ast.Name) and e.value.id == "self":
            attr = self.props.get(e.attr, e.attr if e.attr.startswith("_") else None)     # a property read resolves to the attribute it returns
            if attr is None:
                raise Unsupported(f"{where}: self.{e.attr} is neither a stored attribute nor a simple property")
            if attr not in env:
                raise Unsupported(f"{where}: self.{e.attr} (attribute {attr}) read before it is assigned")
            return Val(attr, env[attr])
        base = self.expr(e.value, env)
        if e.attr == "size" and base.kind in EK:
            return Val(f"(({base.code}.n : Nat) : Int)", "Z")
        if e.attr == "ndim" and base.kind in EK:
            return Val("(1 : Int)", "Z")               # vectors are 1-D by type
        if e.attr == "real":
            if base.kind in ("C", "AC"):
                return self.lift(lambda v: Val(f"{v[0].code}.re", "R"), [base], where)
            if base.kind in ("R", "AR"):
                return base
        if e.attr == "imag" and base.kind in ("C", "AC"):
            return self.lift(lambda v: Val(f"{v[0].code}.im", "R"), [base], where)
        raise Unsupported(f"{where}: attribute .{e.attr} of {base.kind}")

    def slice_of(self, s: ast.Slice, arr: str, env: Dict[str, str], where: str) -> str:
        def bound(b) -> str:
            if b is None:
                return "none"
            v = self.expr(b, env)
            if v.kind != "Z":
                raise Unsupported(f"{where}: slice bound of kind {v.kind}")
            return f"(some {v.code})"
        step = 1
        if s.step is not None:
            try:
                step = ast.literal_eval(s.step)
            except Exception:
                raise Unsupported(f"{where}: slice step is not an integer literal")
            if not isinstance(step, int) or isinstance(step, bool) or step == 0:
                raise Unsupported(f"{where}: slice step {step!r}")
        return f"(NpFN.pySlice {arr}.n {bound(s.lower)} {bound(s.upper)} ({step} : Int))"

    def subscript_load(self, e: ast.Subscript, env: Dict[str, str], where: str) -> Val:
        base = self.expr(e.value, env)
        if base.kind not in EK:
            raise Unsupported(f"{where}: subscript of {base.kind}")
        if not isinstance(e.value, ast.Name):
            raise Unsupported(f"{where}: subscript of an unnamed vector")
        if isinstance(e.slice, ast.Slice):
            return Val(f"(NpFN.sliceGet {base.code} {self.slice_of(e.slice, base.code, env, where)})", base.kind)
        i = self.expr(e.slice, env)
        if i.kind != "Z":
            raise Unsupported(f"{where}: index of kind {i.kind}")
        return Val(f"({base.code}.get (_root_.Np.pyIndex {base.code}.n {i.code}))", EK[base.kind])

    def call(self, e: ast.Call, env: Dict[str, str], where: str) -> Val:
        fu = ast.unparse(e.func)
        kws = {k.arg: k.value for k in e.keywords}
        np_name = fu[3:] if fu.startswith("np.") else None
        if np_name in REAL_UFUNCS and len(e.args) == 1 and not kws:
            v = self.expr(e.args[0], env)
            return self.lift(lambda a: Val(f"({REAL_UFUNCS[np_name]} {self.to_real(a[0], where).code})", "R"), [v], where)
        if np_name == "abs" and len(e.args) == 1 and not kws:
            v = self.expr(e.args[0], env)

            def ab(a: List[Val]) -> Val:
                if a[0].kind == "C":
                    return Val(f"(Cx.abs {a[0].code})", "R")
                return Val(f"(RealLike.abs {self.to_real(a[0], where).code})", "R")
            return self.lift(ab, [v], where)
        if np_name in ROUNDERS and len(e.args) == 1 and not kws:
            v = self.expr(e.args[0], env)      # np.ceil / np.floor / np.round / np.trunc keep the float dtype
            return self.lift(lambda a: Val(f"((RealLike.ofInt ({ROUNDERS[np_name]} {self.to_real(a[0], where).code})) : α)", "R"), [v], where)
        if np_name == "power" and len(e.args) == 2 and not kws:
            a, b = self.expr(e.args[0], env), self.expr(e.args[1], env)
            return self.lift(lambda v: Val(f"(RealLike.pow {self.to_real(v[0], where).code} {self.to_real(v[1], where).code})", "R"), [a, b], where)
        if np_name == "conj" and len(e.args) == 1 and not kws:
            v = self.expr(e.args[0], env)
            if v.kind in ("C", "AC"):
                return self.lift(lambda a: Val(f"(Cx.conj {a[0].code})", "C"), [v], where)
            if v.kind in ("R", "AR"):
                return v
            raise Unsupported(f"{where}: np.conj of {v.kind}")
        if np_name in ("real", "imag") and len(e.args) == 1 and not kws:
            v = self.expr(e.args[0], env)
            if v.kind in ("C", "AC"):
                return self.lift(lambda a: Val(f"{a[0].code}.{'re' if np_name == 'real' else 'im'}", "R"), [v], where)
            if v.kind in ("R", "AR") and np_name == "real":
                return v
            raise Unsupported(f"{where}: np.{np_name} of {v.kind}")
        if fu == "int" and len(e.args) == 1 and not kws:
            v = self.expr(e.args[0], env)
            if v.kind == "Z":
                return v
            if v.kind == "R":
                return Val(f"(RealLike.trunc {v.code})", "Z")
            raise Unsupported(f"{where}: int() of {v.kind}")
        if fu == "float" and len(e.args) == 1 and not kws:
            return self.to_real(self.expr(e.args[0], env), where)
        if np_name == "arange" and len(e.args) == 1 and not kws:
            n = self.expr(e.args[0], env)
            if n.kind != "Z":
                raise Unsupported(f"{where}: np.arange bound of kind {n.kind}")
            return Val(f"(NpFN.arange (Int.toNat {n.code}))", "AZ")
        if np_name == "zeros" and len(e.args) == 1 and set(kws) <= {"dtype"}:
            n = self.expr(e.args[0], env)
            if n.kind != "Z":
                raise Unsupported(f"{where}: np.zeros shape of kind {n.kind}")
            dt = ast.unparse(kws["dtype"]) if "dtype" in kws else "float"
            if dt == "complex":
                return Val(f"(NpFN.full (Int.toNat {n.code}) (Cx.ofReal (RealLike.ofNat 0) : Cx α))", "AC")
            if dt in ("float", "np.float64"):
                return Val(f"(NpFN.full (Int.toNat {n.code}) (RealLike.ofNat 0 : α))", "AR")
            raise Unsupported(f"{where}: np.zeros dtype {dt}")
        if np_name in ("ones_like", "zeros_like") and len(e.args) == 1 and not kws:
            v = self.expr(e.args[0], env)
            c = "1" if np_name == "ones_like" else "0"
            if v.kind == "AR":
                return Val(f"(NpFN.full {v.code}.n (RealLike.ofNat {c} : α))", "AR")
            if v.kind == "AC":
                return Val(f"(NpFN.full {v.code}.n (Cx.ofReal (RealLike.ofNat {c}) : Cx α))", "AC")
            raise Unsupported(f"{where}: np.{np_name} of {v.kind}")
        if np_name == "array" and len(e.args) == 1 and set(kws) <= {"dtype", "copy"}:
            v = self.expr(e.args[0], env)      # a copy is the same value; dtype=complex of a complex vector is the identity
            dt = ast.unparse(kws["dtype"]) if "dtype" in kws else None
            if "copy" in kws and ast.unparse(kws["copy"]) not in ("True", "False"):
                raise Unsupported(f"{where}: np.array copy=")
            if v.kind == "AC" and dt in (None, "complex"):
                return v
            if v.kind == "AR" and dt in (None, "float"):
                return v
            if v.kind == "AR" and dt == "complex":
                return self.lift(lambda a: self.to_cx(a[0], where), [v], where)
            raise Unsupported(f"{where}: np.array of {v.kind} with dtype {dt}")
        if np_name == "asarray" and len(e.args) == 1 and not kws:
            v = self.expr(e.args[0], env)
            if v.kind in EK:
                return v
            raise Unsupported(f"{where}: np.asarray of {v.kind}")
        if fu == "np.fft.fftfreq" and 1 <= len(e.args) <= 2 and set(kws) <= {"d"} and len(e.args) + len(kws) == 2:
            n = self.expr(e.args[0], env)
            d = self.to_real(self.expr(e.args[1] if len(e.args) == 2 else kws["d"], env), where)
            if n.kind != "Z":
                raise Unsupported(f"{where}: np.fft.fftfreq length of kind {n.kind}")
            return Val(f"(NpFN.fftfreq (Int.toNat {n.code}) {d.code})", "AR")
        if fu == "np.fft.ifft" and len(e.args) == 1 and not kws:
            v = self.expr(e.args[0], env)
            if v.kind != "AC":
                raise Unsupported(f"{where}: np.fft.ifft of {v.kind}")
            return Val(f"(NpFN.ifft {v.code})", "AC")
        # np.vstack([c0, c1]).T[.copy()]  : the matrix with columns c0, c1
        f = e.func
        if isinstance(f, ast.Attribute) and f.attr == "copy" and not e.args and not kws:
            inner = f.value
            if isinstance(inner, ast.Attribute) and inner.attr == "T":
                return self.vstack_T(inner, env, where)
            v = self.expr(inner, env)
            if v.kind in EK or v.kind == "A2":
                return v                        # arrays are values: a copy is the same value
            raise Unsupported(f"{where}: .copy() of {v.kind}")
        # rng.random(k)
        if (isinstance(f, ast.Attribute) and f.attr == "random" and isinstance(f.value, ast.Name) and env.get(f.value.id) == "RNG"
                and len(e.args) == 1 and not kws):
            if self.rng_dead:
                raise Unsupported(f"{where}: the generator is used after it was handed to another function")
            k = self.expr(e.args[0], env)
            if k.kind != "Z":
                raise Unsupported(f"{where}: rng.random count of kind {k.kind}")
            name = self.fresh("rnd")
            self.uses_rng = True
            self.pre.append(f"let {name} : Arr α := NpFN.rngRandom {f.value.id} rng__pos (Int.toNat {k.code})")
            self.pre.append(f"let rng__pos : Nat := rng__pos + (Int.toNat {k.code})")
            return Val(name, "AR")
        # self.<method>(vec, vec): an elementwise method translated in Gen/Noise.lean
        if isinstance(f, ast.Attribute) and isinstance(f.value, ast.Name) and f.value.id == "self" and f.attr in self.methods and not kws:
            info = self.methods[f.attr]
            args = [self.expr(a, env) for a in e.args]
            if len(args) != 2 or any(a.kind != "AR" for a in args):
                raise Unsupported(f"{where}: self.{f.attr} expects two real vectors")
            extra = []
            for pname, pk in info.params[2:]:          # values the method reads from `self` (resolved through the property table)
                extra.append(self.coerce(self.attribute(ast.Attribute(value=ast.Name(id="self", ctx=ast.Load()), attr=pname, ctx=ast.Load()), env, where), pk, where).code)
            return Val(f"(NpFN.zipWith (fun (x_ : α) (y_ : α) => {info.lean} x_ y_ {' '.join(extra)}) {args[0].code} {args[1].code})", "AT3")
        if fu in self.known:
            info = self.known[fu]
            pos = [self.expr(a, env) if not (isinstance(a, ast.Name) and env.get(a.id) == "RNG") else Val(a.id, "RNG") for a in e.args]
            given: Dict[str, Val] = {}
            for (pn, _), v in zip(info.params, pos):
                given[pn] = v
            for k, node in kws.items():
                if k in given:
                    raise Unsupported(f"{where}: argument {k} given twice")
                given[k] = Val(node.id, "RNG") if (isinstance(node, ast.Name) and env.get(node.id) == "RNG") else self.expr(node, env)
            codes = []
            for pn, pk in info.params:
                if pn not in given:
                    raise Unsupported(f"{where}: call of {fu} without argument {pn} (defaults are not modelled)")
                v = given.pop(pn)
                if pk == "RNG":
                    if v.kind != "RNG" or self.rng_dead:
                        raise Unsupported(f"{where}: generator argument of {fu}")
                    self.uses_rng = True
                    self.rng_dead = True        # the callee consumes an unknown number of draws
                    codes.append(f"(fun (i_ : Nat) => {v.code} (rng__pos + i_))")
                else:
                    codes.append(self.coerce(v, pk, where).code)
            if given:
                raise Unsupported(f"{where}: unknown arguments {sorted(given)} of {fu}")
            return Val(f"({info.lean} " + " ".join(codes) + ")", info.ret)
        raise Unsupported(f"{where}: call {fu}")

    def vstack_T(self, t: ast.Attribute, env: Dict[str, str], where: str) -> Val:
        c = t.value
        if not (isinstance(c, ast.Call) and ast.unparse(c.func) == "np.vstack" and len(c.args) == 1 and not c.keywords
                and isinstance(c.args[0], ast.List) and len(c.args[0].elts) == 2):
            raise Unsupported(f"{where}: .T of something that is not np.vstack([c0, c1])")
        c0, c1 = (self.expr(x, env) for x in c.args[0].elts)
        if c0.kind != "AR" or c1.kind != "AR":
            raise Unsupported(f"{where}: np.vstack of {c0.kind},{c1.kind}")
        return Val(f"(NpFN.columns2 {c0.code} {c1.code})", "A2")

    # ------------------------------------------------------------------ statements
    def flush(self, ind: str) -> str:
        out = "".join(f"{ind}{l}\n" for l in self.pre)
        self.pre = []
        return out

    def target_names(self, stmts: List[ast.stmt]) -> List[str]:
        out: List[str] = []

        def add(n: str):
            if n not in out:
                out.append(n)
        for s in stmts:
            for n in ast.walk(s):
                if isinstance(n, (ast.Assign, ast.AugAssign, ast.AnnAssign)):
                    tg = n.targets if isinstance(n, ast.Assign) else [n.target]
                    for t in tg:
                        for t1 in (t.elts if isinstance(t, ast.Tuple) else [t]):
                            if isinstance(t1, ast.Name):
                                add(t1.id)
                            elif isinstance(t1, ast.Subscript) and isinstance(t1.value, ast.Name):
                                add(t1.value.id)
                            elif isinstance(t1, ast.Attribute) and isinstance(t1.value, ast.Name) and t1.value.id == "self":
                                add(t1.attr)
                if (isinstance(n, ast.Call) and isinstance(n.func, ast.Attribute) and n.func.attr == "random"
                        and isinstance(n.func.value, ast.Name) and self.sig.get(n.func.value.id) == "RNG"):
                    add("rng__pos")
        return out

    def is_raise_if(self, s: ast.stmt) -> bool:
        return isinstance(s, ast.If) and not s.orelse and len(s.body) == 1 and isinstance(s.body[0], ast.Raise)

    def block(self, stmts: List[ast.stmt], env: Dict[str, str], ind: str, final: Callable[[Dict[str, str]], str]) -> str:
        if not stmts:
            return ind + final(env)
        s, rest = stmts[0], list(stmts[1:])
        where = f"line {getattr(s, 'lineno', '?')}"
        if isinstance(s, ast.Expr) and isinstance(s.value, ast.Constant) and isinstance(s.value.value, str):
            return self.block(rest, env, ind, final)
        if isinstance(s, ast.Pass):
            return self.block(rest, env, ind, final)
        txt = ast.unparse(s).strip()
        if txt in self.drops:
            self.dropped_seen.append(f"{where}: {txt.splitlines()[0]}{' …' if len(txt.splitlines()) > 1 else ''}")
            return self.block(rest, env, ind, final)
        if self.is_raise_if(s):
            # input validation: a precondition of the value definition, a disjunct of `<fn>_rejects`
            self.n_raise += 1
            if not self.rejects_mode:
                return self.block(rest, env, ind, final)
            c = self.expr(s.test, env)
            if c.kind != "B" or self.pre:
                raise Unsupported(f"{where}: validation test of kind {c.kind}")
            return f"{ind}if {c.code} then true else\n" + self.block(rest, env, ind, final)
        if isinstance(s, ast.Raise):
            raise Unsupported(f"{where}: raise outside the form `if test: raise …`")
        if isinstance(s, ast.Return):
            if rest:
                raise Unsupported(f"{where}: code after return")
            if s.value is None:
                raise Unsupported(f"{where}: bare return")
            v = self.expr(s.value, env)
            self.ret_kind = v.kind
            return self.flush(ind) + ind + v.code
        if isinstance(s, ast.AugAssign):
            load = ast.parse(ast.unparse(s.target), mode="eval").body
            fake = ast.Assign(targets=[s.target], value=ast.BinOp(left=load, op=s.op, right=s.value))
            ast.copy_location(fake, s)
            ast.fix_missing_locations(fake)
            for n in ast.walk(fake):
                n.lineno = getattr(s, "lineno", 0)
            return self.block([fake] + rest, env, ind, final)
        if isinstance(s, ast.Assign) and len(s.targets) == 1:
            t = s.targets[0]
            if isinstance(t, ast.Attribute) and isinstance(t.value, ast.Name) and t.value.id == "self":
                t = ast.copy_location(ast.Name(id=t.attr, ctx=ast.Store()), t)       # self.X = e  binds the attribute X
            if isinstance(t, ast.Name):
                v = self.expr(s.value, env)
                if v.kind == "AT3" or v.kind == "RNG":
                    raise Unsupported(f"{where}: value of kind {v.kind} bound to a name")
                if t.id in env and env[t.id] != v.kind:
                    raise Unsupported(f"{where}: {t.id} changes kind ({env[t.id]} -> {v.kind})")
                if env.get(t.id) == "RNG" or t.id in RESERVED or t.id.startswith(("rnd", "br", "cf")) and t.id[-1:].isdigit():
                    raise Unsupported(f"{where}: the name {t.id} cannot be used for a local (reserved by the emitter / Lean)")
                env = dict(env)
                env[t.id] = v.kind
                return self.flush(ind) + f"{ind}let {t.id} : {lty(v.kind)} := {v.code}\n" + self.block(rest, env, ind, final)
            if isinstance(t, ast.Tuple) and all(isinstance(x, ast.Name) for x in t.elts):
                v = self.expr(s.value, env)
                names = [x.id for x in t.elts]
                if any(n in RESERVED for n in names):
                    raise Unsupported(f"{where}: reserved name among {names}")
                if v.kind == "AT3" and len(names) == 3:
                    tmp = self.fresh("cf")
                    out = self.flush(ind) + f"{ind}let {tmp} : Arr (α × α × α) := {v.code}\n"
                    env = dict(env)
                    for nm, proj in zip(names, ("t_.1", "t_.2.1", "t_.2.2")):
                        out += f"{ind}let {nm} : Arr α := NpFN.map (fun (t_ : α × α × α) => {proj}) {tmp}\n"
                        env[nm] = "AR"
                    return out + self.block(rest, env, ind, final)
                raise Unsupported(f"{where}: tuple assignment from a value of kind {v.kind}")
            if isinstance(t, ast.Subscript) and isinstance(t.value, ast.Name) and env.get(t.value.id) in EK:
                name, ak = t.value.id, env[t.value.id]
                ek = EK[ak]
                if isinstance(t.slice, ast.Slice):
                    sl = self.slice_of(t.slice, name, env, where)
                    v = self.expr(s.value, env)
                    if v.kind not in EK:
                        raise Unsupported(f"{where}: slice store of a {v.kind} (only vectors of the slice's length)")
                    if v.kind != ak:
                        v = self.lift(lambda a: self.coerce(a[0], ek, where), [v], where)
                    code = f"NpFN.sliceSet {name} {sl} {v.code}"
                else:
                    i = self.expr(t.slice, env)
                    v = self.expr(s.value, env)
                    if i.kind == "AB":
                        if v.kind not in ("Z", "R", "C", "B"):
                            raise Unsupported(f"{where}: mask store of a {v.kind} (only scalars)")
                        code = f"NpFN.maskSet {name} {i.code} {self.coerce(v, ek, where).code}"
                    elif i.kind == "Z":
                        if v.kind not in ("Z", "R", "C", "B"):
                            raise Unsupported(f"{where}: index store of a {v.kind}")
                        code = f"Arr.set {name} (_root_.Np.pyIndex {name}.n {i.code}) {self.coerce(v, ek, where).code}"
                    else:
                        raise Unsupported(f"{where}: store through an index of kind {i.kind}")
                return self.flush(ind) + f"{ind}let {name} : {lty(ak)} := {code}\n" + self.block(rest, env, ind, final)
            raise Unsupported(f"{where}: assignment target {ast.unparse(s.targets[0])}")
        if isinstance(s, ast.If):
            c = self.expr(s.test, env)
            if c.kind != "B":
                raise Unsupported(f"{where}: if on a value of kind {c.kind}")
            head = self.flush(ind)
            for b in s.body + s.orelse:
                if isinstance(b, (ast.Return, ast.Raise)) or self.is_raise_if(b):
                    raise Unsupported(f"{where}: return / raise inside a branch")
            tb, te = self.target_names(s.body), self.target_names(s.orelse)
            names = [n for n in dict.fromkeys(tb + te) if n in env or (n in tb and n in te)]
            if not names:
                raise Unsupported(f"{where}: if statement with no effect on later code")
            kinds: Dict[str, str] = {}

            def fin(e2: Dict[str, str]) -> str:
                for n in names:
                    kinds.setdefault(n, e2[n])
                    if kinds[n] != e2[n]:
                        raise Unsupported(f"{where}: {n} has different kinds in the branches")
                return "(" + ", ".join(names) + ")" if len(names) > 1 else names[0]
            then_code = self.block(s.body, env, ind + "    ", fin)
            else_code = self.block(s.orelse, env, ind + "    ", fin)
            env = dict(env)
            for n in names:
                env[n] = kinds[n]
            br = self.fresh("br")
            out = head + f"{ind}let {br} : {lty('T:' + ','.join(kinds[n] for n in names)) if len(names) > 1 else lty(kinds[names[0]])} :=\n"
            out += f"{ind}  if {c.code} then\n{then_code}\n{ind}  else\n{else_code}\n"
            if len(names) == 1:
                out += f"{ind}let {names[0]} : {lty(kinds[names[0]])} := {br}\n"
            else:
                for i, n in enumerate(names):
                    proj = br + "".join(".2" for _ in range(i)) + (".1" if i < len(names) - 1 else "")
                    out += f"{ind}let {n} : {lty(kinds[n])} := {proj}\n"
            return out + self.block(rest, env, ind, final)
        raise Unsupported(f"{where}: statement {type(s).__name__}: {txt.splitlines()[0][:60]}")

    # ------------------------------------------------------------------ whole function
    def translate(self, body: Optional[List[ast.stmt]] = None, lean_name: Optional[str] = None, rejects: bool = False,
                  doc: str = "") -> Tuple[str, Known]:
        fn = self.fn
        lean_name = lean_name or self.lean_name
        self.rejects_mode = rejects
        self.pre, self.tmp, self.rng_dead, self.uses_rng, self.n_raise, self.dropped_seen = [], 0, False, False, 0, []
        a = fn.args
        if a.vararg or a.kwarg or a.kwonlyargs or a.posonlyargs:
            raise Unsupported(f"{fn.name}: parameter list")
        params = [p.arg for p in a.args if p.arg != "self" and p.arg not in self.drop_params]
        env: Dict[str, str] = {}
        decl: List[str] = []
        plist: List[Tuple[str, str]] = []
        for p in params:
            if p not in self.sig or p in RESERVED:
                raise Unsupported(f"{fn.name}: no kind declared for parameter {p}")
            env[p] = self.sig[p]
            decl.append(f"({p} : {LT[self.sig[p]]})")
            plist.append((p, self.sig[p]))
        has_rng = any(k == "RNG" for _, k in plist)
        if has_rng:
            env["rng__pos"] = "NAT"              # number of draws consumed so far
        stmts = list(fn.body if body is None else body)
        if rejects:
            last = max([i for i, s in enumerate(stmts) if self.is_raise_if(s)], default=-1)
            stmts = stmts[:last + 1]
            self.ret_kind = "B"
            code = self.block(stmts, env, "  ", lambda e2: "false")
        else:
            self.ret_kind = None
            code = self.block(stmts, env, "  ", lambda e2: (_ for _ in ()).throw(Unsupported(f"{fn.name}: control reaches the end without a return")))
        if self.ret_kind is None:
            raise Unsupported(f"{fn.name}: no return")
        pos = "  let rng__pos : Nat := 0\n" if (has_rng and not rejects) else ""
        src = f"/-- {os.path.basename(self.path)}:{fn.lineno}-{fn.end_lineno} `{fn.name}`{doc} -/\n"
        text = src + f"def {lean_name} " + " ".join(decl) + f" : {lty(self.ret_kind)} :=\n" + pos + code + "\n"
        return text, Known(lean_name, plist, self.ret_kind)


# ---------------------------------------------------------------------------------------------- source access
def module_functions(tree: ast.Module) -> Dict[str, ast.FunctionDef]:
    return {n.name: n for n in tree.body if isinstance(n, ast.FunctionDef)}


def class_def(tree: ast.Module, name: str) -> ast.ClassDef:
    for n in tree.body:
        if isinstance(n, ast.ClassDef) and n.name == name:
            return n
    raise Unsupported(f"class {name} not found")


def class_method(cls: ast.ClassDef, name: str) -> ast.FunctionDef:
    for n in cls.body:
        if isinstance(n, ast.FunctionDef) and n.name == name and not n.decorator_list:
            return n
    raise Unsupported(f"{cls.name}.{name} not found")


def class_properties(cls: ast.ClassDef) -> Dict[str, str]:
    """property name -> the attribute it returns, for properties of the exact form `return self.<attr>`"""
    out: Dict[str, str] = {}
    for n in cls.body:
        if isinstance(n, ast.FunctionDef) and [ast.unparse(d) for d in n.decorator_list] == ["property"]:
            body = [b for b in n.body if not (isinstance(b, ast.Expr) and isinstance(b.value, ast.Constant))]
            if (len(body) == 1 and isinstance(body[0], ast.Return) and isinstance(body[0].value, ast.Attribute)
                    and isinstance(body[0].value.value, ast.Name) and body[0].value.value.id == "self"):
                out[n.name] = body[0].value.attr
    return out


def split_at_probe(fn: ast.FunctionDef, probe: str) -> Tuple[List[ast.stmt], ast.expr]:
    """the statements of `fn` before the (top-level) statement that calls `probe`, and the first argument of that call:
    the value handed to the external routine / the next translated function"""
    for i, s in enumerate(fn.body):
        calls = [n for n in ast.walk(s) if isinstance(n, ast.Call) and ast.unparse(n.func) == probe]
        if calls:
            if len(calls) != 1 or isinstance(s, (ast.If, ast.For, ast.While)) or not calls[0].args or not isinstance(calls[0].args[0], ast.Name):
                raise Unsupported(f"{fn.name}: the call of {probe} is not a single top-level call on a named array (line {s.lineno})")
            return list(fn.body[:i]), calls[0].args[0]
    raise Unsupported(f"{fn.name}: no call of {probe} found")


def init_as_function(cls: ast.ClassDef, returns: List[str]) -> ast.FunctionDef:
    """`__init__` with `return (<the listed attributes / locals>)` appended"""
    init = class_method(cls, "__init__")
    ret = ast.parse("return (" + ", ".join(returns) + ")").body[0]
    new = ast.FunctionDef(name=f"{cls.name}.__init__", args=init.args, body=list(init.body) + [ret], decorator_list=[], lineno=init.lineno,
                          end_lineno=init.end_lineno)
    ast.fix_missing_locations(new)
    new.lineno, new.end_lineno = init.lineno, init.end_lineno
    for n in ast.walk(ret):
        n.lineno = init.end_lineno
    return new


DROPS = {
    "fftnoise": ["rng = np.random.default_rng() if rng is None else rng"],
    "band_limited_noise": [],
    "white_noise": ["self._rng = np.random.default_rng(seed)", "self._buffer: np.ndarray = np.array([])"],
    "alpha_noise": ["super().__init__()", "self._whitenoise = white_noise(self.fs, psd=1.0, seed=seed)",
                    "self._zi_states = np.zeros((self._num_spectra, 1), dtype=np.float64)",
                    "if init_filter:\n    self._settle_filter_state()"],
}
ALPHA_RETURNS = ["_fs", "_alpha", "_num_spectra", "_fmin", "_fmax", "_scaling", "_a_coeffs", "_b_coeffs", "filter_f_min_vals", "filter_f_max_vals"]
WHITE_RETURNS = ["_fs", "_rms"]

DOC = """/-
  Region FftNoise (vk/regions/fft_noise.py).  Translated from speckit/noise.py:
    fftnoise             -> Gen.fftnoise_rejects (the validation), Gen.fftnoise_spectrum (the array handed to np.fft.ifft),
                            Gen.fftnoise (the returned series, `NpFN.ifft` being the stated contract of np.fft.ifft)
    band_limited_noise   -> Gen.band_limited_noise_rejects, Gen.band_limited_noise_spectrum (the array handed to fftnoise),
                            Gen.band_limited_noise
    white_noise.__init__ -> Gen.white_noise_init          returns (_fs, _rms)
    alpha_noise.__init__ -> Gen.alpha_noise_init_rejects, Gen.alpha_noise_init  returns
                            (_fs, _alpha, _num_spectra, _fmin, _fmax, _scaling, _a_coeffs, _b_coeffs, filter_f_min_vals, filter_f_max_vals);
                            `self.<property>` is resolved through the class's own `@property` definitions (read from the source),
                            `self._calc_filter_coeffs` is the elementwise use of `Gen._calc_filter_coeffs` (Gen/Noise.lean)
  Conventions: Python ints are `Int`; `rng` is the stream of uniforms the generator would draw (`rng.random(k)` takes the next k);
  a vector whose length does not fit (NumPy raises) becomes the empty vector (see Np/FftNoise.lean).
  Input validation `if …: raise` is not part of the value definitions: it is collected, test by test, in `<fn>_rejects`.
  Statements dropped as value-irrelevant (each matched against the source text, anything else is translated or rejected):
{dropped}
-/
"""


def _stub(name: str, ex: Exception) -> str:
    msg = str(ex).replace("-/", "- /")
    return f"/- UNSUPPORTED {name}: {msg} -/\ndef {name}_UNSUPPORTED : Nat := translation_failed_{name}\n\n"


def generate(repo: str) -> Tuple[str, List[str]]:
    path = os.path.join(repo, SOURCES[0])
    head = HEADER.format(src=SOURCES[0], sha=sha_of(path)).replace(
        "import SpecKitV.Num\n", "import SpecKitV.Num\nimport SpecKitV.Np.FftNoise\nimport SpecKitV.Gen.Noise\n")
    errors: List[str] = []
    body = ""
    dropped: List[str] = []
    try:
        tree = ast.parse(open(path).read())
    except Exception as ex:
        return head + _stub("FftNoise", ex) + "end Gen\n", [f"parse: {ex!r}"]
    fns = module_functions(tree)
    known: Dict[str, Known] = {}

    def emit(name: str, build: Callable[[], List[Tuple[str, Optional[Known], Optional[str]]]]):
        nonlocal body
        try:
            for text, info, reg in build():
                body += text + "\n"
                if info is not None and reg is not None:
                    known[reg] = info
        except Unsupported as ex:
            errors.append(f"{name}: {ex}")
            body += _stub(name, ex)

    # ---- fftnoise
    def b_fftnoise():
        if "fftnoise" not in fns:
            raise Unsupported("function not found")
        fn = fns["fftnoise"]
        tr = VT(fn, "fftnoise", {"f": "AC", "rng": "RNG"}, known, drops=DROPS["fftnoise"], path=path)
        out = []
        t, _ = tr.translate(lean_name="fftnoise_rejects", rejects=True, doc=": the input validation (true = ValueError)")
        out.append((t, None, None))
        pre, arg = split_at_probe(fn, "np.fft.ifft")
        ret = ast.copy_location(ast.Return(value=arg), arg)
        t, _ = tr.translate(body=pre + [ret], lean_name="fftnoise_spectrum", doc=f": the spectrum `{ast.unparse(arg)}` handed to np.fft.ifft")
        out.append((t, None, None))
        t, info = tr.translate()
        dropped.extend(f"    fftnoise {d}" for d in tr.dropped_seen)
        out.append((t, info, "fftnoise"))
        return out
    emit("fftnoise", b_fftnoise)

    # ---- band_limited_noise
    def b_band():
        if "band_limited_noise" not in fns:
            raise Unsupported("function not found")
        fn = fns["band_limited_noise"]
        tr = VT(fn, "band_limited_noise", {"min_freq": "R", "max_freq": "R", "samples": "Z", "samplerate": "R", "rng": "RNG"}, known,
                drops=DROPS["band_limited_noise"], path=path)
        out = []
        t, _ = tr.translate(lean_name="band_limited_noise_rejects", rejects=True, doc=": the input validation (true = ValueError)")
        out.append((t, None, None))
        pre, arg = split_at_probe(fn, "fftnoise")
        ret = ast.copy_location(ast.Return(value=arg), arg)
        t, _ = tr.translate(body=pre + [ret], lean_name="band_limited_noise_spectrum", doc=f": the spectrum `{ast.unparse(arg)}` handed to fftnoise")
        out.append((t, None, None))
        t, info = tr.translate()
        dropped.extend(f"    band_limited_noise {d}" for d in tr.dropped_seen)
        out.append((t, info, "band_limited_noise"))
        return out
    emit("band_limited_noise", b_band)

    # ---- white_noise.__init__
    def b_white():
        cls = class_def(tree, "white_noise")
        fn = init_as_function(cls, WHITE_RETURNS)
        tr = VT(fn, "white_noise_init", {"f_sample": "R", "psd": "R"}, known, props=class_properties(cls), drops=DROPS["white_noise"],
                drop_params=["seed"], path=path)
        t, info = tr.translate(doc=": returns (" + ", ".join(WHITE_RETURNS) + ")")
        dropped.extend(f"    white_noise.__init__ {d}" for d in tr.dropped_seen)
        if tr.n_raise:
            raise Unsupported("white_noise.__init__ has input validation: no rule to expose it")
        return [(t, info, None)]
    emit("white_noise_init", b_white)

    # ---- alpha_noise.__init__
    def b_alpha():
        cls = class_def(tree, "alpha_noise")
        fn = init_as_function(cls, ALPHA_RETURNS)
        m = class_method(cls, "_calc_filter_coeffs")
        if [p.arg for p in m.args.args] != ["self", "f_min", "f_max"]:
            raise Unsupported("alpha_noise._calc_filter_coeffs: parameter list changed")
        reads = sorted({n.attr for n in ast.walk(m) if isinstance(n, ast.Attribute) and isinstance(n.value, ast.Name) and n.value.id == "self"})
        if reads != ["fs"]:
            raise Unsupported(f"alpha_noise._calc_filter_coeffs reads self.{reads}: Gen._calc_filter_coeffs takes (f_min, f_max, fs)")
        methods = {"_calc_filter_coeffs": Known("_calc_filter_coeffs", [("f_min", "R"), ("f_max", "R"), ("fs", "R")], "T:R,R,R")}
        tr = VT(fn, "alpha_noise_init", {"f_sample": "R", "f_min": "R", "f_max": "R", "alpha": "R"}, known, props=class_properties(cls),
                drops=DROPS["alpha_noise"], drop_params=["init_filter", "seed"], methods=methods, path=path)
        out = []
        t, _ = tr.translate(lean_name="alpha_noise_init_rejects", rejects=True, doc=": the input validation (true = ValueError)")
        out.append((t, None, None))
        t, info = tr.translate(doc=": returns (" + ", ".join(ALPHA_RETURNS) + ")")
        dropped.extend(f"    alpha_noise.__init__ {d}" for d in tr.dropped_seen)
        out.append((t, info, None))
        return out
    emit("alpha_noise_init", b_alpha)

    text = head.replace("namespace Gen\n", DOC.format(dropped="\n".join(dropped) or "    (none)") + "\nnamespace Gen\n", 1)
    return text + body + "end Gen\n", errors
