"""Region `TimeShift`: speckit/dsp.py `timeshift` (both paths) and the shift arithmetic of `df_timeshift`  ->  lean/SpecKitV/Gen/TimeShift.lean

Generated definitions (namespace Gen, generic over RealLike α, Mathlib-free):

  timeshift (data shifts : Arr α) (order : Int) : Option (Arr α)
      the WHOLE body of dsp.timeshift, statement by statement.  `shifts` is the array `np.asarray(shifts)` (a Python float is the
      array of size 1), `none` is a raised exception, a scalar result (`data.item()`) is the one-element array.
      * `raise` statements are translated (`none`), not dropped; so are the places where NumPy / Python itself raises: every translated
        call or subscript that can raise contributes its rejection condition (NpTS.indexRejects / takeRejects / padRejects /
        einsumRejects, empty operands of np.correlate, a window longer than the array, a negative repeat count, `.item()` of a
        size != 1, elementwise operands of different lengths, `lagrange_taps` with halfp <= 0) and the statement becomes
        `if <rejected> then none else …`.  The equality theorems therefore also show that none of these fires on valid input.
      * NumPy calls become the stated contracts of lean/SpecKitV/Np/TimeShift.lean (NpTS.padEdge, padZero, slice, correlateValid,
        convolveValid, reverse, clip, slidingWindow, take, einsumRowDot, repeat, all, item, ofScalar);
      * elementwise NumPy expressions (arithmetic, comparisons, np.floor/trunc/ceil/round, .astype(int), np.clip, np.arange) become
        `Arr.memo ⟨len, fun i_ => …⟩` with the scalar operation of the source inside (operands, order, literals as written);
      * `lagrange_taps(shift_fracs, halfp)` is a CALL of the already translated `Gen.lagrange_taps` (Gen/Dsp.lean), once per shift.
  df_timeshift_samples (fs seconds : α) : α          the 2nd argument of the `timeshift(...)` call in df_timeshift's column loop
  df_timeshift_noop (seconds : α) : Bool             the test of `if seconds == 0.0: return df`
  df_timeshift_order : Int                           the interpolation order of that call (its `order=` keyword, else timeshift's default)
  df_timeshift_numeric_kinds : String                the dtype kinds that are shifted (`df[c].dtype.kind not in "biufc"` -> skipped)
  df_timeshift_column (col) (fs seconds)             what is stored for ONE selected numeric column: composition of the above

Dropped as value-irrelevant (checked syntactically, anything else in their place is Unsupported):
  * docstrings; `logger.<level>(...)` expression statements;
  * `x = np.asarray(x)` is translated as the identity on an array parameter (`let x : Arr α := x`);
  * in df_timeshift: the argument validation (`isinstance` / `df.empty` / `np.isfinite(fs) … fs <= 0` raises), `df.copy()`, the
    resolution of `columns` (None -> all columns, missing names raise), the pandas stores `df_shifted[...] = shifted` and the `truncate`
    post-processing (outside the property).  The column loop is accepted only in the shape
        for c in columns:  if df[c].dtype.kind not in "<kinds>": <log>; continue
                           shifted = timeshift(df[c].to_numpy(), <arithmetic in fs, seconds>[, order=<int>])
                           if inplace: df_shifted[c] = shifted  else: df_shifted[f"{c}{suffix}"] = shifted
Not modelled: the exception TYPE and message (any raise is `none`); broadcasting of a size-1 operand against a longer one inside an
elementwise expression or einsum (translated as a rejection; it does not occur in the source: the guard `data.size != shifts.size` and
the branch `shifts.size == 1` exclude it, and the differential run would show it).
Everything else is derived from the AST; a construct without a rule raises Unsupported and the function becomes a stub that fails to build.
"""
from __future__ import annotations

import ast
import os
from typing import Dict, List, Optional, Tuple

from ..translate import FnTranslator, FnInfo, Env, Val, Unsupported, HEADER, parse_functions, sha_of

REGION = "TimeShift"
SOURCES = ["speckit/dsp.py"]

VEC_KINDS = ("A", "AZ", "AB", "AA")
ELEM_OF = {"A": "R", "AZ": "Z", "AB": "B", "AA": "A"}
ROUNDERS = {"floor": "RealLike.floor", "trunc": "RealLike.trunc", "fix": "RealLike.trunc", "ceil": "RealLike.ceil",
            "round": "RealLike.roundEven", "rint": "RealLike.roundEven", "around": "RealLike.roundEven"}


def _np_name(f: ast.AST) -> Optional[str]:
    """`np.<name>` / `np.lib.stride_tricks.<name>` -> name"""
    u = ast.unparse(f)
    if u.startswith("np.") and u.count(".") == 1:
        return u[3:]
    if u == "np.lib.stride_tricks.sliding_window_view":
        return "sliding_window_view"
    return None


class TSTranslator(FnTranslator):
    """FnTranslator + 1-D NumPy array statements (array-level calls, elementwise expressions, slices, fancy indexing),
    `raise` as `none`, results as `some …`"""
    LT_ALL = dict(FnTranslator.LT_ALL, AA="Arr (Arr α)", OA="Option (Arr α)")

    def __init__(self, *a, **kw):
        super().__init__(*a, **kw)
        self.rowwise: Dict = {}          # known functions translated for ONE element of their first (array) argument -> their rejection conditions
        self.in_pw = False               # inside the element function of an elementwise expression
        self.guards: List[str] = []      # Bool codes: "NumPy / Python raises here" conditions of the statement being translated

    def guard(self, code: str, lineno: int = 0):
        """the call / subscript just translated raises (ValueError / IndexError) iff `code`: the statement becomes `if code then none else …`"""
        import re as _re
        if self.in_pw and _re.search(r"\bi_\b", code):
            raise Unsupported(f"line {lineno}: a call that can raise depends on the element index of an elementwise expression")
        if code not in self.guards:
            self.guards.append(code)

    def take_guards(self) -> List[str]:
        g, self.guards = self.guards, []
        return g

    def guarded(self, g: List[str], ind: str, cont) -> str:
        if not g:
            return cont(ind)
        self.ret_kind = "OA"
        return f"{ind}if ({' || '.join(g)}) then\n{ind}  none\n{ind}else\n" + cont(ind + "  ")

    # ------------------------------------------------------------------ classification
    def is_vec(self, e: ast.AST, env: Env) -> bool:
        """does `e` denote a 1-D array built elementwise from named arrays / np.arange (NumPy broadcasting of equal shapes)?"""
        if isinstance(e, ast.Name):
            return env.kinds.get(e.id) in ("A", "AZ", "AB")
        if isinstance(e, ast.Call) and ast.unparse(e.func) == "np.arange":
            return True
        return self.is_elementwise(e, env)

    def is_elementwise(self, e: ast.AST, env: Env) -> bool:
        if isinstance(e, ast.BinOp):
            return self.is_vec(e.left, env) or self.is_vec(e.right, env)
        if isinstance(e, ast.UnaryOp) and isinstance(e.op, ast.USub):
            return self.is_vec(e.operand, env)
        if isinstance(e, ast.Compare) and len(e.ops) == 1:
            return self.is_vec(e.left, env) or self.is_vec(e.comparators[0], env)
        if isinstance(e, ast.Call):
            if ast.unparse(e.func) == "np.arange":
                return True
            nm = _np_name(e.func)
            if nm in ROUNDERS and len(e.args) == 1 and not e.keywords:
                return self.is_vec(e.args[0], env)
            if nm in ("clip", "minimum", "maximum") and e.args:
                return any(self.is_vec(a, env) for a in e.args)
            if isinstance(e.func, ast.Attribute) and e.func.attr == "astype":
                return self.is_vec(e.func.value, env)
            if isinstance(e.func, ast.Name) and e.func.id in self.rowwise and e.args:
                return self.is_vec(e.args[0], env)
        return False

    # ------------------------------------------------------------------ expressions
    def expr(self, e: ast.AST, env: Env) -> Val:
        for n in ast.walk(e):
            if isinstance(n, ast.Name) and n.id == "i_":
                raise Unsupported(f"line {n.lineno}: the identifier i_ is reserved")
        if not env.pw and self.is_elementwise(e, env):
            return self.vector_value(e, env)
        if isinstance(e, ast.Name) and env.pw and env.kinds.get(e.id) in ("A", "AZ", "AB"):
            return Val(f"({e.id}.get i_)", ELEM_OF[env.kinds[e.id]])
        if isinstance(e, ast.IfExp):
            c = self.expr(e.test, env)
            if c.kind != "B":
                raise Unsupported(f"line {e.lineno}: conditional expression on a value of kind {c.kind}")
            outer = self.take_guards()
            a = self.expr(e.body, env)
            ga = [f"({c.code} && {g})" for g in self.take_guards()]              # raises only if that branch is evaluated
            b = self.expr(e.orelse, env)
            gb = [f"((!{c.code}) && {g})" for g in self.take_guards()]
            self.guards = outer + ga + gb
            if a.kind != b.kind:
                if {a.kind, b.kind} == {"R", "A"}:
                    a, b = self.as_array(a), self.as_array(b)      # scalar | array result: the scalar is the one-element array
                elif {a.kind, b.kind} <= {"N", "Z"}:
                    a, b = self.coerce(a, "Z"), self.coerce(b, "Z")
                elif "R" in (a.kind, b.kind) and {a.kind, b.kind} <= {"R", "N", "Z"}:
                    a, b = self.to_real(a), self.to_real(b)
                else:
                    raise Unsupported(f"line {e.lineno}: conditional expression with branches of kinds {a.kind},{b.kind}")
            return Val(f"(if {c.code} then {a.code} else {b.code})", a.kind)
        if isinstance(e, ast.BoolOp):
            n0 = None
            vals = []
            for j, x in enumerate(e.values):
                vals.append(self.expr(x, env))
                if j == 0:
                    n0 = len(self.guards)
            if len(self.guards) != n0:
                raise Unsupported(f"line {e.lineno}: a call that can raise inside a short-circuit operand")
            if any(v.kind != "B" for v in vals):
                raise Unsupported(f"line {e.lineno}: and/or on non-booleans")
            op = " && " if isinstance(e.op, ast.And) else " || "
            return Val("(" + op.join(v.code for v in vals) + ")", "B")
        return super().expr(e, env)

    def as_array(self, v: Val) -> Val:
        if v.kind == "A":
            return v
        if v.kind == "R":
            return Val(f"(NpTS.ofScalar {v.code})", "A")
        raise Unsupported(f"a value of kind {v.kind} where an array result is expected")

    def as_int(self, v: Val, what: str, lineno: int) -> Val:
        if v.kind == "Z":
            return v
        if v.kind == "N":
            return Val(f"(({v.code} : Nat) : Int)", "Z")
        raise Unsupported(f"line {lineno}: {what} of kind {v.kind} (integer expected)")

    def vec_len(self, e: ast.AST, env: Env) -> str:
        """length of an elementwise expression: its first array operand in source order; NumPy raises (broadcast error) unless the
        others have the same length (broadcasting of a size-1 operand against a longer one is NOT modelled: translated as a rejection)"""
        e0 = env.copy()
        e0.pw = False
        lens: List[str] = []

        def leaves(x: ast.AST):
            if isinstance(x, ast.Name) and env.kinds.get(x.id) in ("A", "AZ", "AB"):
                lens.append(f"{x.id}.n")
                return
            if isinstance(x, ast.Call) and ast.unparse(x.func) == "np.arange":
                if len(x.args) != 1 or x.keywords:
                    raise Unsupported(f"line {x.lineno}: np.arange form")
                k = self.as_int(self.expr(x.args[0], e0), "np.arange bound", x.lineno)
                lens.append(f"(Int.toNat {k.code})")
                return
            if isinstance(x, ast.Subscript) or (isinstance(x, ast.Attribute) and x.attr in ("size", "shape", "ndim", "dtype")):
                return                      # a scalar read inside the expression
            for c in ast.iter_child_nodes(x):
                if isinstance(c, ast.expr):
                    leaves(c)
        leaves(e)
        if not lens:
            raise Unsupported(f"line {getattr(e, 'lineno', '?')}: elementwise expression without an array operand")
        for l in lens[1:]:
            if l != lens[0]:
                self.guard(f"(decide ({l} ≠ {lens[0]}))", getattr(e, "lineno", 0))
        return lens[0]

    def vector_value(self, e: ast.AST, env: Env) -> Val:
        ln = self.vec_len(e, env)
        e2 = env.copy()
        e2.pw = True
        self.in_pw = True
        try:
            v = self.expr(e, e2)
        finally:
            self.in_pw = False
        if v.kind == "N":
            v = Val(f"(({v.code} : Nat) : Int)", "Z")
        kind = {"R": "A", "Z": "AZ", "B": "AB", "A": "AA"}.get(v.kind)
        if kind is None:
            raise Unsupported(f"line {getattr(e, 'lineno', '?')}: elementwise expression with elements of kind {v.kind}")
        code = f"(Arr.memo {v.code})" if v.kind == "A" else v.code          # rows are evaluated once, like the array itself
        return Val(f"(Arr.memo (⟨{ln}, fun i_ => {code}⟩ : {self.LT_ALL[kind]}))", kind)

    def binop(self, e: ast.BinOp, env: Env) -> Val:
        if isinstance(e.op, ast.Mod):
            a, b = self.expr(e.left, env), self.expr(e.right, env)
            if a.kind in ("N", "Z") and b.kind in ("N", "Z"):
                return Val(f"(Int.fmod ({a.code} : Int) ({b.code} : Int))", "Z")      # Python % on ints: sign of the divisor
            raise Unsupported(f"line {e.lineno}: % on kinds {a.kind},{b.kind}")
        if isinstance(e.op, ast.Sub):
            a, b = self.expr(e.left, env), self.expr(e.right, env)
            if a.kind == "N" and b.kind == "N":
                return Val(f"(({a.code} : Int) - ({b.code} : Int))", "Z")             # Python ints are signed
        return super().binop(e, env)

    def attribute(self, e: ast.Attribute, env: Env) -> Val:
        if e.attr == "size" and isinstance(e.value, ast.Name) and env.kinds.get(e.value.id) in VEC_KINDS:
            return Val(f"(({e.value.id}.n : Nat) : Int)", "Z")
        return super().attribute(e, env)

    def subscript(self, e: ast.Subscript, env: Env) -> Val:
        e0 = env.copy()
        e0.pw = False
        base = self.expr(e.value, e0)
        if base.kind not in VEC_KINDS:
            raise Unsupported(f"line {e.lineno}: subscript of a value of kind {base.kind}")
        sl = e.slice
        if isinstance(sl, ast.Slice):
            if base.kind not in ("A", "AZ"):
                raise Unsupported(f"line {e.lineno}: slice of a value of kind {base.kind}")
            if sl.step is not None:
                if sl.lower is None and sl.upper is None and ast.unparse(sl.step) == "-1":
                    return Val(f"(NpTS.reverse {base.code})", base.kind)
                raise Unsupported(f"line {e.lineno}: slice with a step")
            lo = Val("(0 : Int)", "Z") if sl.lower is None else self.as_int(self.expr(sl.lower, e0), "slice bound", e.lineno)
            hi = (Val(f"(({base.code}).n : Int)", "Z") if sl.upper is None else self.as_int(self.expr(sl.upper, e0), "slice bound", e.lineno))
            return Val(f"(NpTS.slice {base.code} {lo.code} {hi.code})", base.kind)
        idx = self.expr(sl, e0)
        if idx.kind in ("N", "Z"):
            z = self.as_int(idx, "index", e.lineno)
            self.guard(f"(NpTS.indexRejects ({base.code}).n {z.code})", e.lineno)                           # IndexError
            if idx.kind == "N":
                return Val(f"({base.code}.get {idx.code})", ELEM_OF[base.kind])
            return Val(f"({base.code}.get (Np.pyIndex ({base.code}).n {idx.code}))", ELEM_OF[base.kind])   # negative: from the end
        if idx.kind == "AZ":
            self.guard(f"(NpTS.takeRejects ({base.code}).n {idx.code})", e.lineno)                          # IndexError
            return Val(f"(NpTS.take {base.code} {idx.code})", base.kind)
        raise Unsupported(f"line {e.lineno}: index of kind {idx.kind}")

    def call(self, e: ast.Call, env: Env) -> Val:
        f = e.func
        nm = _np_name(f)
        kws = {k.arg: k.value for k in e.keywords}
        e0 = env.copy()
        e0.pw = False
        # ---- elementwise (reached in pointwise mode from vector_value, or on scalars)
        if nm in ROUNDERS and len(e.args) == 1 and not kws:
            v = self.to_real(self.expr(e.args[0], env))
            return Val(f"((RealLike.ofInt ({ROUNDERS[nm]} {v.code})) : α)", "R")            # np.floor & co. keep the float dtype
        if nm == "clip" and len(e.args) == 3 and not kws:
            x, lo, hi = (self.expr(a, env) for a in e.args)
            if all(v.kind in ("N", "Z") for v in (x, lo, hi)):
                x, lo, hi = (self.as_int(v, "np.clip operand", e.lineno) for v in (x, lo, hi))
                return Val(f"(NpTS.clip {x.code} {lo.code} {hi.code})", "Z")
            return super().call(e, env)
        if isinstance(f, ast.Attribute) and f.attr == "astype":
            if len(e.args) != 1 or kws or ast.unparse(e.args[0]) not in ("int", "np.int64"):
                raise Unsupported(f"line {e.lineno}: astype form")
            v = self.expr(f.value, env)
            if v.kind in ("N", "Z"):
                return v
            if v.kind == "R":
                return Val(f"(RealLike.trunc {v.code})", "Z")                               # C cast: towards zero
            raise Unsupported(f"line {e.lineno}: astype of a value of kind {v.kind}")
        if isinstance(f, ast.Name) and f.id in self.rowwise:
            v = super().call(e, env)
            for cond in self.rowwise[f.id](e, self, e0):
                self.guard(cond, e.lineno)
            return v
        # ---- array-level calls (never inside an elementwise expression)
        if env.pw and (nm in ("pad", "correlate", "convolve", "sliding_window_view", "einsum", "repeat", "all", "asarray")
                       or (isinstance(f, ast.Attribute) and f.attr == "item")):
            raise Unsupported(f"line {e.lineno}: array-level call {ast.unparse(f)} inside an elementwise expression (bind it to a name)")
        if nm == "asarray" and len(e.args) == 1 and not kws:
            v = self.expr(e.args[0], e0)
            if v.kind not in ("A", "AZ"):
                raise Unsupported(f"line {e.lineno}: np.asarray of a value of kind {v.kind}")
            return v                                                                         # already an array: the identity
        if nm == "all" and len(e.args) == 1 and not kws:
            v = self.expr(e.args[0], e0)
            if v.kind != "AB":
                raise Unsupported(f"line {e.lineno}: np.all of a value of kind {v.kind}")
            return Val(f"(NpTS.all {v.code})", "B")
        if isinstance(f, ast.Attribute) and f.attr == "item" and not e.args and not kws:
            v = self.expr(f.value, e0)
            if v.kind not in ("A", "AZ"):
                raise Unsupported(f"line {e.lineno}: .item() of a value of kind {v.kind}")
            self.guard(f"(decide (({v.code}).n ≠ 1))", e.lineno)                                       # ValueError unless size 1
            return Val(f"(NpTS.item {v.code})", ELEM_OF[v.kind])
        if nm == "repeat" and len(e.args) == 2 and not kws:
            x = self.expr(e.args[0], e0)
            n = self.as_int(self.expr(e.args[1], e0), "np.repeat count", e.lineno)
            if x.kind != "R":
                raise Unsupported(f"line {e.lineno}: np.repeat of a value of kind {x.kind}")
            self.guard(f"(decide ({n.code} < (0 : Int)))", e.lineno)                                   # ValueError: negative dimensions
            return Val(f"(NpTS.repeat {x.code} {n.code})", "A")
        if nm == "pad" and len(e.args) == 2:
            x = self.expr(e.args[0], e0)
            if x.kind != "A":
                raise Unsupported(f"line {e.lineno}: np.pad of a value of kind {x.kind}")
            w = e.args[1]
            if isinstance(w, ast.Tuple) and len(w.elts) == 2:
                l, r = (self.as_int(self.expr(t, e0), "pad width", e.lineno) for t in w.elts)
            elif isinstance(w, ast.Tuple):
                raise Unsupported(f"line {e.lineno}: pad width tuple of length {len(w.elts)}")
            else:
                l = r = self.as_int(self.expr(w, e0), "pad width", e.lineno)                 # one width: both sides
            if set(kws) - {"mode"}:
                raise Unsupported(f"line {e.lineno}: np.pad keywords {sorted(kws)}")
            mode = kws.get("mode")
            if mode is not None and not (isinstance(mode, ast.Constant) and isinstance(mode.value, str)):
                raise Unsupported(f"line {e.lineno}: np.pad mode is not a string literal")
            m = "constant" if mode is None else mode.value
            if m == "edge":
                self.guard(f"(NpTS.padRejects ({x.code}).n {l.code} {r.code} true)", e.lineno)
                return Val(f"(NpTS.padEdge {x.code} {l.code} {r.code})", "A")
            if m == "constant":
                self.guard(f"(NpTS.padRejects ({x.code}).n {l.code} {r.code} false)", e.lineno)
                return Val(f"(NpTS.padZero {x.code} {l.code} {r.code})", "A")
            raise Unsupported(f"line {e.lineno}: np.pad mode {m!r}")
        if nm in ("correlate", "convolve") and len(e.args) == 2:
            a, v = self.expr(e.args[0], e0), self.expr(e.args[1], e0)
            if a.kind != "A" or v.kind != "A":
                raise Unsupported(f"line {e.lineno}: np.{nm} of values of kinds {a.kind},{v.kind}")
            mode = kws.get("mode")
            if set(kws) - {"mode"} or not (isinstance(mode, ast.Constant) and mode.value == "valid"):
                raise Unsupported(f"line {e.lineno}: np.{nm} is translated for mode='valid' only")
            self.guard(f"(decide (({a.code}).n = 0 ∨ ({v.code}).n = 0))", e.lineno)                     # ValueError: empty operand
            return Val(f"(NpTS.{nm}Valid {a.code} {v.code})", "A")
        if nm == "sliding_window_view" and len(e.args) == 2 and not kws:
            x = self.expr(e.args[0], e0)
            w = self.as_int(self.expr(e.args[1], e0), "window length", e.lineno)
            if x.kind != "A":
                raise Unsupported(f"line {e.lineno}: sliding_window_view of a value of kind {x.kind}")
            self.guard(f"(decide ({w.code} < (0 : Int) ∨ {w.code} > ((({x.code}).n : Nat) : Int)))", e.lineno)   # ValueError
            return Val(f"(NpTS.slidingWindow {x.code} {w.code})", "AA")
        if nm == "einsum" and len(e.args) == 3 and not kws:
            spec = e.args[0]
            if not (isinstance(spec, ast.Constant) and isinstance(spec.value, str) and spec.value.replace(" ", "") == "ij,ij->i"):
                raise Unsupported(f"line {e.lineno}: np.einsum subscripts {ast.unparse(spec)} (only 'ij,ij->i')")
            a, b = self.expr(e.args[1], e0), self.expr(e.args[2], e0)
            if a.kind != "AA" or b.kind != "AA":
                raise Unsupported(f"line {e.lineno}: np.einsum operands of kinds {a.kind},{b.kind}")
            self.guard(f"(NpTS.einsumRejects {a.code} {b.code})", e.lineno)                             # ValueError: shapes differ
            return Val(f"(NpTS.einsumRowDot {a.code} {b.code})", "A")
        return super().call(e, env)

    # ------------------------------------------------------------------ statements
    @staticmethod
    def is_log(s: ast.stmt) -> bool:
        return (isinstance(s, ast.Expr) and isinstance(s.value, ast.Call) and isinstance(s.value.func, ast.Attribute)
                and isinstance(s.value.func.value, ast.Name) and s.value.func.value.id == "logger"
                and s.value.func.attr in ("debug", "info", "warning", "error", "critical"))

    def block(self, stmts: List[ast.stmt], env: Env, ind: str, final) -> str:
        if not stmts:
            if final is None:
                raise Unsupported(f"{self.fn.name}: control reaches the end of the function without return")
            return ind + final(env)
        s, rest = stmts[0], stmts[1:]
        if self.is_log(s):
            return self.block(rest, env, ind, final)
        if isinstance(s, ast.Expr) and isinstance(s.value, ast.Constant) and isinstance(s.value.value, str):
            return self.block(rest, env, ind, final)
        if isinstance(s, ast.Raise):
            if rest:
                raise Unsupported(f"line {s.lineno}: code after raise")
            self.ret_kind = "OA"
            return ind + "none"
        if isinstance(s, ast.Return):
            if rest:
                raise Unsupported(f"line {s.lineno}: code after return")
            if s.value is None:
                raise Unsupported(f"line {s.lineno}: bare return")
            self.guards = []
            v = self.as_array(self.expr(s.value, env))
            self.ret_kind = "OA"
            return self.guarded(self.take_guards(), ind, lambda i2: i2 + f"some {v.code}")
        if isinstance(s, ast.Assign) and len(s.targets) == 1 and isinstance(s.targets[0], ast.Name):
            name = s.targets[0].id
            self.guards = []
            v = self.expr(s.value, env)
            if v.kind == "N":
                v = Val(f"(({v.code} : Nat) : Int)", "Z")                                   # Python ints are signed
            if v.kind not in self.LT_ALL or v.kind == "OA":
                raise Unsupported(f"line {s.lineno}: assignment of a value of kind {v.kind}")
            env = env.copy()
            env.kinds[name] = v.kind
            return self.guarded(self.take_guards(), ind,
                                lambda i2: f"{i2}let {name} : {self.LT_ALL[v.kind]} := {v.code}\n" + self.block(rest, env, i2, final))
        if isinstance(s, ast.If):
            return self.if_stmt(s, rest, env, ind, final)
        return super().block(stmts, env, ind, final)

    def if_stmt(self, s: ast.If, rest, env: Env, ind: str, final) -> str:
        self.guards = []
        c = self.expr(s.test, env)
        if c.kind != "B":
            raise Unsupported(f"line {s.lineno}: if condition of kind {c.kind}")
        g = self.take_guards()
        body = [b for b in s.body if not self.is_log(b)]
        if body and isinstance(body[-1], (ast.Return, ast.Raise)) and not s.orelse:
            def cont(i2: str) -> str:
                then_code = self.block(s.body, env, i2 + "  ", None)
                else_code = self.block(rest, env, i2 + "  ", final)
                return f"{i2}if {c.code} then\n{then_code}\n{i2}else\n{else_code}"
            return self.guarded(g, ind, cont)
        if g:
            raise Unsupported(f"line {s.lineno}: a call that can raise in the test of a general if statement")
        return super().if_stmt(s, rest, env, ind, final)


class ScalarTranslator(TSTranslator):
    """a plain scalar function: `return e` is the value `e` (no Option wrapper)"""
    def block(self, stmts, env, ind, final):
        code = FnTranslator.block(self, stmts, env, ind, final)
        if self.guards:
            raise Unsupported(f"{self.fn.name}: a call that can raise in a scalar expression")
        return code


# ------------------------------------------------------------------------------------------ df_timeshift
def _df_parts(fn: ast.FunctionDef, default_order: Optional[ast.AST]) -> Tuple[ast.AST, ast.AST, ast.AST, str, int]:
    """(shift expression, no-op test, order expression, numeric kinds, line of the call) of df_timeshift; shape-checked"""
    params = [a.arg for a in fn.args.args]
    if params[:3] != ["df", "fs", "seconds"]:
        raise Unsupported(f"df_timeshift: parameters {params[:3]} (expected df, fs, seconds)")
    noop = [st for st in fn.body if isinstance(st, ast.If) and not st.orelse and len(st.body) == 1 and isinstance(st.body[0], ast.Return)
            and ast.unparse(st.body[0].value) == "df"]
    if len(noop) != 1:
        raise Unsupported(f"df_timeshift: {len(noop)} statements of the form `if <test>: return df` (expected 1)")
    loops = [st for st in fn.body if isinstance(st, ast.For)]
    if len(loops) != 1 or ast.unparse(loops[0].iter) != "columns" or not isinstance(loops[0].target, ast.Name) or loops[0].orelse:
        raise Unsupported("df_timeshift: the column loop `for c in columns:` was not found (exactly one for-loop expected)")
    if fn.body.index(noop[0]) > fn.body.index(loops[0]):
        raise Unsupported("df_timeshift: the no-op test comes after the column loop")
    c = loops[0].target.id
    body = [b for b in loops[0].body if not TSTranslator.is_log(b)]
    if len(body) != 3:
        raise Unsupported(f"df_timeshift: column loop body has {len(body)} statements (expected: dtype test, timeshift call, store)")
    g, call_st, store = body
    # 1. the dtype guard
    if not (isinstance(g, ast.If) and not g.orelse and isinstance(g.test, ast.Compare) and len(g.test.ops) == 1
            and isinstance(g.test.ops[0], ast.NotIn) and ast.unparse(g.test.left) == f"df[{c}].dtype.kind"
            and isinstance(g.test.comparators[0], ast.Constant) and isinstance(g.test.comparators[0].value, str)):
        raise Unsupported(f"df_timeshift line {g.lineno}: column guard is not `if df[{c}].dtype.kind not in \"<kinds>\":`")
    gb = [b for b in g.body if not TSTranslator.is_log(b)]
    if not (len(gb) == 1 and isinstance(gb[0], ast.Continue)):
        raise Unsupported(f"df_timeshift line {g.lineno}: the non-numeric branch must skip the column (`continue`)")
    kinds = g.test.comparators[0].value
    # 2. the call
    if not (isinstance(call_st, ast.Assign) and len(call_st.targets) == 1 and isinstance(call_st.targets[0], ast.Name)
            and isinstance(call_st.value, ast.Call) and ast.unparse(call_st.value.func) == "timeshift"):
        raise Unsupported(f"df_timeshift line {call_st.lineno}: expected `<name> = timeshift(...)`")
    call = call_st.value
    res = call_st.targets[0].id
    kw = {k.arg: k.value for k in call.keywords}
    if len(call.args) not in (2, 3) or set(kw) - {"order"} or (len(call.args) == 3 and "order" in kw):
        raise Unsupported(f"df_timeshift line {call.lineno}: timeshift call form")
    if ast.unparse(call.args[0]) != f"df[{c}].to_numpy()":
        raise Unsupported(f"df_timeshift line {call.lineno}: first argument {ast.unparse(call.args[0])} is not the column df[{c}].to_numpy()")
    order = call.args[2] if len(call.args) == 3 else kw.get("order", default_order)
    if order is None:
        raise Unsupported("timeshift: parameter `order` has no default and df_timeshift passes none")
    # 3. the store of the result under the column's own / suffixed name
    ok = (isinstance(store, ast.If) and ast.unparse(store.test) == "inplace" and len(store.body) == 1 and len(store.orelse) == 1
          and ast.unparse(store.body[0]) == f"df_shifted[{c}] = {res}"
          and ast.unparse(store.orelse[0]) == f"df_shifted[f'{{{c}}}{{suffix}}'] = {res}")
    if not ok:
        raise Unsupported(f"df_timeshift line {store.lineno}: the result is not stored as df_shifted[{c}] / df_shifted[f\"{{{c}}}{{suffix}}\"]")
    return call.args[1], noop[0].test, order, kinds, call.lineno


def _mkfn(name: str, params: List[str], value: ast.AST, path: str, lineno: int) -> ast.FunctionDef:
    fn = ast.FunctionDef(name=name, args=ast.arguments(posonlyargs=[], args=[ast.arg(arg=a) for a in params], kwonlyargs=[], kw_defaults=[], defaults=[]),
                         body=[ast.Return(value=value)], decorator_list=[], lineno=lineno)
    ast.fix_missing_locations(fn)
    fn.lineno, fn.end_lineno = lineno, getattr(value, "end_lineno", lineno)
    fn.__dict__["_file"] = path
    return fn


def _stub(name: str, ex: Exception) -> str:
    msg = str(ex).replace("-/", "- /")
    return f"/- UNSUPPORTED {name}: {msg} -/\ndef {name}_UNSUPPORTED : Nat := translation_failed_{name}\n\n"


def generate(repo: str) -> Tuple[str, List[str]]:
    path = os.path.join(repo, SOURCES[0])
    out = HEADER.format(src=SOURCES[0], sha=sha_of(path)).replace(
        "import SpecKitV.Num\n", "import SpecKitV.Num\nimport SpecKitV.Np.TimeShift\nimport SpecKitV.Gen.Dsp\n")
    out += ("/-! region TimeShift (vk/regions/time_shift.py).  `none` = the Python raises (explicit `raise`, or a NumPy / indexing rejection: the\n"
            "    `if (… Rejects …) then none` guards).  Dropped as value-irrelevant: docstrings, `logger.*(...)` statements; `x = np.asarray(x)` is the\n"
            "    identity; of df_timeshift only the shift arithmetic, the no-op test, the order and the dtype-kind filter are translated (argument\n"
            "    validation, `df.copy()`, column resolution, pandas stores and `truncate` are not). -/\n\n")
    errors: List[str] = []
    fns = parse_functions(path)
    # `lagrange_taps` is translated in Gen/Dsp.lean for ONE fractional shift (every statement of it is elementwise along the shift axis:
    # established by vk.translate.gen_dsp, which fails otherwise); here it is CALLED once per element of its first argument.
    known: Dict[str, FnInfo] = {"lagrange_taps": FnInfo("lagrange_taps", ["R", "Z"], "A")}
    ts_ok = False
    try:
        if "timeshift" not in fns:
            raise Unsupported("function not found")
        fn = fns["timeshift"]
        params = [a.arg for a in fn.args.args]
        if params != ["data", "shifts", "order"] or fn.args.vararg or fn.args.kwarg or fn.args.kwonlyargs:
            raise Unsupported(f"timeshift: parameters {params} (expected data, shifts, order)")
        if "lagrange_taps" not in fns or [a.arg for a in fns["lagrange_taps"].args.args] != ["shift_fracs", "halfp"]:
            raise Unsupported("lagrange_taps(shift_fracs, halfp) not found")
        tr = TSTranslator(fn, {"data": "A", "shifts": "A", "order": "Z"}, known, "timeshift")
        # stated contract: lagrange_taps raises for halfp <= 0 (np.zeros of a negative shape / store into a table without rows)
        tr.rowwise = {"lagrange_taps": lambda call, t, e0: [f"(decide ({t.as_int(t.expr(call.args[1], e0), 'halfp', call.lineno).code} ≤ (0 : Int)))"]}
        text, _ = tr.translate()
        out += text + "\n"
        ts_ok = True
    except Unsupported as ex:
        errors.append(f"timeshift: {ex}")
        out += _stub("timeshift", ex)
    try:
        if "df_timeshift" not in fns:
            raise Unsupported("function not found")
        if not ts_ok:
            raise Unsupported("timeshift itself was not translated")
        tsf = fns["timeshift"]
        defaults = dict(zip([a.arg for a in tsf.args.args][-len(tsf.args.defaults):], tsf.args.defaults)) if tsf.args.defaults else {}
        shift_e, noop_e, order_e, kinds, line = _df_parts(fns["df_timeshift"], defaults.get("order"))
        if not (isinstance(order_e, ast.Constant) and isinstance(order_e.value, int) and not isinstance(order_e.value, bool)):
            raise Unsupported(f"df_timeshift: interpolation order {ast.unparse(order_e)} is not an integer literal")
        if any(ord(ch) > 127 or ch in '"\\' for ch in kinds):
            raise Unsupported(f"df_timeshift: dtype kinds {kinds!r}")
        t1 = ScalarTranslator(_mkfn("df_timeshift_samples", ["fs", "seconds"], shift_e, path, line), {"fs": "R", "seconds": "R"}, {}, "df_timeshift_samples")
        text1, info1 = t1.translate()
        if info1.ret_kind != "R":
            raise Unsupported(f"df_timeshift line {line}: the shift argument is of kind {info1.ret_kind}")
        t2 = ScalarTranslator(_mkfn("df_timeshift_noop", ["seconds"], noop_e, path, noop_e.lineno), {"seconds": "R"}, {}, "df_timeshift_noop")
        text2, info2 = t2.translate()
        if info2.ret_kind != "B":
            raise Unsupported(f"df_timeshift line {noop_e.lineno}: the no-op test is not a comparison")
        out += text1 + "\n" + text2 + "\n"
        out += f"/-- dsp.py:{line} interpolation order of the `timeshift` call in df_timeshift (keyword, else the default of `timeshift`) -/\n"
        out += f"def df_timeshift_order : Int := ({order_e.value} : Int)\n\n"
        out += "/-- dsp.py: dtype kinds of the columns df_timeshift shifts (any other selected column is skipped) -/\n"
        out += f"def df_timeshift_numeric_kinds : String := \"{kinds}\"\n\n"
        out += (f"/-- dsp.py:{noop_e.lineno},{line} what df_timeshift stores for ONE selected numeric column `col`: the column itself if the no-op test holds\n"
                "    (the frame is returned unchanged), else `timeshift(col, <samples>, <order>)` -/\n"
                "def df_timeshift_column (col : Arr α) (fs : α) (seconds : α) : Option (Arr α) :=\n"
                "  if df_timeshift_noop seconds then some col\n"
                "  else timeshift col (NpTS.ofScalar (df_timeshift_samples fs seconds)) df_timeshift_order\n\n")
    except Unsupported as ex:
        errors.append(f"df_timeshift: {ex}")
        out += _stub("df_timeshift", ex)
    out += "end Gen\n"
    return out, errors


if __name__ == "__main__":
    import sys
    t, errs = generate(sys.argv[1] if len(sys.argv) > 1 else os.environ.get("SPECKIT_REPO", "/repo"))
    print(t)
    print("ERRORS", errs, file=sys.stderr)
