"""Region plug-ins of the py2lean translator.

Every module `vk/regions/<name>.py` that defines

    REGION   : str                       name of the generated Lean file  lean/SpecKitV/Gen/<REGION>.lean  (namespace Gen)
    SOURCES  : List[str]                 repository files (relative to the repo root) the region is generated from
    generate(repo: str) -> (text, errors)   the full text of the Gen file and the list of reasons why (parts of) the source fell outside
                                            the accepted subset (empty = fully translated).  On an unsupported construct the text must
                                            still be a Lean file, but one that FAILS TO BUILD for the affected function (reference an
                                            undefined identifier `translation_failed_<fn>`), never a silent omission.

is picked up by `vk.translate.regenerate()`: the file is rewritten on every check run from /repo's current source, its errors are
reported under the key REGION, and property modules list REGION in GEN_REGIONS.
"""
import importlib
import pkgutil
from typing import List


def modules() -> List:
    out = []
    for m in sorted(pkgutil.iter_modules(__path__), key=lambda m: m.name):
        if m.name.startswith("_"):
            continue
        out.append(importlib.import_module(f"{__name__}.{m.name}"))
    return out
