"""Region BuildQ — `speckit.core._build_Q(L, order)`, the orthonormal polynomial detrend basis, translated literally from the AST.

The function is straight-line whole-array NumPy code: an order validation that raises, `np.linspace`, a column list handed to
`np.stack(..., axis=1)`, `np.linalg.qr(V, mode="reduced")`, `np.ascontiguousarray`.  The translated definition returns
`Option (Arr2 α)`: `none` = the Python raises (`if <test>: raise ...`), `some Q` = the returned matrix.  Every statement is carried over
from the source: the validation test, the arguments of `linspace` (literals exact), which vectors are stacked in which order (each column
an elementwise expression over the vectors bound so far), the QR mode.  The external routines are the stated contracts of
lean/SpecKitV/Np/BuildQ.lean (`Np.linspace`, `Np.ones`, `Np.stackCols`, `Np.qrReducedQ`).

Value kinds:  N Nat | Z Int | R real | B Bool | VR Arr α (1-D float array) | MR Arr2 α (2-D float array)
Anything without a rule raises Unsupported (the function then becomes a stub that fails to build).
"""
from __future__ import annotations

import ast
import os
from typing import Dict, List, Optional, Tuple

from ..translate import HEADER, Unsupported, Val, _lit_float, parse_functions, sha_of

REGION = "BuildQ"
SOURCES = ["speckit/core.py"]
FUNCTION = "_build_Q"
SIG = {"L": "N", "order": "Z"}

LT = {"N": "Nat", "Z": "Int", "R": "α", "B": "Bool", "VR": "Arr α", "MR": "Arr2 α"}
F64 = ("np.float64", "float", "'float64'", "np.double")


def _u(e: ast.AST) -> str:
    return ast.unparse(e)


class QTr:
    """`_build_Q` -> one Lean definition returning `Option (Arr2 α)`"""

    def __init__(self, fn: ast.FunctionDef, sig: Dict[str, str]):
        self.fn = fn
        self.sig = sig
        self.dropped: List[str] = []
        self.pre: List[str] = []

    # ------------------------------------------------------------------ helpers
    def bad(self, node: ast.AST, what: str) -> Unsupported:
        return Unsupported(f"line {getattr(node, 'lineno', '?')}: {what}: `{_u(node)[:80]}`")

    @staticmethod
    def np_name(f: ast.AST) -> Optional[str]:
        if isinstance(f, ast.Attribute) and isinstance(f.value, ast.Name) and f.value.id == "np":
            return f.attr
        return None

    def kwmap(self, e: ast.Call, allowed: Tuple[str, ...]) -> Dict[str, str]:
        kw = {}
        for k in e.keywords:
            if k.arg is None or k.arg not in allowed:
                raise self.bad(e, f"keyword `{k.arg}` (accepted here: {', '.join(allowed) or 'none'})")
            kw[k.arg] = _u(k.value)
        return kw

    def f64(self, e: ast.Call, kw: Dict[str, str]) -> None:
        if "dtype" in kw and kw["dtype"] not in F64:
            raise self.bad(e, f"dtype {kw['dtype']} (only float64)")

    def to_real(self, v: Val, node: ast.AST) -> Val:
        if v.kind == "R":
            return v
        if v.kind == "N":
            return Val(f"(RealLike.ofNat {v.code})", "R")
        if v.kind == "Z":
            return Val(f"(RealLike.ofInt {v.code})", "R")
        raise self.bad(node, f"a value of kind {v.kind} where a real is needed")

    def to_int(self, v: Val, node: ast.AST) -> Val:
        if v.kind == "Z":
            return v
        if v.kind == "N":
            return Val(f"(({v.code} : Nat) : Int)", "Z")
        raise self.bad(node, f"a value of kind {v.kind} where an integer is needed")

    def to_nat(self, v: Val, node: ast.AST, what: str) -> Val:
        """a count (array length): a natural number; an Int expression is converted with `Int.toNat` and its non-negativity becomes a
        stated precondition (NumPy raises for a negative count)"""
        if v.kind == "N":
            return v
        if v.kind == "Z":
            self.pre.append(f"line {getattr(node, 'lineno', '?')}: {what} `{_u(node)}` >= 0  [NumPy raises for a negative count]")
            return Val(f"(Int.toNat {v.code})", "N")
        raise self.bad(node, f"a value of kind {v.kind} where a count is needed")

    # ------------------------------------------------------------------ expressions
    def ex(self, e: ast.AST, K: Dict[str, str]) -> Val:
        if isinstance(e, ast.Constant):
            v = e.value
            if isinstance(v, bool):
                return Val("true" if v else "false", "B")
            if isinstance(v, int):
                return Val(str(v), "N") if v >= 0 else Val(f"(-({-v} : Int))", "Z")
            if isinstance(v, float):
                return Val(_lit_float(v), "R")
            raise self.bad(e, "constant")
        if isinstance(e, ast.Name):
            if e.id not in K:
                raise self.bad(e, "unknown variable")
            return Val(e.id, K[e.id])
        if isinstance(e, ast.UnaryOp) and isinstance(e.op, ast.USub):
            v = self.ex(e.operand, K)
            if v.kind == "R":
                return Val(f"(-{v.code})", "R")
            if v.kind in ("N", "Z"):
                return Val(f"(-({v.code} : Int))", "Z")
            if v.kind == "VR":
                return Val(f"(⟨{v.code}.n, fun i_ => -({v.code}.get i_)⟩ : Arr α)", "VR")
            raise self.bad(e, f"unary minus on {v.kind}")
        if isinstance(e, ast.UnaryOp) and isinstance(e.op, ast.Not):
            v = self.ex(e.operand, K)
            if v.kind != "B":
                raise self.bad(e, "`not` of a non-boolean")
            return Val(f"(!{v.code})", "B")
        if isinstance(e, ast.BoolOp):
            vs = [self.ex(x, K) for x in e.values]
            if any(v.kind != "B" for v in vs):
                raise self.bad(e, "and/or of non-booleans")
            op = " && " if isinstance(e.op, ast.And) else " || "
            return Val("(" + op.join(v.code for v in vs) + ")", "B")
        if isinstance(e, ast.BinOp):
            return self.binop(e, K)
        if isinstance(e, ast.Compare):
            return self.compare(e, K)
        if isinstance(e, ast.Subscript):
            return self.subscript(e, K)
        if isinstance(e, ast.Call):
            return self.call(e, K)
        raise self.bad(e, f"expression {type(e).__name__}")

    def binop(self, e: ast.BinOp, K: Dict[str, str]) -> Val:
        a, b = self.ex(e.left, K), self.ex(e.right, K)
        op = type(e.op)
        sym = {ast.Add: "+", ast.Sub: "-", ast.Mult: "*", ast.Div: "/"}.get(op)
        # integer arithmetic
        if a.kind in ("N", "Z") and b.kind in ("N", "Z"):
            if op in (ast.Add, ast.Mult) and a.kind == "N" and b.kind == "N":
                return Val(f"({a.code} {sym} {b.code})", "N")
            if op in (ast.Add, ast.Sub, ast.Mult):
                return Val(f"({self.to_int(a, e).code} {sym} {self.to_int(b, e).code})", "Z")
            if op is ast.FloorDiv:
                if a.kind == "N" and b.kind == "N":
                    self.pre.append(f"line {e.lineno}: `{_u(e.right)}` != 0  [ZeroDivisionError]")
                    return Val(f"({a.code} / {b.code})", "N")
                self.pre.append(f"line {e.lineno}: `{_u(e.right)}` != 0  [ZeroDivisionError]")
                return Val(f"(Int.fdiv {self.to_int(a, e).code} {self.to_int(b, e).code})", "Z")
            if op is ast.Div:
                return Val(f"({self.to_real(a, e).code} / {self.to_real(b, e).code})", "R")
            raise self.bad(e, "integer operator")
        if op is ast.Pow:
            if isinstance(e.right, ast.Constant) and isinstance(e.right.value, int) and not isinstance(e.right.value, bool) and e.right.value == 2:
                # NumPy evaluates `x ** 2` as `np.square(x)` = x*x; Python's float `x ** 2` is correctly rounded as well
                if a.kind == "VR":
                    return Val(f"(⟨{a.code}.n, fun i_ => {a.code}.get i_ * {a.code}.get i_⟩ : Arr α)", "VR")
                if a.kind == "R":
                    return Val(f"({a.code} * {a.code})", "R")
            raise self.bad(e, "power (only `** 2`)")
        if sym is None:
            raise self.bad(e, "operator")
        # elementwise on vectors (the result has the length of the LEFT-most vector operand; NumPy raises for unequal lengths)
        if a.kind == "VR" or b.kind == "VR":
            if a.kind == "VR" and b.kind == "VR":
                return Val(f"(⟨{a.code}.n, fun i_ => {a.code}.get i_ {sym} {b.code}.get i_⟩ : Arr α)", "VR")
            if a.kind == "VR":
                s = self.to_real(b, e)
                return Val(f"(⟨{a.code}.n, fun i_ => {a.code}.get i_ {sym} {s.code}⟩ : Arr α)", "VR")
            s = self.to_real(a, e)
            return Val(f"(⟨{b.code}.n, fun i_ => {s.code} {sym} {b.code}.get i_⟩ : Arr α)", "VR")
        if a.kind in ("N", "Z", "R") and b.kind in ("N", "Z", "R"):
            return Val(f"({self.to_real(a, e).code} {sym} {self.to_real(b, e).code})", "R")
        raise self.bad(e, f"arithmetic on {a.kind}, {b.kind}")

    def compare(self, e: ast.Compare, K: Dict[str, str]) -> Val:
        if len(e.ops) != 1:
            raise self.bad(e, "chained comparison")
        op = e.ops[0]
        a = self.ex(e.left, K)
        rhs = e.comparators[0]
        if isinstance(op, (ast.In, ast.NotIn)):
            if not (isinstance(rhs, (ast.Tuple, ast.List)) and rhs.elts and a.kind in ("N", "Z")):
                raise self.bad(e, "membership test (only an integer in a literal tuple/list)")
            items = [self.ex(x, K) for x in rhs.elts]
            if any(x.kind not in ("N", "Z") for x in items):
                raise self.bad(e, "membership test among non-integers")
            ai = self.to_int(a, e)
            body = "(" + " || ".join(f"decide ({ai.code} = {self.to_int(x, e).code})" for x in items) + ")"
            return Val(body if isinstance(op, ast.In) else f"(!{body})", "B")
        b = self.ex(rhs, K)
        if a.kind in ("N", "Z") and b.kind in ("N", "Z"):
            rel = {ast.Eq: "=", ast.NotEq: "≠", ast.Lt: "<", ast.LtE: "≤", ast.Gt: ">", ast.GtE: "≥"}.get(type(op))
            if rel is None:
                raise self.bad(e, "comparison operator")
            return Val(f"decide ({self.to_int(a, e).code} {rel} {self.to_int(b, e).code})", "B")
        if a.kind in ("N", "Z", "R") and b.kind in ("N", "Z", "R"):
            f = {ast.Eq: "RealLike.beq", ast.NotEq: "RealLike.bne", ast.Lt: "RealLike.lt", ast.LtE: "RealLike.le", ast.Gt: "RealLike.gt",
                 ast.GtE: "RealLike.ge"}.get(type(op))
            if f is None:
                raise self.bad(e, "comparison operator")
            return Val(f"({f} {self.to_real(a, e).code} {self.to_real(b, e).code})", "B")
        raise self.bad(e, f"comparison of {a.kind}, {b.kind}")

    def subscript(self, e: ast.Subscript, K: Dict[str, str]) -> Val:
        v = self.ex(e.value, K)
        if v.kind != "VR":
            raise self.bad(e, f"subscript on a value of kind {v.kind}")
        s = e.slice
        if isinstance(s, ast.Slice):
            if s.step is not None:
                raise self.bad(e, "slice step")
            lo = self.to_int(self.ex(s.lower, K), e).code if s.lower is not None else "(0 : Int)"
            hi = self.to_int(self.ex(s.upper, K), e).code if s.upper is not None else f"(({v.code}.n : Nat) : Int)"
            return Val(f"(Np.slice {v.code} {lo} {hi})", "VR")
        raise self.bad(e, "subscript form (only `v[lo:hi]`)")

    def call(self, e: ast.Call, K: Dict[str, str]) -> Val:
        nm = self.np_name(e.func)
        if nm == "linspace":
            kw = self.kwmap(e, ("dtype", "endpoint", "num"))
            self.f64(e, kw)
            if kw.get("endpoint", "True") != "True":
                raise self.bad(e, "linspace(endpoint=...) other than True")
            args = list(e.args)
            if "num" in kw:
                args.append([k.value for k in e.keywords if k.arg == "num"][0])
            if len(args) != 3:
                raise self.bad(e, "linspace needs (start, stop, num)")
            lo, hi = self.to_real(self.ex(args[0], K), e), self.to_real(self.ex(args[1], K), e)
            n = self.to_nat(self.ex(args[2], K), args[2], "linspace num")
            return Val(f"(Np.linspace {lo.code} {hi.code} {n.code} : Arr α)", "VR")
        if nm in ("ones", "zeros"):
            kw = self.kwmap(e, ("dtype",))
            self.f64(e, kw)
            if len(e.args) != 1:
                raise self.bad(e, f"np.{nm}(n)")
            n = self.to_nat(self.ex(e.args[0], K), e.args[0], f"np.{nm} length")
            return Val(f"(Np.{nm} {n.code} : Arr α)", "VR")
        if nm == "arange":
            kw = self.kwmap(e, ("dtype",))
            if kw.get("dtype") not in F64 or len(e.args) != 1:
                raise self.bad(e, "np.arange (only `np.arange(n, dtype=np.float64)`)")
            n = self.to_nat(self.ex(e.args[0], K), e.args[0], "np.arange length")
            return Val(f"(Np.arangeF {n.code} : Arr α)", "VR")
        if nm in ("abs", "absolute", "sqrt") and len(e.args) == 1 and not e.keywords:
            f = {"abs": "RealLike.abs", "absolute": "RealLike.abs", "sqrt": "RealLike.sqrt"}[nm]
            v = self.ex(e.args[0], K)
            if v.kind == "VR":
                return Val(f"(⟨{v.code}.n, fun i_ => {f} ({v.code}.get i_)⟩ : Arr α)", "VR")
            return Val(f"({f} {self.to_real(v, e).code})", "R")
        if nm in ("stack", "column_stack"):
            kw = self.kwmap(e, ("axis",))
            if nm == "stack" and kw.get("axis") != "1":
                raise self.bad(e, "np.stack (only `axis=1`: the arrays become the columns)")
            if nm == "column_stack" and kw:
                raise self.bad(e, "np.column_stack keywords")
            if len(e.args) != 1 or not isinstance(e.args[0], (ast.List, ast.Tuple)) or not e.args[0].elts:
                raise self.bad(e, "np.stack needs a literal non-empty list of 1-D arrays")
            cols = [self.ex(x, K) for x in e.args[0].elts]
            for c, x in zip(cols, e.args[0].elts):
                if c.kind != "VR":
                    raise self.bad(x, f"stacked item of kind {c.kind} (only 1-D float arrays)")
            self.pre.append(f"line {e.lineno}: the stacked arrays have one common length  [np.stack raises otherwise]")
            return Val("(Np.stackCols [" + ", ".join(c.code for c in cols) + "])", "MR")
        if nm in ("ascontiguousarray", "asarray"):
            kw = self.kwmap(e, ("dtype", "order"))
            self.f64(e, kw)
            if kw.get("order", "'C'") != "'C'" or len(e.args) != 1:
                raise self.bad(e, f"np.{nm} form")
            v = self.ex(e.args[0], K)
            if v.kind not in ("VR", "MR"):
                raise self.bad(e, f"np.{nm} of a value of kind {v.kind}")
            self.dropped.append(f"line {e.lineno}: np.{nm}(·, dtype=float64) of a float64 array (same values)")
            return v
        if isinstance(e.func, ast.Name) and e.func.id in ("int", "float") and len(e.args) == 1 and not e.keywords:
            v = self.ex(e.args[0], K)
            if e.func.id == "int" and v.kind in ("N", "Z"):
                return v
            if e.func.id == "float":
                return self.to_real(v, e)
        raise self.bad(e, "call")

    # ------------------------------------------------------------------ statements (continuation style: `rest` follows on every path)
    def uses(self, name: str, stmts: List[ast.stmt]) -> Optional[ast.AST]:
        for s in stmts:
            for n in ast.walk(s):
                if isinstance(n, ast.Name) and n.id == name and isinstance(n.ctx, ast.Load):
                    return n
        return None

    def block(self, stmts: List[ast.stmt], K: Dict[str, str], ind: str) -> str:
        if not stmts:
            raise Unsupported(f"{self.fn.name}: a path reaches the end of the function without `return` (Python returns None)")
        s, rest = stmts[0], stmts[1:]
        if isinstance(s, ast.Expr) and isinstance(s.value, ast.Constant) and isinstance(s.value.value, str):
            return self.block(rest, K, ind)                  # docstring
        if isinstance(s, ast.Pass):
            return self.block(rest, K, ind)
        if isinstance(s, ast.Return):
            if s.value is None:
                raise self.bad(s, "bare return")
            v = self.ex(s.value, K)
            if v.kind != "MR":
                raise self.bad(s, f"returns a value of kind {v.kind} (a 2-D float array is expected)")
            return f"{ind}some {v.code}\n"
        if isinstance(s, ast.If):
            c = self.ex(s.test, K)
            if c.kind != "B":
                raise self.bad(s.test, "condition is not boolean")
            if len(s.body) == 1 and isinstance(s.body[0], ast.Raise) and not s.orelse:
                # input validation that raises: the translated function returns `none` there
                return f"{ind}if {c.code} then none  -- line {s.body[0].lineno}: raise\n{ind}else\n" + self.block(rest, K, ind)
            if any(isinstance(n, ast.Raise) for b in (s.body, s.orelse) for st in b for n in ast.walk(st)):
                raise self.bad(s, "raise inside a branching statement (only `if <test>: raise ...`)")
            a = self.block(list(s.body) + rest, dict(K), ind + "  ")
            b = self.block(list(s.orelse) + rest, dict(K), ind + "  ")
            return f"{ind}if {c.code} then\n{a}{ind}else\n{b}"
        if isinstance(s, ast.Assign) and len(s.targets) == 1:
            t = s.targets[0]
            if isinstance(t, ast.Name):
                v = self.ex(s.value, K)
                if v.kind not in LT:
                    raise self.bad(s, f"assignment of a value of kind {v.kind}")
                K2 = dict(K)
                K2[t.id] = v.kind
                return f"{ind}let {t.id} : {LT[v.kind]} := {v.code}\n" + self.block(rest, K2, ind)
            if isinstance(t, ast.Tuple) and len(t.elts) == 2 and all(isinstance(x, ast.Name) for x in t.elts):
                # Q, R = np.linalg.qr(V, mode="reduced"): only the first factor has a contract; the second must be unused
                call = s.value
                if not (isinstance(call, ast.Call) and _u(call.func) == "np.linalg.qr"):
                    raise self.bad(s, "tuple assignment (only `Q, R = np.linalg.qr(V, mode=\"reduced\")`)")
                kw = self.kwmap(call, ("mode",))
                if kw.get("mode", "'reduced'") != "'reduced'":
                    raise self.bad(call, f"np.linalg.qr mode {kw.get('mode')} (the contract Np.qrReducedQ is the reduced factorisation)")
                if len(call.args) != 1:
                    raise self.bad(call, "np.linalg.qr arguments")
                V = self.ex(call.args[0], K)
                if V.kind != "MR":
                    raise self.bad(call, f"np.linalg.qr of a value of kind {V.kind}")
                qn, rn = t.elts[0].id, t.elts[1].id
                u = self.uses(rn, rest)
                if u is not None:
                    raise self.bad(u, f"the triangular factor `{rn}` of the QR factorisation is used (no contract for it)")
                self.dropped.append(f"line {s.lineno}: the triangular factor `{rn}` of np.linalg.qr (never read)")
                K2 = dict(K)
                K2[qn] = "MR"
                K2.pop(rn, None)
                return f"{ind}let {qn} : Arr2 α := Np.qrReducedQ {V.code}\n" + self.block(rest, K2, ind)
        raise self.bad(s, f"statement {type(s).__name__}")

    def translate(self) -> str:
        fn = self.fn
        a = fn.args
        if a.vararg or a.kwarg or a.posonlyargs or a.defaults or a.kwonlyargs:
            raise Unsupported(f"{fn.name}: parameter list form")
        params = [p.arg for p in a.args]
        if params != list(self.sig.keys()):
            raise Unsupported(f"{fn.name}: parameters {params} (expected {list(self.sig.keys())})")
        K = dict(self.sig)
        decl = " ".join(f"({p} : {LT[self.sig[p]]})" for p in params)
        code = self.block(list(fn.body), K, "  ")
        doc = f"/-- core.py:{fn.lineno}-{fn.end_lineno} `{fn.name}`; `none` = the Python raises"
        for t in dict.fromkeys(self.pre):            # a statement after an if/else is translated once per branch: list it once
            doc += "\n    precondition — " + t.replace("-/", "- /")
        for t in dict.fromkeys(self.dropped):
            doc += "\n    dropped (value-irrelevant) — " + t.replace("-/", "- /")
        doc += " -/\n"
        return doc + f"def {fn.name} {decl} : Option (Arr2 α) :=\n" + code + "\n"


DOC = """/-!
  Region BuildQ: `speckit.core._build_Q(L, order)` translated statement by statement (primitives: SpecKitV/Np/BuildQ.lean).
  `if <test>: raise ...` becomes `if <test> then none else ...`; an `if/else` keeps both branches, each followed by the rest of the function.
  Dropped as value-irrelevant (each occurrence is listed in the docstring of the definition, with its line): the docstring;
  `dtype=np.float64` keywords (every array here is float64); `np.ascontiguousarray(·, dtype=np.float64)` of a float64 array; the triangular
  factor of `np.linalg.qr` when it is never read.
-/

"""


def generate(repo: str) -> Tuple[str, List[str]]:
    path = os.path.join(repo, SOURCES[0])
    out = HEADER.format(src=SOURCES[0], sha=sha_of(path)).replace("/verif/vk/translate.py", "/verif/vk/regions/build_q.py") \
        .replace("import SpecKitV.Num\n", "import SpecKitV.Num\nimport SpecKitV.Np.BuildQ\n")
    out += DOC
    errors: List[str] = []
    fns = parse_functions(path)
    if FUNCTION not in fns:
        errors.append(f"{FUNCTION}: not found in {path}")
        out += f"-- MISSING {FUNCTION}\ndef {FUNCTION}_MISSING : Nat := translation_failed_{FUNCTION}\n\n"
    else:
        try:
            out += QTr(fns[FUNCTION], SIG).translate() + "\n"
        except Unsupported as ex:
            errors.append(f"{FUNCTION}: {ex}")
            msg = str(ex).replace("-/", "- /")
            out += f"/- UNSUPPORTED {FUNCTION}: {msg} -/\ndef {FUNCTION}_UNSUPPORTED : Nat := translation_failed_{FUNCTION}\n\n"
    out += "end Gen\n"
    return out, errors
