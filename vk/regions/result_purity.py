"""Region ResultPurity — the buffer effects of every method of `SpectrumResult` (speckit/analysis.py).

Question decided: can a method of a result WRITE IN PLACE an array that a slot of the result's `_data` / `_cache` dictionaries holds (or an
array handed in by the caller), or bind a slot other than the one it is serving?  For every method of the class — `__getattr__` once per arm of
its top-level name dispatch (common prologue + arm + common epilogue), `get_measurement`, `to_dataframe`, `get_rms` (with `dsp.integral_rms` and
`dsp.crop_data` inlined), `plot`, `__repr__`, `__len__`, `__dir__`, and `__init__` (the one method allowed to bind slots) — every statement is
classified by its effect on array BUFFERS (not on values); the result is one `List Model.RPurity.ROp` per method over numbered variables.
Model/ResultPurity.lean gives the ops their aliasing semantics, Props/ResultPurityGen.lean proves that no execution writes a protected buffer.

ENTRY variables (numbers 0 … k-1, all protected): 0 = "any object a slot holds" (`self._cache[name]`, `self._data[<non-literal>]`,
`getattr(self, e)`, `self._data.values()/items()/get(..)`); then, in order of first use, one per `self.<X>` (the cached object itself — the nested
`__getattr__` call that may compute and store it is covered by the list of the arm that serves X), one per `self._data["<key>"]`, one per
array-like parameter (anything not annotated str/int/float/bool/Axes/Figure; `**kwargs` is a container of caller objects).

Value kinds of the interpreter:  S (no buffer: numbers, strings, None, bools, modules, exception objects)   A v (an array — or any object that may
BE or CONTAIN arrays — whose buffers are the may-set of variable v)   B v (a dict / list / set CREATED by this method: item assignment adds to the
may-set, it is not an array write)   T [..] (tuple display, for pairwise unpacking)   M (Matplotlib / pandas object or bound method: see
contracts)   SELF / CACHE / DATA (the result, `self._cache`, `self._data`).

Rules (each checked on the AST; anything not listed raises Unsupported => the method's definition is a stub that fails to build):
  expression
    self.<X>                         X a plain attribute set by __init__ (iscsd, fs, nf): S;  `_cache` / `_data`: CACHE / DATA;  other `_x`: Unsupported;
                                     otherwise ENTRY variable of X (alias of the cached object)
    CACHE[k] / DATA[k]               ENTRY variable (per literal key for DATA, else variable 0);  `k in CACHE/DATA`, `.keys()`: S;
                                     `.values() .items() .get(..)`: variable 0;  any other method of CACHE/DATA (setdefault, pop, update, clear, …):
                                     `.slotStore false` (+ `.protect` of array arguments)
    getattr(self, e) / getattr(self, e, d)     variable 0 (joined with d);  dir(self), type(self), super().__dir__(): S
    v[idx]   idx contains an array             .fancy (copy);   idx slices / ints / scalars / None / Ellipsis   .basic (view)
    v.T v.real v.imag v.flat                   .basic;    v.shape v.size v.ndim v.dtype v.flags …  S
    np.asarray / asanyarray / ascontiguousarray / asfortranarray (v, …), np.array(v, copy=False), np.ravel / reshape / squeeze / atleast_1d / …,
    v.ravel() v.reshape() v.squeeze() v.view() v.transpose() v.swapaxes()        .asarray (v itself / a view, or a fresh array)
    np.real(v) np.imag(v) np.transpose(v) np.broadcast_to                         .basic
    np.nan_to_num(v, copy=<literal>)           .nanToNum (copy=False writes v)
    np.<f>(…, out=o) / v.<m>(…, out=o)          .write o (after the arguments); value aliases o   (so `out=np.zeros_like(x)` is: .fresh d, …, .write d);
                                                `out` is also recognised POSITIONALLY (np.sqrt(x, o), np.multiply(a, b, o), np.clip(a, lo, hi, o),
                                                v.clip(lo, hi, o), … tables UNARY_UFUNCS / BINARY_UFUNCS / FUNC_POS_OUT / METHOD_POS_OUT); a NumPy call with
                                                * / ** arguments, or with extra positional arrays where the position of `out` is not tabulated: Unsupported
    np.<f>(…) f in FRESH_FUNCS, v.<m>(…) m in FRESH_METHODS, arithmetic / comparison / bit operators with an array operand, ct.mag2db(v)   .fresh
    np.<f>(v, …) f in WRITE_FUNCS (copyto, put, place, putmask, fill_diagonal), v.<m>(…) m in WRITE_METHODS (fill, sort, resize, put, itemset,
    partition, setfield, setflags, byteswap)                                       .write v
    np.<f>(…) f in SCALAR_FUNCS (isscalar, iscomplexobj, all, any, …), int() float() len() bool() str() isinstance() callable() …      S
    list() tuple() sorted() set() dict() enumerate() reversed() zip() of arrays   .basic per argument, joined (the elements of the new container)
    {k: e, …} [e, …] {e, …}                   B over the join of the element variables;  (e, …)  T
    a if c else b, a and b, a or b             .phi of the array operands
    f(args) f a function of speckit.dsp imported by name, or a nested def                inlined, parameters bound to the argument values
    plt.<f>(…), pd.<f>(…), <M>.<m>(…), <M>(…)   M — arguments are only read (contract);  getattr(<M>, e): M
    scipy cumulative_trapezoid(…)               .fresh (read-only external, contract)
    eval exec compile globals locals vars __import__ open memoryview …, a region function used as a VALUE, lambda, comprehensions, yield,
    self.<method>(…), self / self._cache / self._data handed to any call other than the forms above            Unsupported
    any other call                              Unsupported if it is a `np.` / `ct.` function or an array method without a rule; otherwise UNKNOWN CALL:
                                                `.write a` for every array argument a (it may write it), value = fresh joined with the arguments
  statement
    x = e                            .bind (A) / rebind (other kinds);  a, b = e1, e2 pairwise;  a, b = <A v>: `.basic` each
    v[...] = e, v op= e, v.<attr> = e, del v[...]        .write v          (B: `.phi b b e`, not a write)
    self._cache[k] = e               .slotStore own, .protect e     own = (method is __getattr__, k is its never-reassigned name parameter) or __init__
    self._data[k] = e, self.<X> = e, del self.<X>, del self._cache[..], self._data[k] op= e      .slotStore (method is __init__) (+ .protect / .write)
    if / try / with / for / while    bodies in order; names bound differently on joining paths are joined by .phi (array ⊔ scalar = array); a loop body
                                     is interpreted until the set of loop-carried names is stable (at most 4 passes, weak updates in place)
    return e / raise e / assert e    e is evaluated for its effects; the path ends
Dropped (no buffer effect): docstrings, `pass`, annotations, string formatting, the VALUES of all scalar computations, which branch is taken.
"""
from __future__ import annotations

import ast
import builtins
import os
from typing import Any, Dict, List, Optional, Tuple

from ..translate import Unsupported, sha_of

REGION = "ResultPurity"
SOURCES = ["speckit/analysis.py", "speckit/dsp.py"]
CLASS = "SpectrumResult"
INLINE_MODULES = {"speckit.dsp": "speckit/dsp.py"}

SCALAR_CALLS = {"int", "float", "len", "bool", "str", "repr", "isinstance", "callable", "type", "complex", "range", "hash", "id", "print",
                "format", "round", "issubclass", "hasattr", "ord", "chr", "dir"}
REDUCE_CALLS = {"min", "max", "sum", "any", "all", "abs"}            # builtins: of arrays -> new object
CONTAINER_CALLS = {"list", "tuple", "sorted", "set", "frozenset", "dict", "enumerate", "reversed", "zip", "iter"}
ASARRAY_FUNCS = {"asarray", "asanyarray", "ascontiguousarray", "asfortranarray", "ravel", "reshape", "squeeze", "atleast_1d", "atleast_2d",
                 "atleast_3d", "require", "asarray_chkfinite"}
VIEW_FUNCS = {"real", "imag", "transpose", "swapaxes", "broadcast_to", "expand_dims", "moveaxis", "rollaxis", "diagonal", "flip", "flipud", "fliplr"}
FRESH_FUNCS = {"arange", "exp", "cos", "sin", "tan", "sqrt", "empty", "zeros", "ones", "zeros_like", "ones_like", "empty_like", "full", "full_like",
               "mean", "sum", "conj", "conjugate", "abs", "absolute", "dot", "matmul", "copy", "where", "log", "log10", "log2", "power", "square",
               "add", "subtract", "multiply", "divide", "true_divide", "einsum", "vstack", "hstack", "concatenate", "stack", "linspace", "isfinite",
               "isnan", "isinf", "angle", "unwrap", "rad2deg", "deg2rad", "arcsin", "arccos", "arctan", "arctan2", "maximum", "minimum", "interp",
               "clip", "sign", "floor", "ceil", "round", "diff", "cumsum", "sort", "argsort", "unique", "logical_and", "logical_or", "logical_not",
               "hypot", "degrees", "radians", "negative", "reciprocal", "trapz", "trapezoid", "nanmax", "nanmin", "nanmean", "max", "min", "amax",
               "amin", "median", "std", "var", "prod", "outer", "cross", "tile", "repeat", "flatnonzero", "nonzero", "count_nonzero", "searchsorted",
               "float_power", "mod", "fmod", "cbrt", "expm1", "log1p", "sinh", "cosh", "tanh", "arcsinh", "arccosh", "arctanh", "argmax", "argmin"}
SCALAR_FUNCS = {"isscalar", "iscomplexobj", "isrealobj", "all", "any", "ndim", "shape", "size", "errstate", "allclose", "array_equal",
                "issubdtype", "result_type", "dtype", "finfo", "iinfo", "shares_memory", "may_share_memory", "isclose_scalar"}
WRITE_FUNCS = {"copyto", "put", "place", "putmask", "fill_diagonal", "put_along_axis"}
# position (0-based) of the positional `out` argument: np.sqrt(x, out), np.multiply(a, b, out), np.clip(a, lo, hi, out), v.clip(lo, hi, out) …
UNARY_UFUNCS = {"exp", "cos", "sin", "tan", "sqrt", "conj", "conjugate", "abs", "absolute", "log", "log10", "log2", "square", "isfinite", "isnan",
                "isinf", "rad2deg", "deg2rad", "arcsin", "arccos", "arctan", "sign", "floor", "ceil", "logical_not", "degrees", "radians", "negative",
                "reciprocal", "cbrt", "expm1", "log1p", "sinh", "cosh", "tanh", "arcsinh", "arccosh", "arctanh"}
BINARY_UFUNCS = {"power", "add", "subtract", "multiply", "divide", "true_divide", "arctan2", "maximum", "minimum", "logical_and", "logical_or",
                 "hypot", "float_power", "mod", "fmod", "matmul", "dot"}
FUNC_POS_OUT = {"clip": 3, "round": 2, "cumsum": 3, "mean": 3, "sum": 3, "prod": 3, "std": 3, "var": 3, "max": 2, "min": 2, "amax": 2, "amin": 2,
                "nanmax": 2, "nanmin": 2, "nanmean": 3, "median": 2, "concatenate": 2, "stack": 2, "argmax": 2, "argmin": 2, "all": 2, "any": 2,
                "einsum": None, "outer": 2, "trace": 5, "take": 3, "compress": 3, "count_nonzero": None}
METHOD_POS_OUT = {"clip": 2, "round": 1, "cumsum": 2, "cumprod": 2, "mean": 2, "sum": 2, "prod": 2, "std": 2, "var": 2, "max": 1, "min": 1,
                  "argmax": 1, "argmin": 1, "any": 1, "all": 1, "dot": 1, "take": 2, "compress": 2, "ptp": 1, "trace": 4, "conj": None,
                  "conjugate": None, "astype": None, "copy": None, "flatten": None, "argsort": None, "nonzero": None, "repeat": None,
                  "searchsorted": None, "item": None, "tolist": None, "tobytes": None, "tostring": None}
FORBIDDEN_CALLS = {"eval", "exec", "compile", "globals", "locals", "vars", "__import__", "open", "input", "breakpoint", "memoryview", "setattr_",
                   "object", "staticmethod", "classmethod", "property"}
FRESH_METHODS = {"mean", "sum", "min", "max", "conj", "conjugate", "astype", "copy", "dot", "std", "var", "prod", "round", "clip", "flatten",
                 "cumsum", "argsort", "argmax", "argmin", "nonzero", "repeat", "take", "compress", "searchsorted", "trace", "ptp", "cumprod"}
SCALAR_METHODS = {"item", "any", "all", "tolist", "tobytes", "tostring", "__len__", "startswith", "endswith", "lower", "upper", "format", "join",
                  "split", "strip", "index", "count", "keys", "is_integer"}
ASARRAY_METHODS = {"ravel", "reshape", "squeeze"}
VIEW_METHODS = {"view", "transpose", "swapaxes", "diagonal", "newbyteorder"}
WRITE_METHODS = {"fill", "sort", "resize", "put", "itemset", "partition", "setfield", "setflags", "byteswap", "__setitem__", "__iadd__", "__isub__",
                 "__imul__", "__itruediv__", "__ifloordiv__", "__ipow__", "__imod__", "__iand__", "__ior__", "__ixor__", "__delitem__"}
VIEW_ATTRS = {"T", "real", "imag", "flat", "mT", "base"}
SCALAR_ATTRS = {"shape", "size", "ndim", "dtype", "itemsize", "nbytes", "flags", "strides", "kind", "name", "writeable"}
SLOT_READ_METHODS = {"values", "items", "get", "copy"}
SLOT_SCALAR_METHODS = {"keys", "__contains__", "__len__"}
BOX_ADD_METHODS = {"append", "add", "update", "extend", "insert", "setdefault"}
MODULES_M = {"plt", "pd"}                     # matplotlib.pyplot, pandas: read-only consumers (contract)
FRESH_EXT = {("ct", "mag2db"), ("ct", "db2mag")}
FRESH_EXT_NAMES = {"cumulative_trapezoid"}        # scipy.integrate: reads its arguments, returns a new array (contract)
SCALAR_NAMES = {"True", "False", "None", "complex", "float", "int", "bool", "object", "str", "Ellipsis", "NotImplemented", "logger", "logging",
                "math", "time", "warnings", "Any", "List", "Dict", "Optional", "Union", "Tuple"}
S_ANN = {"str", "int", "float", "bool", "complex", "bytes"}
M_ANN = {"Axes", "Figure"}


# ----------------------------------------------------------------------------------------------------------------------------- values
class Val:
    __slots__ = ("k", "v", "items", "box")

    def __init__(self, k: str, v: Any = None, items: Optional[List["Val"]] = None, box: Optional[int] = None):
        self.k, self.v, self.items, self.box = k, v, items, box

    def key(self):
        if self.k == "T":
            return ("T", tuple(x.key() for x in self.items))
        return (self.k, self.v, self.box)

    def __repr__(self):
        return f"Val{self.key()}"


S = Val("S")
M = Val("M")
SELF = Val("SELF")
CACHE = Val("CACHE")
DATA = Val("DATA")
SUPER = Val("SUPER")


def is_exc_name(n: str) -> bool:
    return n.endswith(("Error", "Exception", "Warning")) or n in ("StopIteration", "KeyboardInterrupt", "SystemExit")


class Dead(Exception):
    """internal: not used for control flow across statements"""


class Interp:
    def __init__(self, method: str, cls_methods: Dict[str, ast.FunctionDef], init_scalars: set, inl: Dict[str, ast.FunctionDef],
                 name_param: Optional[str], name_param_ok: bool):
        self.method = method
        self.cls_methods = cls_methods
        self.init_scalars = init_scalars
        self.inl = inl                       # module-level functions that may be inlined: local name -> FunctionDef
        self.local_fns: Dict[str, ast.FunctionDef] = {}
        self.name_param = name_param
        self.name_param_ok = name_param_ok
        self.ops: List[tuple] = []
        self.entries: List[str] = ["<any object a slot holds>"]
        self.entry_ix: Dict[str, int] = {"<any object a slot holds>": 0}
        self.ntemp = 0
        self.nbox = 0
        self.shared_boxes: set = set()
        self.depth = 0
        self.notes: List[str] = []
        self.loop_conts: List[List[Dict[str, Val]]] = []
        self.ret_stack: List[List[Val]] = []

    # ---- variables
    def entry(self, label: str) -> tuple:
        if label not in self.entry_ix:
            self.entry_ix[label] = len(self.entries)
            self.entries.append(label)
        return ("e", self.entry_ix[label])

    def any_entry(self) -> Val:
        return Val("A", ("e", 0))

    def new(self) -> tuple:
        self.ntemp += 1
        return ("t", self.ntemp - 1)

    def emit(self, *op):
        self.ops.append(op)

    def fresh(self) -> Val:
        d = self.new()
        self.emit("fresh", d)
        return Val("A", d)

    # ---- helpers on values
    def arr_vars(self, val: Val) -> List[tuple]:
        """variables whose buffers `val` may denote / contain"""
        if val.k in ("A", "B"):
            return [val.v]
        if val.k == "T":
            out = []
            for x in val.items:
                out += self.arr_vars(x)
            return out
        return []

    def join_vars(self, vs: List[tuple]) -> Optional[tuple]:
        if not vs:
            return None
        d = self.new()
        self.emit("bind", d, vs[0])
        for v in vs[1:]:
            self.emit("phi", d, d, v)
        return d

    def flatten(self, val: Val, lineno: int) -> Val:
        """T -> single value"""
        if val.k != "T":
            return val
        vs = self.arr_vars(val)
        if vs:
            return Val("A", self.join_vars(vs))
        if any(x.k == "M" for x in val.items):
            return M
        self.no_special(val, lineno)
        return S

    def no_special(self, val: Val, lineno: int, what: str = "value"):
        if val.k in ("SELF", "CACHE", "DATA", "SUPER"):
            raise Unsupported(f"line {lineno}: the result object / its slot table escapes ({what})")
        if val.k == "FN":
            raise Unsupported(f"line {lineno}: a function of the region used as a value ({what})")
        if val.k == "T":
            for x in val.items:
                self.no_special(x, lineno, what)

    def join(self, a: Val, b: Val, lineno: int) -> Val:
        if a.key() == b.key():
            return a
        if a.k == "T" and b.k == "T" and len(a.items) == len(b.items):
            return Val("T", items=[self.join(x, y, lineno) for x, y in zip(a.items, b.items)])
        a, b = self.flatten(a, lineno), self.flatten(b, lineno)
        if a.key() == b.key():
            return a
        self.no_special(a, lineno, "joined with another value")
        self.no_special(b, lineno, "joined with another value")
        if a.k == "S":
            a, b = b, a
        if b.k == "S":
            if a.k == "B":
                self.shared_boxes.add(a.box)
            return a                                   # array ⊔ not-an-array = array
        if a.k == "M" or b.k == "M":
            if a.k == b.k:
                return M
            raise Unsupported(f"line {lineno}: a name is a Matplotlib/pandas object on one path and an array on another")
        for x in (a, b):
            if x.k == "B":
                self.shared_boxes.add(x.box)
        d = self.new()
        self.emit("phi", d, a.v, b.v)
        return Val("A", d)

    def join_envs(self, envs: List[Dict[str, Val]], lineno: int) -> Dict[str, Val]:
        out: Dict[str, Val] = {}
        names = []
        for e in envs:
            for k in e:
                if k not in names:
                    names.append(k)
        for k in names:
            vals = [e[k] for e in envs if k in e]       # bound on some paths only: usable only there; keep
            v = vals[0]
            for w in vals[1:]:
                v = self.join(v, w, lineno)
            out[k] = v
        return out

    # ---- expressions
    def ev(self, e: ast.AST, env: Dict[str, Val]) -> Val:
        ln = getattr(e, "lineno", 0)
        if isinstance(e, ast.Constant):
            return S
        if isinstance(e, ast.JoinedStr):
            for p in e.values:
                self.ev(p, env)
            return S
        if isinstance(e, ast.FormattedValue):
            v = self.ev(e.value, env)
            self.no_special(v, ln, "formatted")
            if e.format_spec is not None:
                self.ev(e.format_spec, env)
            return S
        if isinstance(e, ast.Name):
            if e.id in env:
                return env[e.id]
            if e.id in self.local_fns or e.id in self.inl:
                return Val("FN", e.id)
            if e.id in ("np", "ct") or e.id in MODULES_M:
                return Val("MOD", e.id)
            if e.id in SCALAR_NAMES or is_exc_name(e.id) or e.id in S_ANN or e.id in M_ANN or hasattr(builtins, e.id):
                return S
            raise Unsupported(f"line {ln}: unbound name {e.id}")
        if isinstance(e, ast.Tuple):
            return Val("T", items=[self.ev(x, env) for x in e.elts])
        if isinstance(e, (ast.List, ast.Set)):
            return self.box_of([self.ev(x, env) for x in e.elts], ln)
        if isinstance(e, ast.Dict):
            vals = []
            for k, v in zip(e.keys, e.values):
                if k is not None:
                    kv = self.ev(k, env)
                    self.no_special(kv, ln, "dictionary key")
                vals.append(self.ev(v, env))
            return self.box_of(vals, ln)
        if isinstance(e, ast.Starred):
            return self.ev(e.value, env)
        if isinstance(e, ast.Subscript):
            return self.subscript(e, env)
        if isinstance(e, ast.Attribute):
            return self.attribute(e, env)
        if isinstance(e, ast.UnaryOp):
            v = self.flatten(self.ev(e.operand, env), ln)
            self.no_special(v, ln, "operand")
            if isinstance(e.op, ast.Not) or v.k in ("S", "M"):
                return S
            return self.fresh()
        if isinstance(e, ast.BinOp):
            a = self.flatten(self.ev(e.left, env), ln)
            b = self.flatten(self.ev(e.right, env), ln)
            self.no_special(a, ln, "operand")
            self.no_special(b, ln, "operand")
            if a.k in ("A", "B") or b.k in ("A", "B"):
                return self.fresh()
            return S
        if isinstance(e, ast.Compare):
            def cmp_ev(c):
                if isinstance(c, (ast.List, ast.Tuple, ast.Set)) and all(isinstance(x, ast.Constant) for x in c.elts):
                    return S                              # `name in ["psd", "G", …]`: a literal of constants holds no array
                return self.ev(c, env)
            vals = [cmp_ev(e.left)] + [cmp_ev(c) for c in e.comparators]
            ops = e.ops
            ident = all(isinstance(o, (ast.Is, ast.IsNot, ast.In, ast.NotIn)) for o in ops)
            for i, v in enumerate(vals):
                if v.k in ("CACHE", "DATA"):
                    if not (i >= 1 and isinstance(ops[i - 1], (ast.In, ast.NotIn))):
                        raise Unsupported(f"line {ln}: the slot table in a comparison other than `in`")
                elif v.k in ("SELF", "SUPER"):
                    if not ident:
                        raise Unsupported(f"line {ln}: the result object in a comparison")
            if ident:
                return S
            flat = [self.flatten(v, ln) for v in vals]
            if any(v.k in ("A", "B") for v in flat):
                return self.fresh()
            return S
        if isinstance(e, ast.BoolOp):
            vals = [self.flatten(self.ev(x, env), ln) for x in e.values]
            out = vals[0]
            for v in vals[1:]:
                out = self.join(out, v, ln)
            return out
        if isinstance(e, ast.IfExp):
            t = self.ev(e.test, env)
            self.no_special(t, ln, "condition")
            a, b = self.ev(e.body, env), self.ev(e.orelse, env)
            return self.join(a, b, ln)
        if isinstance(e, ast.Call):
            return self.call(e, env)
        raise Unsupported(f"line {ln}: expression {type(e).__name__}")

    def box_of(self, vals: List[Val], ln: int) -> Val:
        for v in vals:
            self.no_special(v, ln, "stored in a container")
            if v.k == "B":
                self.shared_boxes.add(v.box)
        vs = []
        for v in vals:
            vs += self.arr_vars(v)
        if vs:
            d = self.join_vars(vs)
        else:
            d = self.new()
            self.emit("fresh", d)                     # the (empty of arrays) container itself
        self.nbox += 1
        return Val("B", d, box=self.nbox)

    def index_kind(self, idx: ast.AST, env) -> str:
        parts = idx.elts if isinstance(idx, ast.Tuple) else [idx]
        fancy = False
        for p in parts:
            if isinstance(p, ast.Slice):
                for q in (p.lower, p.upper, p.step):
                    if q is not None:
                        v = self.flatten(self.ev(q, env), p.lineno)
                        if v.k != "S":
                            raise Unsupported(f"line {p.lineno}: non-scalar slice bound")
                continue
            v = self.flatten(self.ev(p, env), getattr(p, "lineno", 0))
            self.no_special(v, getattr(p, "lineno", 0), "index")
            if v.k in ("A", "B"):
                fancy = True
            elif v.k != "S":
                raise Unsupported(f"line {getattr(p, 'lineno', 0)}: index of kind {v.k}")
        return "fancy" if fancy else "basic"

    def slot_read(self, base: Val, key: Optional[ast.AST]) -> Val:
        if base.k == "DATA" and isinstance(key, ast.Constant) and isinstance(key.value, str):
            return Val("A", self.entry(f'self._data["{key.value}"]'))
        return self.any_entry()

    def subscript(self, e: ast.Subscript, env) -> Val:
        ln = e.lineno
        base = self.ev(e.value, env)
        if base.k in ("CACHE", "DATA"):
            self.no_special(self.ev(e.slice, env), ln, "slot key")
            return self.slot_read(base, e.slice)
        if base.k == "T":
            if isinstance(e.slice, ast.Constant) and isinstance(e.slice.value, int) and -len(base.items) <= e.slice.value < len(base.items):
                return base.items[e.slice.value]
            base = self.flatten(base, ln)
        if base.k in ("S", "M"):
            self.index_kind(e.slice, env)
            return base
        if base.k == "A":
            kind = self.index_kind(e.slice, env)
            d = self.new()
            self.emit(kind, d, base.v)
            return Val("A", d)
        if base.k == "B":
            self.index_kind(e.slice, env)
            d = self.new()
            self.emit("basic", d, base.v)
            return Val("A", d)
        raise Unsupported(f"line {ln}: subscript of {base.k}")

    def attribute(self, e: ast.Attribute, env) -> Val:
        ln = e.lineno
        base = self.ev(e.value, env)
        a = e.attr
        if base.k == "SELF":
            if a == "_cache":
                return CACHE
            if a == "_data":
                return DATA
            if a in self.init_scalars:
                return S
            if a.startswith("_"):
                raise Unsupported(f"line {ln}: self.{a} has no rule")
            if a in self.cls_methods:
                raise Unsupported(f"line {ln}: bound method self.{a} used as a value")
            return Val("A", self.entry(f"self.{a}"))
        if base.k == "MOD":
            if base.v in MODULES_M:
                return M
            return S                                  # np.pi, np.float64, np.ndarray …
        if base.k in ("S", "M"):
            return base
        if base.k == "T":
            base = self.flatten(base, ln)
            if base.k in ("S", "M"):
                return base
        if base.k in ("A", "B"):
            if a in VIEW_ATTRS:
                d = self.new()
                self.emit("basic", d, base.v)
                return Val("A", d)
            if a in SCALAR_ATTRS:
                return S
            raise Unsupported(f"line {ln}: attribute .{a} of an array has no aliasing rule")
        raise Unsupported(f"line {ln}: attribute .{a} of {base.k}")

    # ---- calls
    def ev_args(self, e: ast.Call, env, skip_kw=()) -> Tuple[List[Val], Dict[str, Val]]:
        args = [self.ev(a, env) for a in e.args]
        kw: Dict[str, Val] = {}
        for k in e.keywords:
            if k.arg in skip_kw:
                continue
            kw[k.arg if k.arg else f"**{len(kw)}"] = self.ev(k.value, env)
        return args, kw

    def all_vals(self, args, kw) -> List[Val]:
        return list(args) + list(kw.values())

    def readonly_call(self, args, kw, ln: int, what: str):
        for v in self.all_vals(args, kw):
            self.no_special(v, ln, f"argument of {what}")

    def unknown_call(self, args, kw, ln: int, what: str) -> Val:
        vs: List[tuple] = []
        for v in self.all_vals(args, kw):
            self.no_special(v, ln, f"argument of {what}")
            vs += self.arr_vars(v)
        if not vs:
            return S
        self.notes.append(f"line {ln}: unknown call {what}: charged with a write of every array argument")
        for v in vs:
            self.emit("write", v)
        d = self.new()
        self.emit("fresh", d)
        for v in vs:
            self.emit("phi", d, d, v)
        return Val("A", d)

    def out_arg(self, e: ast.Call, args: List[Val], kw: Dict[str, Val], pos: Optional[int]) -> Optional[Val]:
        """the `out` argument of a NumPy function / array method call (keyword, or positional at index `pos`); emits the write"""
        o = None
        if "out" in kw:
            o = kw["out"]
        elif pos is not None and len(args) > pos:
            o = args[pos]
        if any(isinstance(a, ast.Starred) for a in e.args) or any(k.arg is None for k in e.keywords):
            raise Unsupported(f"line {e.lineno}: * / ** arguments in a NumPy call (an out= argument could hide there)")
        if o is None:
            return None
        if o.k == "T":                                   # out=(a, b) of a multi-output ufunc
            o = self.flatten(o, e.lineno)
        if o.k == "S":
            return None
        if o.k not in ("A", "B"):
            raise Unsupported(f"line {e.lineno}: out= of kind {o.k}")
        self.emit("write", o.v)
        return o

    def literal_bool_kw(self, e: ast.Call, name: str, default: bool) -> bool:
        for k in e.keywords:
            if k.arg == name:
                if isinstance(k.value, ast.Constant) and isinstance(k.value.value, bool):
                    return k.value.value
                raise Unsupported(f"line {e.lineno}: {name}= is not a literal")
            if k.arg is None:
                raise Unsupported(f"line {e.lineno}: **kwargs in a call whose {name}= matters")
        return default

    def first_array(self, args: List[Val], ln: int) -> Optional[Val]:
        if not args:
            return None
        v = self.flatten(args[0], ln)
        return v if v.k in ("A", "B") else None

    def call(self, e: ast.Call, env) -> Val:
        ln = e.lineno
        f = e.func
        # ---------------- plain names
        if isinstance(f, ast.Name) and f.id not in env:
            n = f.id
            if n in FORBIDDEN_CALLS:
                raise Unsupported(f"line {ln}: call of {n} has no rule")
            if n == "getattr":
                args, kw = self.ev_args(e, env)
                if kw or len(args) not in (2, 3):
                    raise Unsupported(f"line {ln}: getattr form")
                self.no_special(args[1], ln, "attribute name")
                if args[0].k == "SELF":
                    out = self.any_entry()
                elif args[0].k == "M":
                    out = M
                elif args[0].k == "S":
                    out = S
                else:
                    raise Unsupported(f"line {ln}: getattr of {args[0].k}")
                if len(args) == 3:
                    out = self.join(out, args[2], ln)
                return out
            if n in ("setattr", "delattr"):
                args, kw = self.ev_args(e, env)
                if args and args[0].k == "SELF":
                    self.emit("slotStore", self.method == "__init__")
                    for v in args[1:]:
                        for x in self.arr_vars(v):
                            self.emit("protect", x)
                    return S
                raise Unsupported(f"line {ln}: {n} of {args[0].k if args else '?'}")
            if n == "super":
                if e.args or e.keywords:
                    raise Unsupported(f"line {ln}: super(...) with arguments")
                return SUPER
            if n in ("dir", "type", "id", "isinstance", "hasattr", "callable") and e.args:
                args, kw = self.ev_args(e, env)
                for v in args[1:]:
                    self.no_special(v, ln, f"argument of {n}")
                return S
            if n in SCALAR_CALLS or is_exc_name(n):
                args, kw = self.ev_args(e, env)
                self.readonly_call(args, kw, ln, n)
                return S
            if n in REDUCE_CALLS:
                args, kw = self.ev_args(e, env)
                self.readonly_call(args, kw, ln, n)
                if any(self.arr_vars(v) for v in self.all_vals(args, kw)):
                    return self.fresh()
                return S
            if n in CONTAINER_CALLS:
                args, kw = self.ev_args(e, env)
                self.readonly_call(args, kw, ln, n)
                vs = []
                for v in self.all_vals(args, kw):
                    for x in self.arr_vars(v):
                        d = self.new()
                        self.emit("basic", d, x)
                        vs.append(d)
                if not vs:
                    if n in ("list", "dict", "set") and not e.args and not e.keywords:
                        return self.box_of([], ln)
                    return S
                return Val("A", self.join_vars(vs))
            if n in self.local_fns or n in self.inl:
                return self.inline(n, e, env)
            if n in FRESH_EXT_NAMES:
                args, kw = self.ev_args(e, env)
                self.readonly_call(args, kw, ln, n)
                return self.fresh()
            args, kw = self.ev_args(e, env)
            return self.unknown_call(args, kw, ln, n)
        # ---------------- callee is a bound local name
        if isinstance(f, ast.Name):
            c = env[f.id]
            args, kw = self.ev_args(e, env)
            if c.k == "M":
                self.readonly_call(args, kw, ln, f.id)
                return M
            if c.k == "FN":
                return self.inline(c.v, e, env)
            return self.unknown_call(args, kw, ln, f.id)
        if not isinstance(f, ast.Attribute):
            raise Unsupported(f"line {ln}: call form")
        name = f.attr
        base = self.ev(f.value, env)
        # ---------------- module functions
        if base.k == "MOD":
            mod = base.v
            if mod in MODULES_M:
                args, kw = self.ev_args(e, env)
                self.readonly_call(args, kw, ln, f"{mod}.{name}")
                return M
            if mod == "ct":
                if (mod, name) in FRESH_EXT:
                    args, kw = self.ev_args(e, env)
                    self.readonly_call(args, kw, ln, f"ct.{name}")
                    return self.fresh() if any(self.arr_vars(v) for v in self.all_vals(args, kw)) else S
                raise Unsupported(f"line {ln}: ct.{name} has no aliasing rule")
            # numpy
            if name == "nan_to_num":
                args, kw = self.ev_args(e, env, skip_kw=("copy",))
                self.readonly_call(args, kw, ln, "np.nan_to_num")
                copy = self.literal_bool_kw(e, "copy", True)
                if len(e.args) >= 2:
                    raise Unsupported(f"line {ln}: positional copy argument of nan_to_num")
                a0 = self.first_array(args, ln) if e.args else (self.flatten(kw["x"], ln) if "x" in kw else None)
                if a0 is None or a0.k not in ("A", "B"):
                    return S
                d = self.new()
                self.emit("nanToNum", d, a0.v, copy)
                return Val("A", d)
            args, kw = self.ev_args(e, env)
            self.readonly_call(args, kw, ln, f"np.{name}")
            if name in UNARY_UFUNCS:
                pos = 1
            elif name in BINARY_UFUNCS:
                pos = 2
            elif name in FUNC_POS_OUT:
                pos = FUNC_POS_OUT[name]
            else:
                pos = None
                if name in FRESH_FUNCS and name not in ("arange", "empty", "zeros", "ones", "full", "linspace", "zeros_like", "ones_like", "empty_like",
                                                        "full_like", "copy", "where", "angle", "unwrap", "interp", "diff", "sort", "argsort", "unique",
                                                        "trapz", "trapezoid", "cross", "tile", "repeat", "flatnonzero", "nonzero", "searchsorted",
                                                        "vstack", "hstack") and len(args) > 1 and any(self.arr_vars(v) for v in args[1:]):
                    raise Unsupported(f"line {ln}: np.{name} with several positional array arguments (position of out unknown)")
            out = self.out_arg(e, args, kw, pos)
            if name in WRITE_FUNCS:
                a0 = self.first_array(args, ln)
                if a0 is None:
                    raise Unsupported(f"line {ln}: np.{name} on a non-array")
                self.emit("write", a0.v)
                return S
            if out is not None:
                if name in ASARRAY_FUNCS or name in VIEW_FUNCS or name in SCALAR_FUNCS or name == "array":
                    raise Unsupported(f"line {ln}: out= on np.{name}")
                if name not in FRESH_FUNCS:
                    raise Unsupported(f"line {ln}: np.{name} has no aliasing rule")
                return out
            if name in ASARRAY_FUNCS or (name == "array" and not self.literal_bool_kw(e, "copy", True)):
                a0 = self.first_array(args, ln)
                if a0 is None:
                    return self.fresh() if name != "reshape" else S
                d = self.new()
                self.emit("asarray", d, a0.v)
                return Val("A", d)
            if name == "array":
                return self.fresh()
            if name in VIEW_FUNCS:
                a0 = self.first_array(args, ln)
                if a0 is None:
                    return S
                d = self.new()
                self.emit("basic", d, a0.v)
                return Val("A", d)
            if name in SCALAR_FUNCS:
                return S
            if name in FRESH_FUNCS:
                if not any(self.arr_vars(v) for v in self.all_vals(args, kw)) and name not in (
                        "arange", "empty", "zeros", "ones", "full", "linspace", "zeros_like", "ones_like", "empty_like", "full_like"):
                    return S
                return self.fresh()
            raise Unsupported(f"line {ln}: np.{name} has no aliasing rule")
        # ---------------- the result object itself / its slot tables
        if base.k == "SUPER":
            if name == "__dir__" and not e.args and not e.keywords:
                return S
            raise Unsupported(f"line {ln}: super().{name}(...) has no rule")
        if base.k == "SELF":
            raise Unsupported(f"line {ln}: call of method self.{name}(...) has no rule")
        if base.k in ("CACHE", "DATA"):
            args, kw = self.ev_args(e, env)
            self.readonly_call(args, kw, ln, f"slot table .{name}")
            if name in SLOT_SCALAR_METHODS:
                return S
            if name in SLOT_READ_METHODS:
                out = self.any_entry()
                if name == "get" and len(args) == 2:
                    out = self.join(out, args[1], ln)
                return out
            # setdefault / pop / popitem / clear / update / __setitem__ / __delitem__ / anything else: the slot table is mutated
            self.emit("slotStore", self.method == "__init__")
            for v in self.all_vals(args, kw):
                for x in self.arr_vars(v):
                    self.emit("protect", x)
            out = self.any_entry()
            for v in self.all_vals(args, kw):
                if self.arr_vars(v):
                    out = self.join(out, v, ln)
            return out
        if base.k == "T":
            base = self.flatten(base, ln)
        # ---------------- Matplotlib / pandas objects
        if base.k == "M":
            args, kw = self.ev_args(e, env)
            self.readonly_call(args, kw, ln, f"<plot object>.{name}")
            return M
        # ---------------- scalars (strings, loggers, …)
        if base.k == "S":
            args, kw = self.ev_args(e, env)
            if name in SCALAR_METHODS:
                self.readonly_call(args, kw, ln, f".{name}")
                return S
            r = self.unknown_call(args, kw, ln, f"<scalar>.{name}")
            return r
        # ---------------- containers created here
        if base.k == "B":
            args, kw = self.ev_args(e, env)
            self.readonly_call(args, kw, ln, f"container .{name}")
            if name in ("get", "values", "items", "pop", "popitem", "__getitem__"):
                d = self.new()
                self.emit("basic", d, base.v)
                out = Val("A", d)
                if name in ("get", "pop") and len(args) == 2:
                    out = self.join(out, args[1], ln)
                return out
            if name in ("keys", "index", "count", "__len__", "__contains__", "clear", "sort", "reverse", "remove", "discard"):
                return S
            if name == "copy":
                d = self.new()
                self.emit("bind", d, base.v)
                self.nbox += 1
                return Val("B", d, box=self.nbox)
            if name in BOX_ADD_METHODS:
                if base.box in self.shared_boxes:
                    raise Unsupported(f"line {ln}: .{name} on a container that has a second name")
                for v in self.all_vals(args, kw):
                    for x in self.arr_vars(v):
                        self.emit("phi", base.v, base.v, x)
                if name == "setdefault":
                    d = self.new()
                    self.emit("basic", d, base.v)
                    return Val("A", d)
                return S
            raise Unsupported(f"line {ln}: container method .{name}() has no rule")
        # ---------------- arrays
        if base.k == "A":
            args, kw = self.ev_args(e, env)
            self.readonly_call(args, kw, ln, f".{name}")
            if name in (FRESH_METHODS | SCALAR_METHODS) and name not in METHOD_POS_OUT and "out" not in kw and any(self.arr_vars(v) for v in args):
                raise Unsupported(f"line {ln}: .{name}() with positional array arguments (position of out unknown)")
            out = self.out_arg(e, args, kw, METHOD_POS_OUT.get(name))
            if name in WRITE_METHODS:
                self.emit("write", base.v)
                return S
            if out is not None:
                if name not in FRESH_METHODS:
                    raise Unsupported(f"line {ln}: out= on .{name}()")
                return out
            if name in SCALAR_METHODS:
                return S
            if name in FRESH_METHODS:
                return self.fresh()
            if name in ASARRAY_METHODS:
                d = self.new()
                self.emit("asarray", d, base.v)
                return Val("A", d)
            if name in VIEW_METHODS:
                d = self.new()
                self.emit("basic", d, base.v)
                return Val("A", d)
            if name in ("get", "values", "items"):                  # the "array" may be a mapping of the caller (pass_band, results_dict …)
                d = self.new()
                self.emit("basic", d, base.v)
                o = Val("A", d)
                if name == "get" and len(args) == 2:
                    o = self.join(o, args[1], ln)
                return o
            raise Unsupported(f"line {ln}: array method .{name}() has no aliasing rule")
        raise Unsupported(f"line {ln}: call of .{name} on {base.k}")

    def inline(self, name: str, call: ast.Call, env) -> Val:
        ln = call.lineno
        if self.depth > 4:
            raise Unsupported(f"line {ln}: inlining too deep")
        fn = self.local_fns.get(name) or self.inl[name]
        is_local = name in self.local_fns
        a = fn.args
        if a.vararg or a.kwarg or a.posonlyargs or any(k.arg is None for k in call.keywords) or any(isinstance(x, ast.Starred) for x in call.args):
            raise Unsupported(f"line {ln}: call of {name} with * / ** arguments")
        params = [p.arg for p in a.args]
        if len(call.args) > len(params):
            raise Unsupported(f"line {ln}: too many arguments for {name}")
        sub: Dict[str, Val] = dict(env) if is_local else {}      # a nested def sees the enclosing bindings
        bound = {}
        for p, x in zip(params, call.args):
            bound[p] = self.ev(x, env)
        for k in call.keywords:
            if k.arg not in params + [q.arg for q in a.kwonlyargs] or k.arg in bound:
                raise Unsupported(f"line {ln}: keyword {k.arg} of {name}")
            bound[k.arg] = self.ev(k.value, env)
        defaults = dict(zip(params[len(params) - len(a.defaults):], a.defaults))
        for q, dflt in zip(a.kwonlyargs, a.kw_defaults):
            if dflt is not None:
                defaults[q.arg] = dflt
        for p in params + [q.arg for q in a.kwonlyargs]:
            if p not in bound:
                if p not in defaults:
                    raise Unsupported(f"line {ln}: missing argument {p} of {name}")
                bound[p] = self.ev(defaults[p], {})
        for p, v in bound.items():
            self.no_special(v, ln, f"argument of {name}")
            if v.k == "B":
                self.shared_boxes.add(v.box)
            sub[p] = v
        self.depth += 1
        self.ret_stack.append([])
        saved_fns = dict(self.local_fns)
        self.block(fn.body, sub)
        self.local_fns = saved_fns
        rets = self.ret_stack.pop()
        self.depth -= 1
        if not rets:
            return S
        out = rets[0]
        for r in rets[1:]:
            out = self.join(out, r, ln)
        return out

    # ---- statements;  block() returns True when control can fall through
    def block(self, stmts: List[ast.stmt], env: Dict[str, Val]) -> bool:
        for s in stmts:
            if not self.stmt(s, env):
                return False
        return True

    def bind_name(self, name: str, val: Val, env, ln: int):
        self.no_special(val, ln, f"bound to {name}")
        if val.k == "A":
            d = self.new()
            self.emit("bind", d, val.v)
            env[name] = Val("A", d)
        elif val.k == "B":
            for k, w in env.items():
                if k != name and w.k == "B" and w.box == val.box:
                    self.shared_boxes.add(val.box)
            env[name] = val
        else:
            env[name] = val

    def slot_store(self, base: Val, key: Optional[ast.AST], val: Optional[Val], ln: int):
        own = self.method == "__init__"
        if base.k == "CACHE" and self.method == "__getattr__" and self.name_param_ok and isinstance(key, ast.Name) and key.id == self.name_param:
            own = True
        self.emit("slotStore", own)
        if val is not None:
            self.no_special(val, ln, "stored in a slot")
            for x in self.arr_vars(val):
                self.emit("protect", x)

    def assign(self, tgt: ast.AST, val: Val, env, ln: int):
        if isinstance(tgt, ast.Name):
            self.bind_name(tgt.id, val, env, ln)
            return
        if isinstance(tgt, (ast.Tuple, ast.List)):
            n = len(tgt.elts)
            if any(isinstance(t, ast.Starred) for t in tgt.elts):
                val = self.flatten(val, ln)
            if val.k == "T" and len(val.items) == n:
                for t, v in zip(tgt.elts, val.items):
                    self.assign(t, v, env, ln)
                return
            val = self.flatten(val, ln)
            self.no_special(val, ln, "unpacked")
            for t in tgt.elts:
                t = t.value if isinstance(t, ast.Starred) else t
                if val.k in ("A", "B"):
                    d = self.new()
                    self.emit("basic", d, val.v)
                    self.assign(t, Val("A", d), env, ln)
                else:
                    self.assign(t, val, env, ln)
            return
        if isinstance(tgt, ast.Subscript):
            base = self.ev(tgt.value, env)
            if base.k in ("CACHE", "DATA"):
                self.no_special(self.ev(tgt.slice, env), ln, "slot key")
                self.slot_store(base, tgt.slice, val, ln)
                return
            base = self.flatten(base, ln)
            self.index_kind(tgt.slice, env)
            self.no_special(val, ln, "stored")
            if base.k == "A":
                self.emit("write", base.v)
                return
            if base.k == "B":
                if base.box in self.shared_boxes:
                    raise Unsupported(f"line {ln}: item assignment on a container that has a second name")
                for x in self.arr_vars(val):
                    self.emit("phi", base.v, base.v, x)
                return
            if base.k == "M":
                return
            raise Unsupported(f"line {ln}: item assignment on {base.k}")
        if isinstance(tgt, ast.Attribute):
            base = self.ev(tgt.value, env)
            if base.k == "SELF":
                if self.method == "__init__":
                    self.no_special(val, ln, f"stored in self.{tgt.attr}")
                    return                            # the constructor sets up the object (its slot stores are the `self._data[k] = …` below)
                self.slot_store(base, None, val, ln)
                return
            base = self.flatten(base, ln)
            if base.k in ("A", "B"):
                self.emit("write", base.v)            # v.shape = …, v.dtype = …, v.flags.writeable = … : in place
                return
            if base.k == "M":
                return
            if base.k == "S" and isinstance(tgt.value, ast.Attribute):
                inner = self.flatten(self.ev(tgt.value.value, env), ln)     # v.flags.writeable = …
                if inner.k in ("A", "B"):
                    self.emit("write", inner.v)
                    return
            raise Unsupported(f"line {ln}: attribute assignment on {base.k}")
        raise Unsupported(f"line {ln}: assignment target {type(tgt).__name__}")

    def stmt(self, s: ast.stmt, env: Dict[str, Val]) -> bool:
        ln = s.lineno
        if isinstance(s, ast.Expr):
            if not isinstance(s.value, ast.Constant):
                self.ev(s.value, env)
            return True
        if isinstance(s, ast.Pass):
            return True
        if isinstance(s, ast.Assign):
            val = self.ev(s.value, env)
            for t in s.targets:
                self.assign(t, val, env, ln)
            return True
        if isinstance(s, ast.AnnAssign):
            if s.value is not None:
                self.assign(s.target, self.ev(s.value, env), env, ln)
            return True
        if isinstance(s, ast.AugAssign):
            val = self.flatten(self.ev(s.value, env), ln)
            self.no_special(val, ln, "operand")
            t = s.target
            if isinstance(t, ast.Name):
                if t.id not in env:
                    raise Unsupported(f"line {ln}: augmented assignment to unbound {t.id}")
                cur = self.flatten(env[t.id], ln)
                if cur.k == "A":
                    self.emit("write", cur.v)          # ndarray op= works in place
                elif cur.k == "B":
                    if cur.box in self.shared_boxes:
                        raise Unsupported(f"line {ln}: += on a container that has a second name")
                    for x in self.arr_vars(val):
                        self.emit("phi", cur.v, cur.v, x)
                elif cur.k == "S":
                    if val.k in ("A", "B"):
                        env[t.id] = self.fresh()       # scalar op= array: a new array
                else:
                    raise Unsupported(f"line {ln}: augmented assignment to {cur.k}")
                return True
            if isinstance(t, (ast.Subscript, ast.Attribute)):
                inner = self.ev(t.value, env)
                cur = self.flatten(self.ev(t, env), ln)
                if cur.k in ("A", "B"):
                    self.emit("write", cur.v)
                elif cur.k != "S":
                    raise Unsupported(f"line {ln}: augmented assignment to {cur.k}")
                if inner.k in ("CACHE", "DATA"):
                    self.slot_store(inner, t.slice if isinstance(t, ast.Subscript) else None, None, ln)
                elif inner.k == "SELF":
                    if cur.k == "S" and self.method == "__init__":
                        return True
                    self.slot_store(inner, None, None, ln)
                else:
                    base = self.flatten(inner, ln)
                    if base.k in ("A", "B"):
                        self.emit("write", base.v)
                return True
            raise Unsupported(f"line {ln}: augmented assignment target")
        if isinstance(s, ast.Delete):
            for t in s.targets:
                if isinstance(t, ast.Name):
                    env.pop(t.id, None)
                elif isinstance(t, ast.Subscript):
                    base = self.ev(t.value, env)
                    if base.k in ("CACHE", "DATA"):
                        self.ev(t.slice, env)
                        self.emit("slotStore", self.method == "__init__")
                    else:
                        base = self.flatten(base, ln)
                        self.index_kind(t.slice, env)
                        if base.k == "A":
                            self.emit("write", base.v)
                        elif base.k != "B":
                            raise Unsupported(f"line {ln}: del item of {base.k}")
                elif isinstance(t, ast.Attribute):
                    base = self.ev(t.value, env)
                    if base.k == "SELF":
                        self.emit("slotStore", self.method == "__init__")
                    else:
                        raise Unsupported(f"line {ln}: del attribute of {base.k}")
                else:
                    raise Unsupported(f"line {ln}: del target")
            return True
        if isinstance(s, ast.Return):
            if s.value is not None:
                v = self.ev(s.value, env)
                if self.ret_stack:
                    self.no_special(v, ln, "returned")
                    self.ret_stack[-1].append(v)
                else:
                    self.no_special(v, ln, "returned")
            elif self.ret_stack:
                self.ret_stack[-1].append(S)
            return False
        if isinstance(s, ast.Raise):
            if s.exc is not None:
                self.ev(s.exc, env)
            if s.cause is not None:
                self.ev(s.cause, env)
            return False
        if isinstance(s, ast.Assert):
            self.ev(s.test, env)
            if s.msg is not None:
                self.ev(s.msg, env)
            return True
        if isinstance(s, ast.Continue):
            if not self.loop_conts:
                raise Unsupported(f"line {ln}: continue outside a loop")
            self.loop_conts[-1].append(dict(env))
            return False
        if isinstance(s, ast.Break):
            if not self.loop_conts:
                raise Unsupported(f"line {ln}: break outside a loop")
            self.loop_conts[-1].append(dict(env))      # the state at `break` flows to the code after the loop: joined with the loop exit
            return False
        if isinstance(s, ast.FunctionDef):
            if s.decorator_list:
                raise Unsupported(f"line {ln}: decorated nested function")
            self.local_fns[s.name] = s
            return True
        if isinstance(s, ast.With):
            for it in s.items:
                v = self.ev(it.context_expr, env)
                if it.optional_vars is not None:
                    self.assign(it.optional_vars, M if v.k == "M" else S, env, ln)
            return self.block(s.body, env)
        if isinstance(s, ast.If):
            t = self.ev(s.test, env)
            self.no_special(self.flatten(t, ln), ln, "condition")
            e1, e2 = dict(env), dict(env)
            l1 = self.block(s.body, e1)
            l2 = self.block(s.orelse, e2)
            live = [x for x, l in ((e1, l1), (e2, l2)) if l]
            if not live:
                return False
            new = self.join_envs(live, ln)
            env.clear()
            env.update(new)
            return True
        if isinstance(s, ast.Try):
            e0 = dict(env)
            eb = dict(env)
            lb = self.block(s.body, eb)
            mid = self.join_envs([e0, eb], ln)                     # an exception can leave the body anywhere
            ends: List[Dict[str, Val]] = []
            for h in s.handlers:
                if h.type is not None:
                    self.ev(h.type, env)
                eh = dict(mid)
                if h.name:
                    eh[h.name] = S
                if self.block(h.body, eh):
                    ends.append(eh)
            if lb:
                if self.block(s.orelse, eb):
                    ends.append(eb)
            if s.finalbody:
                if not ends:
                    ef = dict(mid)
                    self.block(s.finalbody, ef)
                    return False
                new = self.join_envs(ends, ln)
                live = self.block(s.finalbody, new)
                env.clear()
                env.update(new)
                return live
            if not ends:
                return False
            new = self.join_envs(ends, ln)
            env.clear()
            env.update(new)
            return True
        if isinstance(s, (ast.For, ast.While)):
            return self.loop(s, env)
        if isinstance(s, (ast.Import, ast.ImportFrom, ast.Global, ast.Nonlocal)):
            raise Unsupported(f"line {ln}: statement {type(s).__name__} inside a method")
        raise Unsupported(f"line {ln}: statement {type(s).__name__}")

    def loop(self, s, env) -> bool:
        ln = s.lineno
        carried: Dict[str, tuple] = {}
        exits: List[Dict[str, Val]] = []
        for npass in range(4):
            if isinstance(s, ast.For):
                it = self.flatten(self.ev(s.iter, env), ln)
                self.no_special(it, ln, "iterated")
                if it.k in ("A", "B"):
                    d = self.new()
                    self.emit("basic", d, it.v)
                    elem = Val("A", d)
                else:
                    elem = it
                self.assign_loop_target(s.target, elem, env, ln)
            else:
                t = self.ev(s.test, env)
                self.no_special(self.flatten(t, ln), ln, "condition")
            before = dict(env)
            e1 = dict(env)
            self.loop_conts.append([])
            live = self.block(s.body, e1)
            conts = self.loop_conts.pop()
            ends = ([e1] if live else []) + conts
            changed_new = False
            for e in ends:
                for k, v in e.items():
                    if k not in before:
                        if k not in env:
                            env[k] = v                   # bound inside the body only
                        elif env[k].key() != v.key():
                            env[k] = self.join(env[k], v, ln)
                        continue
                    if before[k].key() == v.key():
                        continue
                    # loop-carried name: weak update of one phi variable
                    w = self.flatten(v, ln)
                    b = self.flatten(before[k], ln)
                    if k in carried:
                        if w.k in ("A", "B"):
                            self.emit("phi", carried[k], carried[k], w.v)
                        continue
                    if w.k == "S" and b.k == "S":
                        continue
                    if w.k == "M" or b.k == "M":
                        if w.k == b.k:
                            continue
                        raise Unsupported(f"line {ln}: loop-carried name {k} changes kind")
                    changed_new = True
                    d = self.new()
                    srcs = [x.v for x in (b, w) if x.k in ("A", "B")]
                    self.emit("bind", d, srcs[0])
                    for x in srcs[1:]:
                        self.emit("phi", d, d, x)
                    carried[k] = d
                    env[k] = Val("A", d)
            exits = ends
            if not changed_new:
                break
        else:
            raise Unsupported(f"line {ln}: loop bindings do not stabilise")
        if getattr(s, "orelse", None):
            self.block(s.orelse, env)
        return True

    def assign_loop_target(self, tgt, elem: Val, env, ln):
        if isinstance(tgt, ast.Name):
            self.bind_name(tgt.id, elem, env, ln)
        elif isinstance(tgt, (ast.Tuple, ast.List)):
            self.assign(tgt, elem, env, ln)
        else:
            raise Unsupported(f"line {ln}: loop target")


# ----------------------------------------------------------------------------------------------------------------------------- driver
def ann_kind(a: Optional[ast.AST]) -> str:
    """S / M / A from a parameter annotation"""
    if a is None:
        return "A"
    if isinstance(a, ast.Name):
        return "S" if a.id in S_ANN else ("M" if a.id in M_ANN else "A")
    if isinstance(a, ast.Constant) and isinstance(a.value, str):
        return "S" if a.value in S_ANN else "A"
    if isinstance(a, ast.Subscript) and isinstance(a.value, ast.Name) and a.value.id == "Optional":
        return ann_kind(a.slice)
    return "A"


def assigned_names(fn: ast.FunctionDef) -> set:
    """every name (re)bound anywhere inside `fn` other than by its own parameter list"""
    out = set()
    for n in ast.walk(fn):
        if isinstance(n, ast.Name) and isinstance(n.ctx, (ast.Store, ast.Del)):
            out.add(n.id)
        elif isinstance(n, ast.ExceptHandler) and n.name:
            out.add(n.name)
        elif isinstance(n, (ast.Global, ast.Nonlocal)):
            out.update(n.names)
        elif isinstance(n, (ast.FunctionDef, ast.Lambda)) and n is not fn:
            a = n.args
            for x in a.args + a.kwonlyargs + a.posonlyargs + ([a.vararg] if a.vararg else []) + ([a.kwarg] if a.kwarg else []):
                out.add(x.arg)
            if isinstance(n, ast.FunctionDef):
                out.add(n.name)
        elif isinstance(n, ast.alias):
            out.add((n.asname or n.name).split(".")[0])
    return out


def init_scalar_attrs(init: Optional[ast.FunctionDef]) -> set:
    """attributes the constructor sets to a plain scalar: `self.X = bool(..) / float(..) / int(..) / str(..)`"""
    out = set()
    if init is None:
        return out
    for n in ast.walk(init):
        if isinstance(n, ast.Assign) and len(n.targets) == 1:
            t = n.targets[0]
            if isinstance(t, ast.Attribute) and isinstance(t.value, ast.Name) and t.value.id == "self":
                v = n.value
                if isinstance(v, ast.Call) and isinstance(v.func, ast.Name) and v.func.id in ("bool", "float", "int", "str"):
                    out.add(t.attr)
    return out


def split_arms(fn: ast.FunctionDef) -> Optional[Tuple[List[ast.stmt], List[Tuple[str, List[ast.stmt], List[ast.expr]]], List[ast.stmt]]]:
    """(prologue, [(label, body, tests evaluated before the body)], epilogue) for a body with exactly one top-level if/elif chain of >= 3 arms"""
    chains = [i for i, s in enumerate(fn.body) if isinstance(s, ast.If) and len(s.orelse) == 1 and isinstance(s.orelse[0], ast.If)]
    if len(chains) != 1:
        return None
    i = chains[0]
    arms = []
    tests: List[ast.expr] = []
    node = fn.body[i]
    while True:
        tests = tests + [node.test]
        arms.append((ast.unparse(node.test), node.body, list(tests)))
        if len(node.orelse) == 1 and isinstance(node.orelse[0], ast.If):
            node = node.orelse[0]
            continue
        arms.append(("else", node.orelse, list(tests)))
        break
    if len(arms) < 3:
        return None
    return fn.body[:i], arms, fn.body[i + 1:]


def method_ops(method: str, fn: ast.FunctionDef, cls_methods, init_scalars, inl, body_parts=None):
    params = fn.args.args
    name_param = params[1].arg if method == "__getattr__" and len(params) == 2 else None
    name_ok = name_param is not None and name_param not in assigned_names(fn)
    it = Interp(method, cls_methods, init_scalars, inl, name_param, name_ok)
    env: Dict[str, Val] = {}
    if not params or params[0].arg != "self":
        raise Unsupported(f"line {fn.lineno}: first parameter is not self")
    env["self"] = SELF
    for p in params[1:] + fn.args.kwonlyargs:
        k = ann_kind(p.annotation)
        env[p.arg] = S if k == "S" else (M if k == "M" else Val("A", it.entry(f"parameter {p.arg}")))
    if fn.args.vararg:
        it.nbox += 1
        env[fn.args.vararg.arg] = Val("B", it.entry(f"parameter *{fn.args.vararg.arg}"), box=it.nbox)
        it.shared_boxes.add(it.nbox)
    if fn.args.kwarg:
        it.nbox += 1
        env[fn.args.kwarg.arg] = Val("B", it.entry(f"parameter **{fn.args.kwarg.arg}"), box=it.nbox)
        it.shared_boxes.add(it.nbox)
    for d in list(fn.args.defaults) + [d for d in fn.args.kw_defaults if d is not None]:
        if not isinstance(d, ast.Constant):
            raise Unsupported(f"line {d.lineno}: non-literal parameter default")
    if body_parts is None:
        it.block(fn.body, env)
    else:
        pro, tests, body, epi = body_parts
        if it.block(pro, env):
            for t in tests:                       # the tests of this arm and of every arm before it run first (their ops, if any, are kept)
                v = it.ev(t, env)
                it.no_special(it.flatten(v, t.lineno), t.lineno, "condition")
            if it.block(body, env):
                it.block(epi, env)
    return it


def render(it: Interp) -> Tuple[int, List[str]]:
    k = len(it.entries)

    def var(v):
        return v[1] if v[0] == "e" else k + v[1]

    out = []
    for op in it.ops:
        nm = op[0]
        if nm == "nanToNum":
            out.append(f".nanToNum {var(op[1])} {var(op[2])} {'true' if op[3] else 'false'}")
        elif nm == "slotStore":
            out.append(f".slotStore {'true' if op[1] else 'false'}")
        else:
            out.append(f".{nm} " + " ".join(str(var(x)) for x in op[1:]))
    return k, out


def find_class(tree: ast.Module, name: str) -> Optional[ast.ClassDef]:
    for n in tree.body:
        if isinstance(n, ast.ClassDef) and n.name == name:
            return n
    return None


def inlinable(tree: ast.Module, repo: str) -> Dict[str, ast.FunctionDef]:
    """functions imported by name from a speckit module listed in INLINE_MODULES (and the functions of that module they call)"""
    out: Dict[str, ast.FunctionDef] = {}
    for n in tree.body:
        if isinstance(n, ast.ImportFrom) and n.module in INLINE_MODULES and n.level == 0:
            path = os.path.join(repo, INLINE_MODULES[n.module])
            mt = ast.parse(open(path).read())
            fns = {f.name: f for f in mt.body if isinstance(f, ast.FunctionDef)}
            for al in n.names:
                if al.name in fns:
                    out[al.asname or al.name] = fns[al.name]
            for nm, f in fns.items():            # callees inside that module resolve by their own names
                out.setdefault(nm, f)
    return out


def lean_ident(s: str) -> str:
    return "".join(c if c.isalnum() or c == "_" else "_" for c in s)


def generate(repo: str):
    path = os.path.join(repo, SOURCES[0])
    path2 = os.path.join(repo, SOURCES[1])
    tree = ast.parse(open(path).read())
    out = (f"/-\n  GENERATED by /verif/vk/regions/result_purity.py from {SOURCES[0]} (sha256 {sha_of(path)}) and {SOURCES[1]} (sha256 {sha_of(path2)}).\n"
           f"  Buffer effects (allocate / view / rebind / in-place write / slot store) of every method of class {CLASS}; `__getattr__` once per arm of its\n"
           "  name dispatch (prologue + arm + epilogue).  The first `k` variables of a list are its ENTRY variables (objects held by the result's slots,\n"
           "  caller arguments), all protected.  Semantics: Model/ResultPurity.lean.  Dropped: docstrings, scalar values, string formatting, which branch\n"
           "  runs (both are interpreted and joined).  Do not edit: regenerated on every check run.\n-/\n"
           "import SpecKitV.Model.ResultPurity\n\nnamespace Gen\nopen Model Model.RPurity\n\n")
    errors: List[str] = []
    cls = find_class(tree, CLASS)
    if cls is None:
        errors.append(f"class {CLASS} not found")
        out += f"def rpAll : List (Nat × List ROp) := translation_failed_{CLASS}\n\nend Gen\n"
        return out, errors
    methods: Dict[str, ast.FunctionDef] = {}
    for n in cls.body:
        if isinstance(n, ast.FunctionDef):
            if n.name in methods:
                errors.append(f"{n.name}: defined twice")
            methods[n.name] = n
        elif isinstance(n, (ast.AsyncFunctionDef, ast.ClassDef)):
            errors.append(f"line {n.lineno}: {type(n).__name__} inside the class")
        elif isinstance(n, ast.Expr) and isinstance(n.value, ast.Constant):
            continue
        elif isinstance(n, (ast.Assign, ast.AnnAssign)):
            errors.append(f"line {n.lineno}: class-level assignment (may shadow the attribute protocol)")
    for m, fn in methods.items():
        if fn.decorator_list:
            errors.append(f"{m}: decorated method (property / staticmethod / … have no rule)")
    try:
        inl = inlinable(tree, repo)
    except Exception as ex:
        inl = {}
        errors.append(f"inlinable functions: {ex!r}")
    init_scalars = init_scalar_attrs(methods.get("__init__"))
    units: List[Tuple[str, str, ast.FunctionDef, Any]] = []      # (lean name, label, fn, body parts)
    for m, fn in methods.items():
        parts = split_arms(fn) if m == "__getattr__" else None
        if parts is None:
            units.append((f"rp_{lean_ident(m)}", m, fn, None))
        else:
            pro, arms, epi = parts
            for j, (label, body, tests) in enumerate(arms):
                units.append((f"rp_{lean_ident(m)}_arm{j}", f"{m} [{label}]", fn, (pro, tests, body, epi)))
    names, labels = [], []
    for lname, label, fn, parts in units:
        meth = label.split(" ")[0]
        doc_label = label.replace("-/", "- /")
        if len(doc_label) > 150:
            doc_label = doc_label[:147] + "..."
        try:
            it = method_ops(meth, fn, methods, init_scalars, inl, parts)
            k, ops = render(it)
            body = ",\n   ".join(ops)
            ent = "; ".join(f"{i}={a}" for i, a in enumerate(it.entries))
            notes = "".join(f"\n    NOTE {n}" for n in it.notes).replace("-/", "- /")
            out += (f"/-- analysis.py:{fn.lineno}-{fn.end_lineno} `{doc_label}`\n    entry variables: {ent}{notes} -/\n"
                    f"def {lname} : Nat × List ROp := ({k},\n  [{body}])\n\n")
        except Unsupported as ex:
            errors.append(f"{label}: {ex}")
            msg = str(ex).replace("-/", "- /")
            out += f"/- UNSUPPORTED {doc_label}: {msg} -/\ndef {lname} : Nat × List ROp := translation_failed_{lname}\n\n"
        names.append(lname)
        labels.append(label)
    for need in ("__init__", "__getattr__", "__len__", "__repr__", "__dir__", "get_rms", "get_measurement", "to_dataframe", "plot"):
        if need not in methods:
            errors.append(f"method {need} not found")
            out += f"def rp_missing_{lean_ident(need)} : Nat := translation_failed_{lean_ident(need)}\n\n"
    ctor = [n for n, l in zip(names, labels) if l.split(" ")[0] == "__init__"]
    rest = [n for n, l in zip(names, labels) if l.split(" ")[0] != "__init__"]
    out += "/-- every method other than the constructor (the read-only interface of a result) -/\n"
    out += "def rpAll : List (Nat × List ROp) :=\n  [" + ",\n   ".join(rest) + "]\n\n"
    out += "def rpNames : List String :=\n  [" + ",\n   ".join('"' + l.replace("\\", "\\\\").replace('"', '\\"') + '"'
                                                            for n, l in zip(names, labels) if l.split(" ")[0] != "__init__") + "]\n\n"
    out += "/-- the constructor (may bind slots; must not write a caller array in place) -/\n"
    out += "def rpCtor : List (Nat × List ROp) := [" + ", ".join(ctor) + "]\n\nend Gen\n"
    return out, errors
