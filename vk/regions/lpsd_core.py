"""Region LpsdCore — the glue of speckit/analysis.py between a plan and the kernels, translated statement by statement:

  (a) `SpectrumAnalyzer._lpsd_core`                    -> Gen._lpsd_core  (+ its closure Gen._lpsd_core___build_window)
        the per-bin loop with its two dict caches (`window_cache` per L, `Q_cache` per (L, order)), the Kaiser rule
        `win_func(L + 1, alpha*np.pi)[:-1]` vs `win_func(L)`, S1/S2, omega, the 18-way kernel dispatch and the result row
  (b) the kernel section of `compute_single_bin`        -> Gen.single_bin_kernel_section (+ closure …___build_window)
        (from its nested `_build_window` to the `single_bin_results` dictionary: window rule, omega, detrend_mode, Q, dispatch,
        and the entries XX, YY, XY, S12, S2, M2 of the result dictionary)
  (c) `SpectrumAnalyzer.plan()` after the scheduler call -> Gen.plan_validate (lengths, per-bin tests of L, D, K)
                                                            Gen.plan_band     (band mask applied to every per-bin field, nf)

How Python becomes Lean (every rule reads the AST of the CURRENT source; what has no rule raises `Unsupported`, and the function
is emitted as a stub that does not build):
  * every translated function returns `(raised_, value)`: `raised_ : Bool` is the disjunction of the conditions of all
    `if c: raise …` statements met on the way (a bare `raise` in a branch sets it); values after a raise are meaningless in Python,
    here they are whatever the straight-line code computes (variables not yet assigned take the stated default of their kind);
  * a nested `def` (closure) becomes a top-level definition taking the captured variables as extra leading parameters and returning
    the captured variables it mutates after its value; the call site rebinds them (Python closures see the current bindings);
  * `for i in <list>` is `List.foldl` over the variables assigned in the body that exist before the loop; `for k in (<constants>)`
    is unrolled; `for i, d in enumerate(a)` is a fold over `List.range a.n` with `d := a.get i`;
  * `if/elif/else` joins the variables that exist before or are assigned on every non-raising path;
  * `if x is None` on an optional value is a `match`;
  * dict / NumPy primitives are the contracts of lean/SpecKitV/Np/LpsdCore.lean; kernels are fields of a `NpLC.KernelFamily`
    parameter named as in the source; `_build_Q`, `_select_backend`, the window callable are parameters;
  * `time.perf_counter()` and everything computed from it is `()`.

Dropped as value-irrelevant (each is listed in the generated file): docstrings, `assert`, `import`, logging under `if self.verbose`,
`np.ascontiguousarray` / `np.asarray` / `.astype` dtype and layout conversions, `float()` of a float, `isinstance` tests that hold by
typing, `arr.ndim != 1` (the plan's D entries are 1-D by typing), `alpha is None` (alpha is a float by typing: Kaiser windows always
come with a psll), the key-presence loop over REQUIRED in plan() (the plan is a record with those fields)."""
from __future__ import annotations

import ast
import copy
import json
import os
from typing import Any, Dict, List, Optional, Tuple

from ..translate import Env, FnTranslator, HEADER, Unsupported, Val, sha_of

REGION = "LpsdCore"
SOURCES = ["speckit/analysis.py"]

# ------------------------------------------------------------------------------------------ kinds
BASE_TY = {"R": "α", "N": "Nat", "Z": "Int", "B": "Bool", "S": "String", "U": "Unit", "C": "Cx α", "A": "Arr α", "A2": "Arr2 α",
           "IA": "Arr Nat", "AZ": "Arr Int", "AB": "Arr Bool", "AAN": "Arr (Arr Nat)", "AAZ": "Arr (Arr Int)",
           "WINFUNC": "NpLC.WinFunc α", "KERNELS": "NpLC.KernelFamily α", "FQ": "Nat → Int → Arr2 α", "FSEL": "Nat → String → String"}
ELEM = {"A": "R", "IA": "N", "AZ": "Z", "AB": "B", "AAN": "IA", "AAZ": "AZ"}
STATS = ("T", "R", "R", "R", "R", "R")


class Cell:
    """a kind that is fixed by its first use (dict key, list element)"""

    def __init__(self, what: str):
        self.kind: Any = None
        self.what = what


def paren(t: str) -> str:
    return f"({t})" if " " in t and not (t.startswith("(") and t.endswith(")")) else t


def lty(k: Any) -> str:
    if isinstance(k, str):
        if k not in BASE_TY:
            raise Unsupported(f"no Lean type for kind {k}")
        return BASE_TY[k]
    if k[0] == "T":
        return "(" + " × ".join(lty(x) for x in k[1:]) + ")"
    if k[0] == "O":
        return f"(Option {paren(lty(k[1]))})"
    if k[0] == "L":
        c = k[1]
        return f"(List {paren(lty(c.kind)) if c.kind is not None else '_'})"
    if k[0] == "D":
        c = k[2]
        return f"(List ({lty(c.kind) if c.kind is not None else '_'} × {lty(k[1])}))"
    raise Unsupported(f"no Lean type for kind {k!r}")


def dflt(k: Any) -> str:
    if isinstance(k, str):
        d = {"R": "(RealLike.ofNat 0)", "N": "(0 : Nat)", "Z": "(0 : Int)", "B": "false", "S": "\"\"", "U": "()", "A": "NpLC.noneArr",
             "A2": "NpLC.noneArr2", "C": "(⟨(RealLike.ofNat 0), (RealLike.ofNat 0)⟩ : Cx α)", "IA": "(⟨0, fun _ => 0⟩ : Arr Nat)",
             "AZ": "(⟨0, fun _ => 0⟩ : Arr Int)"}
        if k not in d:
            raise Unsupported(f"no default value for kind {k}")
        return d[k]
    if k[0] == "T":
        return "(" + ", ".join(dflt(x) for x in k[1:]) + ")"
    if k[0] == "O":
        return "none"
    if k[0] in ("L", "D"):
        return "[]"
    raise Unsupported(f"no default value for kind {k!r}")


def kind_eq(a: Any, b: Any) -> bool:
    if isinstance(a, str) or isinstance(b, str):
        return a == b
    if a[0] != b[0] or len(a) != len(b):
        return False
    if a[0] in ("L",):
        return a[1] is b[1] or (a[1].kind is not None and b[1].kind is not None and kind_eq(a[1].kind, b[1].kind))
    if a[0] == "D":
        return kind_eq(a[1], b[1]) and (a[2] is b[2] or (a[2].kind is not None and b[2].kind is not None and kind_eq(a[2].kind, b[2].kind)))
    return all(kind_eq(x, y) for x, y in zip(a[1:], b[1:]))


def proj(t: str, i: int, n: int) -> str:
    if n == 1:
        return t
    return t + "".join(".2" for _ in range(i)) + (".1" if i < n - 1 else "")


K_AUTO = ["A", "IA", "N", "A", "R"]
K_CSD = ["A", "A", "IA", "N", "A", "R"]
KERNEL_SIGS: Dict[str, List[str]] = {}
for _sfx in ("", "_cuda", "_np"):
    KERNEL_SIGS[f"_stats_win_only_auto{_sfx}"] = K_AUTO
    KERNEL_SIGS[f"_stats_win_only_csd{_sfx}"] = K_CSD
    KERNEL_SIGS[f"_stats_detrend0_auto{_sfx}"] = K_AUTO
    KERNEL_SIGS[f"_stats_detrend0_csd{_sfx}"] = K_CSD
    KERNEL_SIGS[f"_stats_poly_auto{_sfx}"] = K_AUTO + ["A2"]
    KERNEL_SIGS[f"_stats_poly_csd{_sfx}"] = K_CSD + ["A2"]

LEAN_RESERVED = {"fun", "let", "in", "at", "from", "end", "open", "if", "then", "else", "match", "with", "do", "def", "theorem", "have",
                 "show", "by", "where", "for", "return", "instance", "class", "structure", "namespace", "section", "variable", "import",
                 "Type", "Prop", "Sort", "default", "some", "none", "true", "false", "st_", "i_", "raised_"}


class _Subst(ast.NodeTransformer):
    def __init__(self, name: str, value: ast.AST):
        self.name, self.value = name, value

    def visit_Name(self, n):
        if n.id == self.name and isinstance(n.ctx, ast.Load):
            return ast.copy_location(copy.deepcopy(self.value), n)
        return n


# ------------------------------------------------------------------------------------------ the translator
class Glue(FnTranslator):
    """statement translator for the glue subset described in the module docstring"""

    def __init__(self, lean_name: str, access: Dict[str, Tuple[str, Any]], decl: Dict[str, Any], externals: Dict[str, Tuple[str, List[Any], Any]],
                 plan_prefix: Dict[str, Dict[str, Tuple[str, Any]]], file: str):
        dummy = ast.parse("def f():\n    pass").body[0]
        super().__init__(dummy, {}, {}, lean_name)
        self.access = dict(access)          # source text of an expression -> (Lean code, kind): self.*, self.config[...]
        self.decl = decl                    # local name -> declared kind (dict caches: the VALUE kind is declared, the key kind is inferred)
        self.externals = externals          # callable name -> (Lean code, parameter kinds, result kind)
        self.records = plan_prefix          # kind name of a record -> {string key: (Lean variable, kind)}
        self.file = file
        self.closures: Dict[str, ast.FunctionDef] = {}
        self.closure_info: Dict[str, Dict[str, Any]] = {}
        self.defs: List[str] = []           # emitted closure definitions
        self.dropped: List[str] = []
        self.n = 0
        self.nloops = 0
        self.fn_params: List[Tuple[str, Any]] = []
        self.mutated: List[str] = []        # inside a closure: captured variables it mutates (returned after the value)
        self.ret_kind: Any = None
        self.record_vars: Dict[str, str] = {}   # local variable -> record kind name
        self.record_sources: Dict[str, str] = {}   # source text of an expression that denotes a record -> record kind name
        self.consts: Dict[str, Val] = {}        # local names bound to constant tuples of strings

    # ---------------------------------------------------------------- helpers
    def fresh(self, p: str) -> str:
        self.n += 1
        return f"{p}{self.n}"

    def drop(self, s: ast.AST, why: str):
        self.dropped.append(f"line {getattr(s, 'lineno', '?')}: {why}")

    def check_name(self, n: str, lineno: int = 0):
        if n in LEAN_RESERVED or not n.isidentifier() or not n.isascii():
            raise Unsupported(f"line {lineno}: variable name {n} cannot be used in Lean")

    def dict_key(self, d: Val, k: Val, lineno: int = 0) -> str:
        cell: Cell = d.kind[2]
        if cell.kind is None:
            cell.kind = k.kind
            return k.code
        if kind_eq(cell.kind, k.kind):
            return k.code
        if cell.kind == "N" and k.kind == "Z":
            return f"(Int.toNat {k.code})"
        if cell.kind == "Z" and k.kind == "N":
            return f"(({k.code} : Nat) : Int)"
        raise Unsupported(f"line {lineno}: dict {d.code} is keyed by {cell.kind!r} and by {k.kind!r}")

    # ---------------------------------------------------------------- expressions
    def expr(self, e: ast.AST, env: Env) -> Val:
        src = ast.unparse(e)
        if src in self.access:
            c, k = self.access[src]
            return Val(c, k)
        if isinstance(e, ast.Constant) and isinstance(e.value, str):
            return Val(json.dumps(e.value), "S")
        if isinstance(e, ast.Dict) and not e.keys:
            return Val("NpLC.dictEmpty", "EMPTYDICT")
        if isinstance(e, ast.Name):
            if e.id in self.record_vars:
                return Val(e.id, "REC:" + self.record_vars[e.id])
            if e.id in self.externals and env.kinds.get(e.id) in (None, 'FQ', 'FSEL'):
                c, pk, rk = self.externals[e.id]
                return Val(c, ("F", tuple(pk), rk))
            if e.id not in env.kinds:
                raise Unsupported(f"line {e.lineno}: unknown variable {e.id}")
            return Val(e.id, env.kinds[e.id])
        if isinstance(e, ast.Tuple):
            if e.elts and all(isinstance(x, ast.Constant) and isinstance(x.value, str) for x in e.elts):
                return Val("<constant strings>", ("LIT",) + tuple(x.value for x in e.elts))
            vals = [self.expr(x, env) for x in e.elts]
            return Val("(" + ", ".join(v.code for v in vals) + ")", ("T",) + tuple(v.kind for v in vals))
        if isinstance(e, ast.List) and e.elts:
            # a heterogeneous Python list used as a record (the result row): a tuple
            vals = [self.expr(x, env) for x in e.elts]
            return Val("(" + ", ".join(v.code for v in vals) + ")", ("T",) + tuple(v.kind for v in vals))
        if isinstance(e, ast.IfExp):
            c, a, b = self.expr(e.test, env), self.expr(e.body, env), self.expr(e.orelse, env)
            if c.kind != "B":
                raise Unsupported(f"line {e.lineno}: conditional expression on non-bool")
            if b.kind == "NONE" and a.kind in ("A", "A2"):
                return Val(f"(if {c.code} then {a.code} else {dflt(a.kind)})", a.kind)     # None where an array is expected
            if isinstance(a.kind, str) and isinstance(b.kind, str):
                return super().expr(e, env)
            raise Unsupported(f"line {e.lineno}: conditional expression kinds")
        if isinstance(e, ast.UnaryOp) and isinstance(e.op, ast.Not):
            v = self.expr(e.operand, env)
            if v.kind != "B":
                raise Unsupported(f"line {e.lineno}: not on non-bool")
            return Val(f"(!{v.code})", "B")
        if isinstance(e, ast.ListComp):
            return self.listcomp(e, env)
        return super().expr(e, env)

    def listcomp(self, e: ast.ListComp, env: Env) -> Val:
        if len(e.generators) != 1 or e.generators[0].is_async:
            raise Unsupported(f"line {e.lineno}: list comprehension form")
        g = e.generators[0]
        # [f(k) for k in (<constants>)] : unrolled
        if isinstance(g.target, ast.Name) and not g.ifs:
            it = self.expr(g.iter, env)
            if isinstance(it.kind, tuple) and it.kind[0] == "LIT":
                vals = [self.expr(_Subst(g.target.id, ast.Constant(value=c)).visit(copy.deepcopy(e.elt)), env) for c in it.kind[1:]]
                k0 = vals[0].kind
                if any(not kind_eq(v.kind, k0) for v in vals):
                    raise Unsupported(f"line {e.lineno}: list comprehension with elements of different kinds")
                cell = Cell("list element")
                cell.kind = k0
                return Val("[" + ", ".join(v.code for v in vals) + "]", ("L", cell))
        # [d for d, keep in zip(l, mask) if keep]
        if (isinstance(g.target, ast.Tuple) and len(g.target.elts) == 2 and all(isinstance(t, ast.Name) for t in g.target.elts)
                and isinstance(g.iter, ast.Call) and ast.unparse(g.iter.func) == "zip" and len(g.iter.args) == 2 and len(g.ifs) == 1
                and isinstance(g.ifs[0], ast.Name) and g.ifs[0].id == g.target.elts[1].id
                and isinstance(e.elt, ast.Name) and e.elt.id == g.target.elts[0].id and g.target.elts[0].id != g.target.elts[1].id):
            l, m = self.expr(g.iter.args[0], env), self.expr(g.iter.args[1], env)
            if isinstance(l.kind, tuple) and l.kind[0] == "L" and m.kind == "AB":
                return Val(f"(NpLC.zipFilter {l.code} {m.code})", l.kind)
            if l.kind in ("AAZ", "AAN") and m.kind == "AB":
                cell = Cell("list element")
                cell.kind = ELEM[l.kind]
                return Val(f"(NpLC.zipFilter (NpLC.toList {l.code}) {m.code})", ("L", cell))
        raise Unsupported(f"line {e.lineno}: list comprehension form")

    def cmp_vals(self, op: ast.cmpop, a: Val, b: Val, lineno: int = 0) -> str:
        if a.kind == "S" and b.kind == "S":
            sym = {ast.Eq: "=", ast.NotEq: "≠"}.get(type(op))
            if sym is None:
                raise Unsupported(f"line {lineno}: comparison of strings")
            return f"(decide ({a.code} {sym} {b.code}))"
        if a.kind == "R" or b.kind == "R":
            a, b = self.to_real(a), self.to_real(b)
            f = {ast.Lt: "RealLike.lt", ast.LtE: "RealLike.le", ast.Gt: "RealLike.gt", ast.GtE: "RealLike.ge",
                 ast.Eq: "RealLike.beq", ast.NotEq: "RealLike.bne"}.get(type(op))
            if f is None:
                raise Unsupported(f"line {lineno}: comparison operator")
            return f"({f} {a.code} {b.code})"
        sym = {ast.Lt: "<", ast.LtE: "≤", ast.Gt: ">", ast.GtE: "≥", ast.Eq: "=", ast.NotEq: "≠"}.get(type(op))
        if sym is None or a.kind not in ("N", "Z") or b.kind not in ("N", "Z"):
            raise Unsupported(f"line {lineno}: comparison of kinds {a.kind!r}, {b.kind!r}")
        if a.kind == "N" and b.kind == "N":
            return f"(decide ({a.code} {sym} {b.code}))"
        return f"(decide (({a.code} : Int) {sym} ({b.code} : Int)))"

    def compare(self, e: ast.Compare, env: Env) -> Val:
        if len(e.ops) != 1:
            raise Unsupported(f"line {e.lineno}: chained comparison")
        op, l, r = e.ops[0], e.left, e.comparators[0]
        if isinstance(op, (ast.Is, ast.IsNot)):
            if not (isinstance(r, ast.Constant) and r.value is None):
                raise Unsupported(f"line {e.lineno}: `is` other than `is None`")
            v = self.expr(l, env)
            if isinstance(v.kind, tuple) and v.kind[0] == "O":
                c = f"({v.code}).isNone"
            elif v.kind == "NONE":
                c = "true"
            else:
                c = "false"          # a value that is not optional by typing is never None
            return Val(c if isinstance(op, ast.Is) else f"(!{c})", "B")
        if isinstance(op, (ast.In, ast.NotIn)):
            lv = self.expr(l, env)
            neg = isinstance(op, ast.NotIn)
            if lv.kind == "WINFUNC":
                if not (isinstance(r, ast.Tuple) and all(isinstance(x, ast.Name) for x in r.elts)
                        and sorted(x.id for x in r.elts) == ["np_kaiser", "sp_kaiser"]):
                    raise Unsupported(f"line {e.lineno}: window callable tested against something else than (np_kaiser, sp_kaiser)")
                c = f"{lv.code}.isKaiser"
            elif isinstance(r, ast.Tuple) and r.elts and lv.kind in ("N", "Z", "S"):
                parts = [self.cmp_vals(ast.Eq(), lv, self.expr(x, env), e.lineno) for x in r.elts]
                c = "(" + " || ".join(parts) + ")"
            else:
                rv = self.expr(r, env)
                if not (isinstance(rv.kind, tuple) and rv.kind[0] == "D"):
                    raise Unsupported(f"line {e.lineno}: membership test in {rv.kind!r}")
                c = f"(NpLC.dictHas {rv.code} {self.dict_key(rv, lv, e.lineno)})"
            return Val(f"(!{c})" if neg else c, "B")
        a, b = self.expr(l, env), self.expr(r, env)
        if a.kind in ("A", "IA", "AZ") and b.kind in ("R", "N", "Z"):
            ea = Val(f"({a.code}.get i_)", ELEM[a.kind])
            return Val(f"(⟨{a.code}.n, fun i_ => {self.cmp_vals(op, ea, b, e.lineno)}⟩ : Arr Bool)", "AB")
        return Val(self.cmp_vals(op, a, b, e.lineno), "B")

    def binop(self, e: ast.BinOp, env: Env) -> Val:
        a, b = self.expr(e.left, env), self.expr(e.right, env)
        if a.kind == "U" or b.kind == "U":
            return Val("()", "U")             # anything computed from a time stamp
        if isinstance(e.op, ast.BitAnd) and a.kind == "AB" and b.kind == "AB":
            return Val(f"(⟨{a.code}.n, fun i_ => ({a.code}.get i_ && {b.code}.get i_)⟩ : Arr Bool)", "AB")
        if isinstance(e.op, ast.BitAnd) and a.kind == "B" and b.kind == "B":
            return Val(f"({a.code} && {b.code})", "B")
        if not (isinstance(a.kind, str) and isinstance(b.kind, str)):
            raise Unsupported(f"line {e.lineno}: arithmetic on {a.kind!r}, {b.kind!r}")
        if isinstance(e.op, ast.Sub) and a.kind == "N" and b.kind == "N":
            return Val(f"(({a.code} : Int) - ({b.code} : Int))", "Z")     # Python integers: the difference of two naturals is an integer
        return super().binop(e, env)

    def attribute(self, e: ast.Attribute, env: Env) -> Val:
        if e.attr in ("shape", "size", "ndim") and not (isinstance(e.value, ast.Name) and e.value.id in ("np", "_np")):
            b = self.expr(e.value, env)
            if b.kind in ("A", "IA", "AZ", "AB", "AAN", "AAZ"):
                if e.attr == "shape":
                    return Val(b.code, "SHAPE")
                if e.attr == "size":
                    return Val(f"{b.code}.n", "N")
                return Val("1", "N")
            if b.kind == "A2" and e.attr == "shape":
                return Val(b.code, "SHAPE")
        return super().attribute(e, env)

    def subscript(self, e: ast.Subscript, env: Env) -> Val:
        if isinstance(e.slice, ast.Slice):
            sl = e.slice
            if sl.lower is not None or sl.step is not None or sl.upper is None:
                raise Unsupported(f"line {e.lineno}: slice form (only a[:stop])")
            b, u = self.expr(e.value, env), self.expr(sl.upper, env)
            if b.kind not in ("A", "IA", "AZ", "AB") or u.kind not in ("N", "Z"):
                raise Unsupported(f"line {e.lineno}: slice of {b.kind!r} by {u.kind!r}")
            return Val(f"(NpLC.sliceTo {b.code} ({u.code} : Int))", b.kind)
        b = self.expr(e.value, env)
        if isinstance(b.kind, str) and b.kind.startswith("REC:"):
            rec = self.records[b.kind[4:]]
            if not (isinstance(e.slice, ast.Constant) and isinstance(e.slice.value, str)):
                raise Unsupported(f"line {e.lineno}: record read with a non-constant key")
            if e.slice.value not in rec:
                raise Unsupported(f"line {e.lineno}: record has no field {e.slice.value!r}")
            c, k = rec[e.slice.value]
            if c not in env.kinds:
                raise Unsupported(f"line {e.lineno}: record field {e.slice.value!r} read before it exists")
            return Val(c, env.kinds[c])
        if b.kind == "SHAPE":
            return super().subscript(e, env)
        if isinstance(b.kind, tuple) and b.kind[0] == "D":
            k = self.expr(e.slice, env)
            return Val(f"(NpLC.dictGet {dflt(b.kind[1])} {b.code} {self.dict_key(b, k, e.lineno)})", b.kind[1])
        if isinstance(b.kind, tuple) and b.kind[0] == "L":
            if not (isinstance(e.slice, ast.Constant) and isinstance(e.slice.value, int) and e.slice.value >= 0) or b.kind[1].kind is None:
                raise Unsupported(f"line {e.lineno}: list index")
            return Val(f"({b.code}.getD {e.slice.value} {dflt(b.kind[1].kind)})", b.kind[1].kind)
        if b.kind in ELEM:
            i = self.expr(e.slice, env)
            if i.kind == "AB":
                return Val(f"(NpLC.maskSelect {b.code} {i.code})", b.kind)
            if i.kind != "N":
                raise Unsupported(f"line {e.lineno}: index of kind {i.kind!r}")
            return Val(f"({b.code}.get {i.code})", ELEM[b.kind])
        raise Unsupported(f"line {e.lineno}: subscript of {b.kind!r}")

    def call(self, e: ast.Call, env: Env) -> Val:
        f = e.func
        fu = ast.unparse(f)
        nargs = len(e.args)
        if fu in ("time.perf_counter", "_time.perf_counter") and not e.args and not e.keywords:
            return Val("()", "U")
        if fu == "float" and nargs == 1 and not e.keywords:
            v = self.expr(e.args[0], env)
            return v if v.kind == "U" else self.to_real(v)
        if fu == "int" and nargs == 1 and not e.keywords:
            v = self.expr(e.args[0], env)
            if v.kind in ("N", "Z"):
                return v
            if v.kind == "R":
                return Val(f"(RealLike.trunc {v.code})", "Z")
            raise Unsupported(f"line {e.lineno}: int() of {v.kind!r}")
        if fu == "complex" and nargs == 2 and not e.keywords:
            a, b = self.expr(e.args[0], env), self.expr(e.args[1], env)
            if a.kind != "R" or b.kind != "R":
                raise Unsupported(f"line {e.lineno}: complex() of {a.kind!r}, {b.kind!r}")
            return Val(f"(⟨{a.code}, {b.code}⟩ : Cx α)", "C")
        if fu == "len" and nargs == 1:
            v = self.expr(e.args[0], env)
            if v.kind in ELEM:
                return Val(f"{v.code}.n", "N")
            if isinstance(v.kind, tuple) and v.kind[0] == "L":
                return Val(f"{v.code}.length", "N")
            raise Unsupported(f"line {e.lineno}: len() of {v.kind!r}")
        if fu in ("np.sum", "_np.sum") and nargs == 1 and not e.keywords:
            v = self.expr(e.args[0], env)
            if v.kind != "A":
                raise Unsupported(f"line {e.lineno}: np.sum of {v.kind!r}")
            return Val(f"(NpLC.sum {v.code})", "R")
        if fu in ("np.any", "_np.any") and nargs == 1 and not e.keywords:
            v = self.expr(e.args[0], env)
            if v.kind != "AB":
                raise Unsupported(f"line {e.lineno}: np.any of {v.kind!r}")
            return Val(f"(NpLC.any {v.code})", "B")
        if fu in ("np.isfinite", "_np.isfinite") and nargs == 1 and not e.keywords:
            v = self.to_real(self.expr(e.args[0], env))
            return Val(f"(NpLC.isfinite {v.code})", "B")
        if fu in ("np.ascontiguousarray", "_np.ascontiguousarray", "np.asarray", "_np.asarray") and nargs == 1:
            for kw in e.keywords:
                if not (kw.arg == "dtype" and ast.unparse(kw.value) in ("np.float64", "np.int64", "_np.float64", "_np.int64")):
                    raise Unsupported(f"line {e.lineno}: {fu} keyword {kw.arg}")
            v = self.expr(e.args[0], env)
            if v.kind not in ("A", "A2", "IA", "AZ", "NONE"):
                raise Unsupported(f"line {e.lineno}: {fu} of {v.kind!r}")
            return v                          # dtype / layout conversion of a value that already is that array
        if isinstance(f, ast.Attribute) and f.attr == "astype" and nargs == 1:
            if ast.unparse(e.args[0]) not in ("np.float64", "_np.float64", "np.int64", "_np.int64"):
                raise Unsupported(f"line {e.lineno}: astype target")
            for kw in e.keywords:
                if kw.arg != "copy":
                    raise Unsupported(f"line {e.lineno}: astype keyword {kw.arg}")
            v = self.expr(f.value, env)
            if v.kind not in ("A", "A2", "IA", "AZ"):
                raise Unsupported(f"line {e.lineno}: astype of {v.kind!r}")
            return v
        if isinstance(f, ast.Attribute) and f.attr == "any" and not e.args and not e.keywords:
            v = self.expr(f.value, env)
            if v.kind != "AB":
                raise Unsupported(f"line {e.lineno}: .any() of {v.kind!r}")
            return Val(f"(NpLC.any {v.code})", "B")
        if isinstance(f, ast.Attribute) and f.attr == "get" and nargs in (1, 2) and not e.keywords:
            d = self.expr(f.value, env)
            if isinstance(d.kind, tuple) and d.kind[0] == "D":
                if nargs == 2 and not (isinstance(e.args[1], ast.Constant) and e.args[1].value is None):
                    raise Unsupported(f"line {e.lineno}: dict.get with a default other than None")
                k = self.expr(e.args[0], env)
                return Val(f"(NpLC.dictGetOpt {d.code} {self.dict_key(d, k, e.lineno)})", ("O", d.kind[1]))
        if fu == "isinstance" and nargs == 2:
            v = self.expr(e.args[0], env)
            if ast.unparse(e.args[1]) == "(list, tuple)" and (v.kind in ("AAZ", "AAN") or (isinstance(v.kind, tuple) and v.kind[0] == "L")):
                return Val("true", "B")       # holds by typing
            raise Unsupported(f"line {e.lineno}: isinstance test")
        if fu == "all" and nargs == 1 and isinstance(e.args[0], ast.GeneratorExp):
            g = e.args[0]
            if len(g.generators) == 1 and isinstance(g.generators[0].target, ast.Name) and not g.generators[0].ifs:
                it = self.expr(g.generators[0].iter, env)
                if isinstance(it.kind, tuple) and it.kind[0] == "L" and it.kind[1].kind is not None:
                    v = g.generators[0].target.id
                    self.check_name(v, e.lineno)
                    e2 = env.copy()
                    e2.kinds[v] = it.kind[1].kind
                    c = self.expr(g.elt, e2)
                    if c.kind != "B":
                        raise Unsupported(f"line {e.lineno}: all() of non-bool")
                    return Val(f"({it.code}.all (fun {v} => {c.code}))", "B")
            raise Unsupported(f"line {e.lineno}: all() form")
        if isinstance(f, ast.Name):
            if f.id in self.closures:
                raise Unsupported(f"line {e.lineno}: call of the closure {f.id} inside an expression (only `x = {f.id}(...)` statements)")
            fv = None
            if f.id in env.kinds:
                fv = Val(f.id, env.kinds[f.id])
            if fv is not None and fv.kind == "WINFUNC" and not e.keywords:
                args = [self.expr(a, env) for a in e.args]
                if nargs == 1 and args[0].kind == "N":
                    return Val(f"({fv.code}.call1 {args[0].code})", "A")
                if nargs == 2 and args[0].kind == "N" and args[1].kind in ("R", "N", "Z"):
                    return Val(f"({fv.code}.call2 {args[0].code} {self.to_real(args[1]).code})", "A")
                raise Unsupported(f"line {e.lineno}: window callable called with kinds {[a.kind for a in args]!r}")
            if f.id in KERNEL_SIGS and f.id not in env.kinds and not e.keywords:
                args = [self.expr(a, env) for a in e.args]
                want = KERNEL_SIGS[f.id]
                if [a.kind for a in args] != want:
                    raise Unsupported(f"line {e.lineno}: kernel {f.id} called with kinds {[a.kind for a in args]!r}, takes {want!r}")
                return Val(f"(kernels.{f.id} " + " ".join(a.code for a in args) + ")", STATS)
            if f.id in self.externals and env.kinds.get(f.id) in (None, 'FQ', 'FSEL') and not e.keywords:
                c, pk, rk = self.externals[f.id]
                args = [self.expr(a, env) for a in e.args]
                if len(args) != len(pk):
                    raise Unsupported(f"line {e.lineno}: arity of {f.id}")
                codes = []
                for a, k in zip(args, pk):
                    if k == "R":
                        a = self.to_real(a)
                    if k == "Z" and a.kind == "N":
                        a = Val(f"(({a.code} : Nat) : Int)", "Z")
                    if not kind_eq(a.kind, k):
                        raise Unsupported(f"line {e.lineno}: argument of kind {a.kind!r} for {k!r} in {f.id}")
                    codes.append(a.code)
                return Val(f"({c} " + " ".join(codes) + ")", rk)
        return super().call(e, env)

    # ---------------------------------------------------------------- statement analysis
    def assigned(self, stmts: List[ast.stmt]) -> List[str]:
        out: List[str] = []

        def add(n):
            if n not in out:
                out.append(n)

        def tgt(t):
            if isinstance(t, ast.Name):
                add(t.id)
            elif isinstance(t, (ast.Tuple, ast.List)):
                for x in t.elts:
                    tgt(x)
            elif isinstance(t, ast.Subscript) and isinstance(t.value, ast.Name):
                if t.value.id in self.record_vars:
                    rec = self.records[self.record_vars[t.value.id]]
                    if isinstance(t.slice, ast.Constant) and t.slice.value in rec:
                        add(rec[t.slice.value][0])
                    else:
                        for c, _k in rec.values():     # a store through a variable key (unrolled loops): any field
                            add(c)
                else:
                    add(t.value.id)

        def walk(ss):
            for s in ss:
                if isinstance(s, ast.Assign):
                    for t in s.targets:
                        tgt(t)
                    if isinstance(s.value, ast.Call) and isinstance(s.value.func, ast.Name) and s.value.func.id in self.closures:
                        for m in self.closure_mutated(s.value.func.id):
                            add(m)
                elif isinstance(s, ast.AnnAssign) and s.value is not None:
                    tgt(s.target)
                elif isinstance(s, ast.AugAssign):
                    tgt(s.target)
                elif isinstance(s, ast.Expr) and isinstance(s.value, ast.Call) and isinstance(s.value.func, ast.Attribute) \
                        and s.value.func.attr == "append" and isinstance(s.value.func.value, ast.Name):
                    add(s.value.func.value.id)
                elif isinstance(s, ast.If):
                    walk(s.body)
                    walk(s.orelse)
                elif isinstance(s, ast.For):
                    tgt(s.target)
                    walk(s.body)
                if isinstance(s, ast.Raise) or (isinstance(s, ast.If) and self.has_raise([s])):
                    add("raised_")
        walk(stmts)
        return out

    def has_raise(self, ss: List[ast.stmt]) -> bool:
        return any(isinstance(n, ast.Raise) for s in ss for n in ast.walk(s))

    def definite(self, stmts: List[ast.stmt]) -> Optional[set]:
        """names assigned on every path through stmts that does not raise; None if every path raises"""
        acc: set = set()
        for s in stmts:
            if isinstance(s, ast.Raise):
                return None
            if isinstance(s, ast.If):
                a, b = self.definite(s.body), self.definite(s.orelse)
                if a is None and b is None:
                    return None
                acc |= b if a is None else a if b is None else (a & b)
            elif isinstance(s, (ast.Assign, ast.AnnAssign, ast.AugAssign)):
                acc |= set(self.assigned([s]))
        return acc

    def closure_mutated(self, name: str) -> List[str]:
        fn = self.closures[name]
        params = {a.arg for a in fn.args.args}
        out = []
        for n in ast.walk(fn):
            t = None
            if isinstance(n, ast.Assign) and len(n.targets) == 1 and isinstance(n.targets[0], ast.Subscript) and isinstance(n.targets[0].value, ast.Name):
                t = n.targets[0].value.id
            if isinstance(n, ast.Call) and isinstance(n.func, ast.Attribute) and n.func.attr == "append" and isinstance(n.func.value, ast.Name):
                t = n.func.value.id
            if t is not None and t not in params and t not in out:
                out.append(t)
        return out

    def closure_captured(self, name: str, env: Env) -> List[str]:
        fn = self.closures[name]
        params = {a.arg for a in fn.args.args}
        local = set()
        for n in ast.walk(fn):
            if isinstance(n, ast.Name) and isinstance(n.ctx, ast.Store):
                local.add(n.id)
        loads = [(n.lineno, n.col_offset, n.id) for n in ast.walk(fn) if isinstance(n, ast.Name) and isinstance(n.ctx, ast.Load)]
        out = []
        for _l, _c, nm in sorted(loads):
            if nm in params or nm in local or nm in out:
                continue
            if nm in env.kinds:
                out.append(nm)
        return out

    # ---------------------------------------------------------------- statements
    SKIP_CALLS = ("logging.info", "logging.warning", "logging.debug")

    def bind(self, name: str, v: Val, env: Env, ind: str, lineno: int = 0) -> Tuple[str, Env]:
        self.check_name(name, lineno)
        env = env.copy()
        env.kinds[name] = v.kind
        return f"{ind}let {name} : {lty(v.kind)} := {v.code}\n", env

    def final_tuple(self, names: List[str], kinds: Dict[str, Any], lineno: int):
        def fin(e2: Env) -> str:
            parts = []
            for n in names:
                if n in e2.kinds:
                    if n in kinds and not kind_eq(kinds[n], e2.kinds[n]):
                        raise Unsupported(f"line {lineno}: {n} has different kinds on different paths ({kinds[n]!r} / {e2.kinds[n]!r})")
                    kinds.setdefault(n, e2.kinds[n])
                    parts.append(n)
                else:
                    parts.append(f"⟪DEFAULT:{n}⟫")     # assigned on no path reaching here (a raising path): default of its kind
            return "(" + ", ".join(parts) + ")" if len(parts) != 1 else parts[0]
        return fin

    def resolve_defaults(self, code: str, kinds: Dict[str, Any], lineno: int) -> str:
        import re
        for n in set(re.findall(r"⟪DEFAULT:(\w+)⟫", code)):
            if n not in kinds:
                raise Unsupported(f"line {lineno}: {n} is assigned on no path")
            code = code.replace(f"⟪DEFAULT:{n}⟫", dflt(kinds[n]))
        return code

    def join_let(self, names: List[str], kinds: Dict[str, Any], expr_code: str, env: Env, ind: str) -> Tuple[str, Env]:
        """`NpLC.join (<expr>) fun (a, b, …) => <rest>`: the joined value is handed to the continuation ONCE (`NpLC.join e k = k e`), so
        that nothing is duplicated however deep the joins nest; `NpLC.join` reduces when <expr> has become a tuple (`NpLC.join_mk`)"""
        env = env.copy()
        for n in names:
            env.kinds[n] = kinds[n]
        pat = "(" + ", ".join(names) + ")" if len(names) != 1 else names[0]
        return f"{ind}NpLC.join (\n{expr_code}\n{ind}  ) fun {pat} =>\n", env

    def blk(self, stmts: List[ast.stmt], env: Env, ind: str, final) -> str:
        if not stmts:
            if final is None:
                raise Unsupported("a path through the function ends without `return`")
            return ind + final(env)
        s, rest = stmts[0], stmts[1:]
        ln = getattr(s, "lineno", 0)
        # ---- dropped statements
        if isinstance(s, ast.Expr) and isinstance(s.value, ast.Constant) and isinstance(s.value.value, str):
            return self.blk(rest, env, ind, final)
        if isinstance(s, (ast.Pass, ast.Import, ast.ImportFrom)):
            return self.blk(rest, env, ind, final)
        if isinstance(s, ast.Assert):
            self.drop(s, "assert " + ast.unparse(s.test))
            return self.blk(rest, env, ind, final)
        if isinstance(s, ast.Expr) and isinstance(s.value, ast.Call) and ast.unparse(s.value.func) in self.SKIP_CALLS:
            self.drop(s, "logging call")
            return self.blk(rest, env, ind, final)
        if isinstance(s, ast.If) and ast.unparse(s.test) == "self.verbose" and not s.orelse and all(
                isinstance(b, ast.Expr) and isinstance(b.value, ast.Call) and ast.unparse(b.value.func) in self.SKIP_CALLS for b in s.body):
            self.drop(s, "logging under `if self.verbose`")
            return self.blk(rest, env, ind, final)
        # ---- nested def: remembered, translated at its first call (parameter kinds come from the call)
        if isinstance(s, ast.FunctionDef):
            if s.args.vararg or s.args.kwarg or s.args.kwonlyargs or s.args.defaults or s.decorator_list:
                raise Unsupported(f"line {ln}: nested def form")
            self.closures[s.name] = s
            return self.blk(rest, env, ind, final)
        if isinstance(s, ast.AnnAssign):
            if s.value is None or not isinstance(s.target, ast.Name):
                raise Unsupported(f"line {ln}: annotated assignment form")
            return self.blk([ast.copy_location(ast.Assign(targets=[s.target], value=s.value), s)] + rest, env, ind, final)
        if isinstance(s, ast.Raise):
            code, env = self.bind_raw("raised_", Val("true", "B"), env, ind)
            return code + self.blk(rest, env, ind, final)
        if isinstance(s, ast.Return):
            if s.value is None:
                raise Unsupported(f"line {ln}: bare return")
            v = self.expr(s.value, env)
            if self.ret_kind is not None and not kind_eq(self.ret_kind, v.kind):
                raise Unsupported(f"line {ln}: return values of different kinds ({self.ret_kind!r} / {v.kind!r})")
            self.ret_kind = v.kind
            for m in self.mutated:
                if m not in env.kinds:
                    raise Unsupported(f"line {ln}: captured {m} unknown at return")
            return ind + "(" + ", ".join(["raised_", v.code] + self.mutated) + ")"
        if isinstance(s, ast.Expr) and isinstance(s.value, ast.Call) and isinstance(s.value.func, ast.Attribute) \
                and s.value.func.attr == "append" and isinstance(s.value.func.value, ast.Name) and len(s.value.args) == 1 and not s.value.keywords:
            lst = s.value.func.value.id
            lk = env.kinds.get(lst)
            if not (isinstance(lk, tuple) and lk[0] == "L"):
                raise Unsupported(f"line {ln}: append to {lst}, which is not a list")
            v = self.expr(s.value.args[0], env)
            if lk[1].kind is None:
                lk[1].kind = v.kind
            elif not kind_eq(lk[1].kind, v.kind):
                raise Unsupported(f"line {ln}: list {lst} holds {lk[1].kind!r}, appended {v.kind!r}")
            return f"{ind}let {lst} : {lty(lk)} := {lst} ++ [{v.code}]\n" + self.blk(rest, env, ind, final)
        if isinstance(s, ast.Assign):
            return self.assign(s, rest, env, ind, final)
        if isinstance(s, ast.If):
            return self.if_stmt(s, rest, env, ind, final)
        if isinstance(s, ast.For):
            return self.for_stmt(s, rest, env, ind, final)
        raise Unsupported(f"line {ln}: statement {type(s).__name__}: {ast.unparse(s)[:60]}")

    def bind_raw(self, name: str, v: Val, env: Env, ind: str) -> Tuple[str, Env]:
        env = env.copy()
        env.kinds[name] = v.kind
        return f"{ind}let {name} : {lty(v.kind)} := {v.code}\n", env

    def none_kind(self, name: str, rest: List[ast.stmt], env: Env, ln: int) -> Any:
        """`x = None`: the kind of x is that of its next assignment (None then stands for that kind's stated default)"""
        for st in rest:
            for n in ast.walk(st):
                if isinstance(n, ast.Assign) and len(n.targets) == 1 and isinstance(n.targets[0], ast.Name) and n.targets[0].id == name \
                        and not (isinstance(n.value, ast.Constant) and n.value.value is None):
                    return self.expr(n.value, env).kind
        raise Unsupported(f"line {ln}: {name} = None is never followed by another assignment")

    def assign(self, s: ast.Assign, rest, env: Env, ind: str, final) -> str:
        ln = s.lineno
        if len(s.targets) != 1:
            raise Unsupported(f"line {ln}: chained assignment")
        t = s.targets[0]
        # closure call (statement level): value, then the captured variables it mutates
        if isinstance(s.value, ast.Call) and isinstance(s.value.func, ast.Name) and s.value.func.id in self.closures \
                and s.value.func.id not in env.kinds:
            code, v, env = self.closure_call(s.value, env, ind)
            return code + self.blk([ast.copy_location(ast.Assign(targets=[t], value=ast.Name(id=v, ctx=ast.Load())), s)] + rest, env, ind, final)
        # x[k] = v : dict store / record field store
        if isinstance(t, ast.Subscript) and isinstance(t.value, ast.Name):
            nm = t.value.id
            if nm in self.record_vars:
                rec = self.records[self.record_vars[nm]]
                if not (isinstance(t.slice, ast.Constant) and t.slice.value in rec):
                    raise Unsupported(f"line {ln}: record store with key {ast.unparse(t.slice)}")
                c, k = rec[t.slice.value]
                v = self.expr(s.value, env)
                if isinstance(k, str) and k == "Z" and v.kind == "N":
                    v = Val(f"(({v.code} : Nat) : Int)", "Z")
                if isinstance(v.kind, tuple) and v.kind[0] == "L" and k in ("AAZ",) and v.kind[1].kind == ELEM[k]:
                    v = Val(f"(NpLC.ofList {dflt(ELEM[k])} {v.code})", k)       # a Python list of arrays stored as the ragged field
                if not kind_eq(v.kind, k):
                    raise Unsupported(f"line {ln}: record field {t.slice.value!r} holds {k!r}, stored {v.kind!r}")
                code, env = self.bind_raw(c, v, env, ind)
                return code + self.blk(rest, env, ind, final)
            dk = env.kinds.get(nm)
            if isinstance(dk, tuple) and dk[0] == "D":
                d = Val(nm, dk)
                k = self.expr(t.slice, env)
                key = self.dict_key(d, k, ln)
                v = self.expr(s.value, env)
                if not kind_eq(v.kind, dk[1]):
                    raise Unsupported(f"line {ln}: dict {nm} holds {dk[1]!r}, stored {v.kind!r}")
                return f"{ind}let {nm} : {lty(dk)} := NpLC.dictSet {nm} {key} {v.code}\n" + self.blk(rest, env, ind, final)
            raise Unsupported(f"line {ln}: store into {nm}")
        if isinstance(t, ast.Tuple):
            if not all(isinstance(x, ast.Name) for x in t.elts):
                raise Unsupported(f"line {ln}: tuple target")
            v = self.expr(s.value, env)
            if not (isinstance(v.kind, tuple) and v.kind[0] == "T" and len(v.kind) - 1 == len(t.elts)):
                raise Unsupported(f"line {ln}: unpacking {len(t.elts)} names from {v.kind!r}")
            tmp = self.fresh("t")
            out = f"{ind}let {tmp} : {lty(v.kind)} := {v.code}\n"
            for i, x in enumerate(t.elts):
                c, env = self.bind(x.id, Val(proj(tmp, i, len(t.elts)), v.kind[1 + i]), env, ind, ln)
                out += c
            return out + self.blk(rest, env, ind, final)
        if not isinstance(t, ast.Name):
            raise Unsupported(f"line {ln}: assignment target {type(t).__name__}")
        name = t.id
        if ast.unparse(s.value) in self.record_sources:
            self.record_vars[name] = self.record_sources[ast.unparse(s.value)]
            return self.blk(rest, env, ind, final)
        if isinstance(s.value, ast.Name) and s.value.id in self.record_vars:
            self.record_vars[name] = self.record_vars[s.value.id]
            return self.blk(rest, env, ind, final)
        v = self.expr(s.value, env)
        if v.kind == "EMPTYDICT":
            if name not in self.decl or self.decl[name][0] != "D":
                raise Unsupported(f"line {ln}: empty dict {name} without a declared value kind")
            k = ("D", self.decl[name][1], Cell("dict key"))
            v = Val("NpLC.dictEmpty", k)
        elif v.kind == "EMPTYLIST":
            v = Val("[]", ("L", Cell("list element")))
        elif v.kind == "NONE":
            k = self.none_kind(name, rest, env, ln)
            v = Val(dflt(k), k)
        elif isinstance(v.kind, tuple) and v.kind[0] in ("LIT", "F"):
            self.consts[name] = v
            return self.blk(rest, env, ind, final)
        elif isinstance(v.kind, str) and (v.kind.startswith("REC:") or v.kind == "SHAPE"):
            raise Unsupported(f"line {ln}: cannot bind a value of kind {v.kind}")
        code, env = self.bind(name, v, env, ind, ln)
        return code + self.blk(rest, env, ind, final)

    def closure_call(self, call: ast.Call, env: Env, ind: str) -> Tuple[str, str, Env]:
        name = call.func.id
        fn = self.closures[name]
        if call.keywords or len(call.args) != len(fn.args.args):
            raise Unsupported(f"line {call.lineno}: call of {name}: arity / keywords")
        args = [self.expr(a, env) for a in call.args]
        cap = self.closure_captured(name, env)
        mut = [m for m in self.closure_mutated(name)]
        for m in mut:
            if m not in cap:
                raise Unsupported(f"line {call.lineno}: {name} mutates {m}, which is not a captured local")
        info = self.closure_info.get(name)
        if info is None:
            sub = Glue(f"{self.lean_name}__{name}", self.access, self.decl, self.externals, self.records, self.file)
            sub.mutated = mut
            sub.fn_params = [(c, env.kinds[c]) for c in cap] + [(a.arg, v.kind) for a, v in zip(fn.args.args, args)]
            sub.record_sources, sub.record_vars, sub.consts = self.record_sources, dict(self.record_vars), dict(self.consts)
            e2 = Env()
            e2.kinds["raised_"] = "B"
            decls = []
            if self.uses_kernels(fn):
                decls.append("(kernels : NpLC.KernelFamily α)")
            for c in cap:
                e2.kinds[c] = env.kinds[c]
            for a, v in zip(fn.args.args, args):
                self.check_name(a.arg, fn.lineno)
                e2.kinds[a.arg] = v.kind
            body = "  let raised_ : Bool := false\n" + sub.blk(list(fn.body), e2, "  ", None)
            for c in cap:
                decls.append(f"({c} : {lty(env.kinds[c])})")
            for a, v in zip(fn.args.args, args):
                decls.append(f"({a.arg} : {lty(v.kind)})")
            rk = ("T", "B", sub.ret_kind) + tuple(env.kinds[m] for m in mut)
            doc = (f"/-- {os.path.basename(self.file)}:{fn.lineno}-{fn.end_lineno} closure `{name}`; captured: {', '.join(cap) or '-'}; "
                   f"mutated (returned after the value): {', '.join(mut) or '-'} -/\n")
            self.defs += sub.defs
            self.defs.append(doc + f"def {sub.lean_name} " + " ".join(decls) + f" : {lty(rk)} :=\n" + body + "\n\n")
            self.dropped += sub.dropped
            info = {"lean": sub.lean_name, "cap": cap, "capk": [env.kinds[c] for c in cap], "argk": [v.kind for v in args], "mut": mut,
                    "ret": sub.ret_kind, "kernels": self.uses_kernels(fn)}
            self.closure_info[name] = info
        else:
            if cap != info["cap"] or any(not kind_eq(env.kinds[c], k) for c, k in zip(cap, info["capk"])) \
                    or any(not kind_eq(v.kind, k) for v, k in zip(args, info["argk"])):
                raise Unsupported(f"line {call.lineno}: {name} called with other kinds than at its first call")
        tmp = self.fresh("cr")
        n = 2 + len(mut)
        out = f"{ind}let {tmp} := {info['lean']} " + " ".join((["kernels"] if info["kernels"] else []) + cap + [v.code for v in args]) + "\n"
        out += f"{ind}let raised_ : Bool := (raised_ || {proj(tmp, 0, n)})\n"
        val = self.fresh("cv")
        env = env.copy()
        env.kinds[val] = info["ret"]
        out += f"{ind}let {val} : {lty(info['ret'])} := {proj(tmp, 1, n)}\n"
        for i, m in enumerate(mut):
            out += f"{ind}let {m} : {lty(env.kinds[m])} := {proj(tmp, 2 + i, n)}\n"
        return out, val, env

    def uses_kernels(self, fn: ast.AST) -> bool:
        return any(isinstance(n, ast.Name) and n.id in KERNEL_SIGS for n in ast.walk(fn))

    def if_stmt(self, s: ast.If, rest, env: Env, ind: str, final) -> str:
        ln = s.lineno
        # `if c: raise …`
        if len(s.body) == 1 and isinstance(s.body[0], ast.Raise) and not s.orelse:
            c = self.expr(s.test, env)
            if c.kind != "B":
                raise Unsupported(f"line {ln}: if condition kind {c.kind!r}")
            code, env = self.bind_raw("raised_", Val(f"(raised_ || {c.code})", "B"), env, ind)
            return code + self.blk(rest, env, ind, final)
        # option match: `if x is None` / `if x is not None`
        t = s.test
        if isinstance(t, ast.Compare) and len(t.ops) == 1 and isinstance(t.ops[0], (ast.Is, ast.IsNot)) \
                and isinstance(t.comparators[0], ast.Constant) and t.comparators[0].value is None:
            v = self.expr(t.left, env)
            if isinstance(v.kind, tuple) and v.kind[0] == "O":
                return self.option_match(s, v, rest, env, ind, final)
        c = self.expr(s.test, env)
        if c.kind != "B":
            raise Unsupported(f"line {ln}: if condition kind {c.kind!r}")
        # early return
        if s.body and isinstance(s.body[-1], ast.Return) and not s.orelse:
            then_code = self.blk(s.body, env, ind + "  ", None)
            else_code = self.blk(rest, env, ind + "  ", final)
            return f"{ind}if {c.code} then\n{then_code}\n{ind}else\n{else_code}"
        names, kinds = self.join_names(s, env)
        fin = self.final_tuple(names, kinds, ln)
        then_code = self.blk(s.body, env, ind + "    ", fin)
        else_code = self.blk(s.orelse, env, ind + "    ", fin)
        body = self.resolve_defaults(f"{ind}  if {c.code} then\n{then_code}\n{ind}  else\n{else_code}", kinds, ln)
        code, env = self.join_let(names, kinds, body, env, ind)
        return code + self.blk(rest, env, ind, final)

    def join_names(self, s: ast.If, env: Env) -> Tuple[List[str], Dict[str, Any]]:
        asg = self.assigned(s.body + s.orelse)
        df = self.definite([s])
        names = ["raised_"] + [n for n in asg if n != "raised_" and (n in env.kinds or (df is not None and n in df))]
        return names, {}

    def option_match(self, s: ast.If, v: Val, rest, env: Env, ind: str, final) -> str:
        ln = s.lineno
        is_none = isinstance(s.test.ops[0], ast.Is)
        none_body, some_body = (s.body, s.orelse) if is_none else (s.orelse, s.body)
        names, kinds = self.join_names(s, env)
        left = s.test.left
        src = ast.unparse(left)
        saved = self.access.get(src)
        if isinstance(left, ast.Name):
            binder = left.id
            if binder not in names:
                names.append(binder)
            env_some = env.copy()
            env_some.kinds[binder] = v.kind[1]
            env_none = env.copy()
            del env_none.kinds[binder]            # it is None there: unusable until reassigned
        else:
            binder = self.fresh("opt")
            env_some = env.copy()
            env_none = env
        fin = self.final_tuple(names, kinds, ln)
        if not isinstance(left, ast.Name):
            self.access[src] = (binder, v.kind[1])
        try:
            some_code = self.blk(some_body, env_some, ind + "    ", fin)
        finally:
            if not isinstance(left, ast.Name):
                if saved is None:
                    del self.access[src]
                else:
                    self.access[src] = saved
        none_code = self.blk(none_body, env_none, ind + "    ", fin)
        body = self.resolve_defaults(f"{ind}  match {v.code} with\n{ind}  | none =>\n{none_code}\n{ind}  | some {binder} =>\n{some_code}", kinds, ln)
        env2 = env.copy()
        if isinstance(left, ast.Name) and left.id in env2.kinds:
            del env2.kinds[left.id]
        code, env2 = self.join_let(names, kinds, body, env2, ind)
        return code + self.blk(rest, env2, ind, final)

    def for_stmt(self, s: ast.For, rest, env: Env, ind: str, final) -> str:
        ln = s.lineno
        if s.orelse:
            raise Unsupported(f"line {ln}: for/else")
        # constant tuple of strings: unrolled
        it_const = None
        if isinstance(s.iter, ast.Name) and s.iter.id in self.consts and self.consts[s.iter.id].kind[0] == "LIT":
            it_const = self.consts[s.iter.id].kind[1:]
        elif isinstance(s.iter, ast.Tuple) and s.iter.elts and all(isinstance(x, ast.Constant) and isinstance(x.value, str) for x in s.iter.elts):
            it_const = tuple(x.value for x in s.iter.elts)
        if it_const is not None:
            if not isinstance(s.target, ast.Name):
                raise Unsupported(f"line {ln}: loop target")
            body: List[ast.stmt] = []
            for c in it_const:
                for b in s.body:
                    body.append(ast.fix_missing_locations(_Subst(s.target.id, ast.Constant(value=c)).visit(copy.deepcopy(b))))
            return self.blk(body + rest, env, ind, final)
        pre = ""
        body_env = env.copy()
        if isinstance(s.target, ast.Name):
            it = self.expr(s.iter, env)
            if not (isinstance(it.kind, tuple) and it.kind[0] == "L" and it.kind[1].kind == "N"):
                raise Unsupported(f"line {ln}: loop over {it.kind!r}")
            iv, lst = s.target.id, it.code
            self.check_name(iv, ln)
            body_env.kinds[iv] = "N"
            head = ""
        elif (isinstance(s.target, ast.Tuple) and len(s.target.elts) == 2 and all(isinstance(x, ast.Name) for x in s.target.elts)
              and isinstance(s.iter, ast.Call) and ast.unparse(s.iter.func) == "enumerate" and len(s.iter.args) == 1 and not s.iter.keywords):
            a = self.expr(s.iter.args[0], env)
            iv, dv = s.target.elts[0].id, s.target.elts[1].id
            self.check_name(iv, ln)
            self.check_name(dv, ln)
            if a.kind not in ("AAZ", "AAN", "A", "IA", "AZ"):
                raise Unsupported(f"line {ln}: enumerate over {a.kind!r}")
            lst = f"(List.range {a.code}.n)"
            body_env.kinds[iv] = "N"
            body_env.kinds[dv] = ELEM[a.kind]
            head = f"let {dv} : {lty(ELEM[a.kind])} := {a.code}.get {iv}\n"
        else:
            raise Unsupported(f"line {ln}: loop form")
        state = [n for n in self.assigned(s.body) if n in env.kinds and n not in (iv,)]
        if "raised_" not in state:
            state = ["raised_"] + state
        else:
            state = ["raised_"] + [n for n in state if n != "raised_"]
        kinds: Dict[str, Any] = {n: env.kinds[n] for n in state}
        # the loop body becomes a named definition `<fn>_loop<k>` (so that it can be reasoned about on its own): parameters are
        # the enclosing function's parameters, then the locals it reads (in order of definition), then the state and the loop variable
        used = {n.id for b in s.body for n in ast.walk(b) if isinstance(n, ast.Name)}
        for b in s.body:
            for n in ast.walk(b):
                if isinstance(n, ast.Call) and isinstance(n.func, ast.Name) and n.func.id in self.closures:
                    used |= set(self.closure_captured(n.func.id, env))
        pnames = [n for n, _k in self.fn_params]
        locs = [n for n in env.kinds if n not in pnames and n not in state and n != "raised_" and n in used]
        body = self.blk(list(s.body), body_env, "    ", self.final_tuple(state, kinds, ln))
        pat = "(" + ", ".join(state) + ")" if len(state) != 1 else state[0]
        sty = lty(("T",) + tuple(kinds[n] for n in state)) if len(state) != 1 else lty(kinds[state[0]])
        self.nloops += 1
        lname = f"{self.lean_name}_loop{self.nloops}"
        decl = " ".join(f"({n} : {lty(k)})" for n, k in self.fn_params) + "".join(f" ({n} : {lty(env.kinds[n])})" for n in locs)
        doc = (f"/-- {os.path.basename(self.file)}:{s.lineno}-{s.end_lineno} body of the loop `for {ast.unparse(s.target)} in {ast.unparse(s.iter)}` of "
               f"`{self.lean_name}`; state: {', '.join(state)} -/\n")
        self.defs.append(doc + f"def {lname} {decl} (st_ : {sty}) ({iv} : Nat) : {sty} :=\n  NpLC.join st_ fun {pat} =>\n"
                         + ("    " + head if head else "") + body + "\n\n")
        fold = f"{ind}  List.foldl ({lname} " + " ".join(pnames + locs) + f") {pat} {lst}"
        code, env = self.join_let(state, kinds, fold, env, ind)
        return code + self.blk(rest, env, ind, final)


# ------------------------------------------------------------------------------------------ the four functions of the region
COMMON_ACCESS = {
    "self.x1": ("self_x1", "A"), "self.x2": ("self_x2", "A"), "self.iscsd": ("self_iscsd", "B"), "self.fs": ("self_fs", "R"),
    "self.nx": ("self_nx", "Z"),
    "self.config['win_func']": ("config_win_func", "WINFUNC"),
    "self.config.get('alpha', None)": ("config_alpha", "R"),
    "self.config['order']": ("config_order", "Z"), "self.config.get('order', 0)": ("config_order", "Z"),
    "self.config['backend']": ("config_backend", "S"),
}
COMMON_PARAMS = [("kernels", "KERNELS"), ("_build_Q", "FQ"), ("_select_backend", "FSEL"), ("config_win_func", "WINFUNC"), ("config_alpha", "R"),
                 ("config_order", "Z"), ("config_backend", "S"), ("self_x1", "A"), ("self_x2", "A"), ("self_iscsd", "B"), ("self_fs", "R"),
                 ("self_nx", "Z")]
EXTERNALS = {"_build_Q": ("_build_Q", ["N", "Z"], "A2"), "_select_backend": ("_select_backend", ["N", "S"], "S")}
CORE_DECL = {"window_cache": ("D", ("T", "A", "R", "R")), "Q_cache": ("D", "A2")}
CORE_PLAN = {"L": ("plan_L", "IA"), "D": ("plan_D", "AAN"), "f": ("plan_f", "A")}
PLAN_REC = {"f": ("plan_f", "A"), "r": ("plan_r", "A"), "b": ("plan_b", "A"), "L": ("plan_L", "AZ"), "K": ("plan_K", "AZ"),
            "navg": ("plan_navg", "AZ"), "O": ("plan_O", "A"), "D": ("plan_D", "AAZ"), "nf": ("plan_nf", "Z")}
SINGLE_KEYS = ["XX", "YY", "XY", "S12", "S2", "M2"]


def find_method(tree: ast.Module, cls: str, name: str) -> ast.FunctionDef:
    for c in tree.body:
        if isinstance(c, ast.ClassDef) and c.name == cls:
            for m in c.body:
                if isinstance(m, ast.FunctionDef) and m.name == name:
                    return m
    raise Unsupported(f"{cls}.{name} not found")


def emit(g: Glue, lean_name: str, params: List[Tuple[str, Any]], body: List[ast.stmt], env_extra: Dict[str, Any], doc: str) -> str:
    env = Env()
    env.kinds["raised_"] = "B"
    g.fn_params = list(params)
    for n, k in params:
        env.kinds[n] = k
    for n, k in env_extra.items():
        env.kinds[n] = k
    code = "  let raised_ : Bool := false\n" + g.blk(body, env, "  ", None)
    if g.ret_kind is None:
        raise Unsupported(f"{lean_name}: no return")
    rty = lty(("T", "B", g.ret_kind))
    decl = " ".join(f"({n} : {lty(k)})" for n, k in params)
    dropped = "".join(f"\n    dropped: {d}" for d in g.dropped)
    return "".join(g.defs) + f"/-- {doc}{dropped} -/\ndef {lean_name} {decl} : {rty} :=\n{code}\n\n"


def gen_lpsd_core(tree: ast.Module, path: str) -> str:
    m = find_method(tree, "SpectrumAnalyzer", "_lpsd_core")
    if [a.arg for a in m.args.args] != ["self", "f_indices"]:
        raise Unsupported("_lpsd_core: parameters changed")
    g = Glue("_lpsd_core", COMMON_ACCESS, CORE_DECL, EXTERNALS, {"plan": CORE_PLAN}, path)
    g.record_sources = {"self._plan_cache": "plan"}
    g.consts = {}
    cell = Cell("list element")
    cell.kind = "N"
    params = COMMON_PARAMS + [("plan_L", "IA"), ("plan_D", "AAN"), ("plan_f", "A"), ("f_indices", ("L", cell))]
    return emit(g, "_lpsd_core", params, list(m.body), {}, f"analysis.py:{m.lineno}-{m.end_lineno} `SpectrumAnalyzer._lpsd_core`")


def gen_single(tree: ast.Module, path: str) -> str:
    m = find_method(tree, "SpectrumAnalyzer", "compute_single_bin")
    body = list(m.body)
    i0 = [i for i, s in enumerate(body) if isinstance(s, ast.FunctionDef) and s.name == "_build_window"]
    i1 = [i for i, s in enumerate(body) if isinstance(s, ast.Assign) and len(s.targets) == 1 and ast.unparse(s.targets[0]) == "single_bin_results"]
    if len(i0) != 1 or len(i1) != 1 or i0[0] >= i1[0]:
        raise Unsupported("compute_single_bin: `def _build_window` … `single_bin_results = {…}` section not found")
    sect = body[i0[0]:i1[0]]
    d = body[i1[0]].value
    if not isinstance(d, ast.Dict) or not all(isinstance(k, ast.Constant) for k in d.keys):
        raise Unsupported("compute_single_bin: single_bin_results is not a dictionary display")
    table = {k.value: v for k, v in zip(d.keys, d.values)}
    outs = []
    for key in SINGLE_KEYS:
        if key not in table:
            raise Unsupported(f"compute_single_bin: result dictionary has no key {key!r}")
        v = table[key]
        # _np.array([expr], dtype=…)
        if not (isinstance(v, ast.Call) and ast.unparse(v.func) in ("_np.array", "np.array") and len(v.args) == 1
                and isinstance(v.args[0], ast.List) and len(v.args[0].elts) == 1
                and all(kw.arg == "dtype" for kw in v.keywords)):
            raise Unsupported(f"compute_single_bin: result entry {key!r} is not `_np.array([value], dtype=…)`")
        outs.append(v.args[0].elts[0])
    ret = ast.Return(value=ast.Tuple(elts=outs, ctx=ast.Load()))
    ast.copy_location(ret, body[i1[0]])
    ast.fix_missing_locations(ret)
    g = Glue("single_bin_kernel_section", COMMON_ACCESS, {}, EXTERNALS, {}, path)
    g.record_sources = {}
    g.consts = {}
    params = COMMON_PARAMS + [("freq", "R"), ("final_fres", "R"), ("segL", "N"), ("starts", "IA")]
    return emit(g, "single_bin_kernel_section", params, sect + [ret], {},
                f"analysis.py:{sect[0].lineno}-{body[i1[0]].end_lineno} kernel section of `SpectrumAnalyzer.compute_single_bin`: "
                f"returns the values stored under {', '.join(SINGLE_KEYS)}")


PLAN_ACCESS = {"self.nx": ("self_nx", "Z"), "self.config['Lmin']": ("config_Lmin", "Z"), "scheduler_func != lpsd_plan": ("(!scheduler_is_lpsd_plan)", "B"),
               "scheduler_func == lpsd_plan": ("scheduler_is_lpsd_plan", "B"), "self.config['band']": ("config_band", ("O", ("T", "R", "R")))}
PLAN_FIELDS_IN = [("plan_f", "A"), ("plan_r", "A"), ("plan_b", "A"), ("plan_L", "AZ"), ("plan_K", "AZ"), ("plan_navg", "AZ"), ("plan_O", "A"),
                  ("plan_D", "AAZ")]


def _plan_sections(tree: ast.Module) -> Tuple[List[ast.stmt], List[ast.stmt], ast.FunctionDef]:
    m = find_method(tree, "SpectrumAnalyzer", "plan")
    body = list(m.body)
    a = [i for i, s in enumerate(body) if isinstance(s, ast.Assign) and ast.unparse(s.targets[0]) == "lens"]
    b = [i for i, s in enumerate(body) if isinstance(s, ast.If) and ast.unparse(s.test) == "self.config['band'] is not None"]
    c = [i for i, s in enumerate(body) if isinstance(s, ast.Assign) and ast.unparse(s.targets[0]) == "self._plan_cache"]
    if len(a) != 1 or len(b) != 1 or len(c) != 1 or not a[0] < b[0] < c[0]:
        raise Unsupported("plan(): `lens = …` / `if self.config['band'] is not None` / `self._plan_cache = …` landmarks not found")
    pre = body[:a[0]]
    # what precedes the validation must end with the scheduler call and the key-presence loop (dropped)
    tail = [ast.unparse(s)[:40] for s in pre[-3:]]
    if not (len(pre) >= 3 and tail[0].startswith("plan_output = scheduler_func(") and tail[1].startswith("REQUIRED = (") and tail[2].startswith("for k in REQUIRED:")):
        raise Unsupported("plan(): statements between the scheduler call and `lens = …` changed: " + " | ".join(tail))
    return body[a[0]:b[0]], body[b[0]:c[0]], m


def gen_plan_validate(tree: ast.Module, path: str) -> str:
    val, _band, m = _plan_sections(tree)
    g = Glue("plan_validate", PLAN_ACCESS, {}, {}, {"plan_output": PLAN_REC}, path)
    g.record_sources = {}
    g.record_vars = {"plan_output": "plan_output"}
    g.consts = {}
    g.dropped.append(f"lines {m.lineno}-{val[0].lineno - 1}: scheduler call and key-presence loop over REQUIRED")
    ret = ast.parse("return (plan_output['nf'], plan_output['D'])").body[0]
    params = [("config_Lmin", "Z"), ("scheduler_is_lpsd_plan", "B"), ("self_nx", "Z")] + PLAN_FIELDS_IN
    return emit(g, "plan_validate", params, val + [ret], {},
                f"analysis.py:{val[0].lineno}-{val[-1].end_lineno} validation of the scheduler output in `SpectrumAnalyzer.plan`: "
                f"`raised_` = some test raised; value = (nf, normalised D)")


def gen_plan_band(tree: ast.Module, path: str) -> str:
    _val, band, m = _plan_sections(tree)
    g = Glue("plan_band", PLAN_ACCESS, {}, {}, {"plan_output": PLAN_REC}, path)
    g.record_sources = {}
    g.record_vars = {"plan_output": "plan_output"}
    g.consts = {}
    ret = ast.parse("return (plan_output['f'], plan_output['r'], plan_output['b'], plan_output['L'], plan_output['K'], plan_output['navg'], "
                    "plan_output['O'], plan_output['D'], plan_output['nf'])").body[0]
    cell = Cell("list element")
    cell.kind = "AZ"
    params = [("config_band", ("O", ("T", "R", "R")))] + PLAN_FIELDS_IN + [("plan_nf", "Z"), ("D_norm", ("L", cell))]
    return emit(g, "plan_band", params, band + [ret], {},
                f"analysis.py:{band[0].lineno}-{band[-1].end_lineno} band restriction and final coherence test of `SpectrumAnalyzer.plan`: "
                f"value = (f, r, b, L, K, navg, O, D, nf) after the restriction")


CONVENTIONS = """/-! Conventions of this file (vk/regions/lpsd_core.py):
  * every definition returns `(raised_, value)`; `raised_` is the disjunction of the conditions of the `if c: raise …` statements met
    (a `raise` in a branch sets it); after a raise Python has no value — here the straight-line value is kept;
  * `NpLC.join e fun (a, b, …) => rest` is `let (a, b, …) := e; rest` (the variables an `if` / `match` / loop assigns);
  * a closure takes the captured variables first and returns the captured variables it mutates after its value;
  * loop bodies are separate definitions `<fn>_loop<k>` folded with `List.foldl`.
  Dropped as value-irrelevant everywhere: docstrings, `assert`, imports, logging (also under `if self.verbose`), `np.ascontiguousarray` /
  `np.asarray` / `.astype(…)` (dtype and layout conversions of values that already are such arrays), `float()` of a float, `int()` of an
  integer, `isinstance(D, (list, tuple))` and `arr.ndim != 1` (hold by typing: emitted as `true` / `1 ≠ 1`), `x is None` for a value that is
  a float by typing (`alpha`: emitted as `false`), `time.perf_counter()` and what is computed from it (`()`).
  Statement-specific drops are listed in the docstring of each definition. -/

"""

PARTS = [("_lpsd_core", gen_lpsd_core), ("single_bin_kernel_section", gen_single), ("plan_validate", gen_plan_validate), ("plan_band", gen_plan_band)]


def generate(repo: str) -> Tuple[str, List[str]]:
    path = os.path.join(repo, SOURCES[0])
    out = HEADER.format(src=SOURCES[0], sha=sha_of(path)).replace(
        "import SpecKitV.Num\n", "import SpecKitV.Num\nimport SpecKitV.Np.LpsdCore\n")
    out = out.replace("GENERATED by /verif/vk/translate.py", "GENERATED by /verif/vk/regions/lpsd_core.py")
    out = out.replace("set_option linter.unusedVariables false\n", "set_option linter.unusedVariables false\n\n" + CONVENTIONS, 1)
    errors: List[str] = []
    try:
        tree = ast.parse(open(path).read())
    except SyntaxError as ex:
        tree = None
        errors.append(f"analysis.py does not parse: {ex}")
    for name, fn in PARTS:
        try:
            if tree is None:
                raise Unsupported("source does not parse")
            out += fn(tree, path)
        except Unsupported as ex:
            errors.append(f"{name}: {ex}")
            msg = str(ex).replace("-/", "- /")
            out += f"/- UNSUPPORTED {name}: {msg} -/\ndef {name}_UNSUPPORTED : Nat := translation_failed_{name}\n\n"
    out += "end Gen\n"
    return out, errors
