"""Region ConfigGlue — the DECISION AND STATE LOGIC of `speckit.analysis.SpectrumAnalyzer`, translated from the current source:

  cg_plan                      `plan()` as a state transformer over (config["Jdes"], _plan_cache): cache test, common_kwargs, the
                               force_target_nf branch (search, None -> raise, config WRITE), call_kwargs, the scheduler call, and the
                               position of `self._plan_cache = …` relative to the validation / band statements.  The scheduler, the
                               Jdes search and the validation/normalisation/band statements are PARAMETERS: statement number i of the
                               tail of plan() (after the scheduler call) is the opaque `step i`.
  cg_compute                   `compute()`'s use of plan() (and `_lpsd_core`'s read of the cache)
  cg_compute_single_bin_state  frame condition: compute_single_bin touches neither the cache nor config
  cg_process_window_config     window / alpha / overlap decision table of `_process_window_config`
  cg_process_scheduler_config  name -> scheduler map of `_process_scheduler_config`
  cg_single_bin_request        compute_single_bin's L / fres resolution (before the already translated segmentation)

Everything emitted is derived from the AST.  The accepted subset is small and explicit (see `Glue`); anything else raises
`Unsupported`, and the function becomes a stub that does not build.

Statements DROPPED as value-irrelevant (each occurrence is listed, with its line, in the generated docstrings):
  docstrings; `if self.verbose:` blocks whose body consists of logging calls only; function-level `import … as …`;
  `sched_name = …` (used by logging only — checked); in compute_single_bin the `freq` validation / Nyquist warning that precedes the
  request resolution (precondition: freq finite and >= 0).
"""
from __future__ import annotations

import ast
import os
from typing import Callable, Dict, List, Optional, Set, Tuple

from ..translate import HEADER, Unsupported, _lit_float, sha_of

REGION = "ConfigGlue"
SOURCES = ["speckit/analysis.py"]

TY = {
    "Z": "Int", "R": "α", "B": "Bool", "S": "String", "V": "CG.PyVal α", "OR": "Option α", "OZ": "Option Int", "OS": "Option String",
    "KW": "CG.SchedKw α", "SF": "CG.SchedFn α P", "P": "P", "OP": "Option P", "WF": "CG.WinFn", "SID": "CG.SchedId",
    "WOBJ": "CG.PyObj CG.WinFn", "SOBJ": "CG.PyObj CG.SchedId", "DWF": "CG.PyDict CG.WinFn", "DR": "CG.PyDict α",
    "DSID": "CG.PyDict CG.SchedId", "OBAND": "Option (α × α)", "ST": "CG.PlanSt P", "WOUT": "CG.WinOut α", "SOUT": "CG.SchedOut",
}
OPTION_OF = {"OR": "R", "OZ": "Z", "OS": "S", "OP": "P"}
SOME_OF = {v: k for k, v in OPTION_OF.items()}
EXC = {"ValueError", "TypeError", "RuntimeError", "KeyError"}
KW_FIELDS = ["N", "fs", "olap", "bmin", "Lmin", "Kdes", "num_patch_pts", "Jdes"]


def lean_str(s: str) -> str:
    if any(ord(c) < 32 or ord(c) > 126 for c in s):
        raise Unsupported(f"non-ASCII / control character in string literal {s!r}")
    return '"' + s.replace("\\", "\\\\").replace('"', '\\"') + '"'


def ind(text: str, n: int = 2) -> str:
    pad = " " * n
    return "\n".join(pad + l if l else l for l in text.split("\n"))


class Val:
    def __init__(self, code: str, kind: str, binds: Optional[List[Tuple[str, str, str]]] = None):
        self.code = code
        self.kind = kind
        # hoisted sub-expressions that may raise: (name, code, mode); mode "opt:<Exc>" (code : Option _, none raises Exc) or "exc" (code : Except PyExc _)
        self.binds = binds or []


def is_self_attr(e: ast.AST, attr: Optional[str] = None) -> bool:
    return isinstance(e, ast.Attribute) and isinstance(e.value, ast.Name) and e.value.id == "self" and (attr is None or e.attr == attr)


def is_config_sub(e: ast.AST) -> Optional[str]:
    """`self.config["k"]` -> k"""
    if isinstance(e, ast.Subscript) and is_self_attr(e.value, "config") and isinstance(e.slice, ast.Constant) and isinstance(e.slice.value, str):
        return e.slice.value
    return None


def is_logging_only(stmts: List[ast.stmt]) -> bool:
    for s in stmts:
        if not (isinstance(s, ast.Expr) and isinstance(s.value, ast.Call) and isinstance(s.value.func, ast.Attribute)
                and isinstance(s.value.func.value, ast.Name) and s.value.func.value.id == "logging"):
            return False
    return bool(stmts)


def is_verbose_log(s: ast.stmt) -> bool:
    return isinstance(s, ast.If) and is_self_attr(s.test, "verbose") and not s.orelse and is_logging_only(s.body)


def terminates(stmts: List[ast.stmt]) -> bool:
    """every path through the statements ends in raise / return"""
    if not stmts:
        return False
    s = stmts[-1]
    if isinstance(s, (ast.Raise, ast.Return)):
        return True
    if isinstance(s, ast.If):
        return bool(s.orelse) and terminates(s.body) and terminates(s.orelse)
    if isinstance(s, ast.Try):
        return False
    return False


def loads(stmts: List[ast.stmt]) -> Set[str]:
    """names read by the statements, not counting `if self.verbose: logging…` blocks (dropped)"""
    out: Set[str] = set()

    def visit(n: ast.AST):
        if isinstance(n, ast.stmt) and is_verbose_log(n):
            return
        if isinstance(n, ast.Name) and isinstance(n.ctx, ast.Load):
            out.add(n.id)
        for c in ast.iter_child_nodes(n):
            visit(c)
    for s in stmts:
        visit(s)
    return out


class Glue:
    """one method (or statement range of a method) -> one Lean definition, continuation style.

    mode "plan":   state variable `st : CG.PlanSt P`; `raise E` -> `(CG.PlanRes.raised E, st)`; `return v` -> `(…, st)`
    mode "out":    config-writing method; writes go to the record `cfg`; `raise E` -> `Except.error E`; falling off the end -> `Except.ok cfg`
    mode "value":  `return v` -> `Except.ok v`
    """

    def __init__(self, mode: str, globs: Dict[str, Tuple[str, str]], cfg_reads: Dict[str, Tuple[str, str]], cfg_writes: Dict[str, str],
                 self_attrs: Dict[str, Tuple[str, str]], decl: Dict[str, str], out_kind: str = ""):
        self.mode = mode
        self.globs = globs            # module-level names: name -> (lean code, kind) | ("", "FN:<name>")
        self.cfg_reads = cfg_reads    # self.config["k"] (read): k -> (code, kind)
        self.cfg_writes = cfg_writes  # self.config["k"] = … : k -> kind of the stored value
        self.self_attrs = self_attrs  # self.<a> (read): a -> (code, kind)
        self.decl = decl              # declared kinds of locals that are assigned values of several kinds (coerced)
        self.out_kind = out_kind
        self.tmp = 0
        self.dropped: List[str] = []
        self.np_alias = {"np"}
        # plan() tail
        self.planvar: Optional[str] = None
        self.plan_assign_stmt: Optional[ast.stmt] = None
        self.alias = False            # self._plan_cache is the object `planvar`
        self.nsteps = 0
        self.band_step: Optional[int] = None
        self.steps_doc: List[str] = []
        self.step_ranges: List[Tuple[int, int]] = []     # source line range of opaque statement i

    # ------------------------------------------------------------------ helpers
    def fresh(self, base: str) -> str:
        self.tmp += 1
        return f"{base}{self.tmp}"

    def raise_code(self, exc_code: str) -> str:
        if self.mode == "plan":
            return f"(CG.PlanRes.raised {exc_code}, st)"
        return f"(Except.error {exc_code})"

    def exc_of(self, s: ast.Raise) -> str:
        e = s.exc
        name = None
        if isinstance(e, ast.Call) and isinstance(e.func, ast.Name):
            name = e.func.id
        elif isinstance(e, ast.Name):
            name = e.id
        if name is None:
            raise Unsupported(f"line {s.lineno}: raise of a non-class expression")
        return "CG.PyExc." + (name if name in EXC else "Other")

    def wrap(self, binds: List[Tuple[str, str, str]], body: str) -> str:
        """evaluate the hoisted may-raise sub-expressions (in order), then `body`"""
        for (name, code, mode) in reversed(binds):
            if mode == "float":
                raise Unsupported("float() of an arbitrary object outside `try: … except …: raise …` (which exception it raises is not modelled)")
            if mode.startswith("opt:"):
                body = f"match {code} with\n| none => {self.raise_code('CG.PyExc.' + mode[4:])}\n| some {name} =>\n{ind(body)}"
            else:
                body = f"match {code} with\n| Except.error e_ => {self.raise_code('e_')}\n| Except.ok {name} =>\n{ind(body)}"
        return body

    def to_real(self, v: Val) -> Val:
        if v.kind == "R":
            return v
        if v.kind == "Z":
            return Val(f"(RealLike.ofInt {v.code})", "R", v.binds)
        raise Unsupported(f"cannot use a value of kind {v.kind} as a real")

    def coerce(self, v: Val, kind: str, lineno: int = 0) -> Val:
        if v.kind == kind:
            return v
        if kind == "R" and v.kind == "Z":
            return self.to_real(v)
        if kind in OPTION_OF:
            if v.kind == "NONE":
                return Val("none", kind, v.binds)
            if v.kind == OPTION_OF[kind]:
                return Val(f"(some {v.code})", kind, v.binds)
        raise Unsupported(f"line {lineno}: a value of kind {v.kind} where {kind} is expected")

    def pyval(self, v: Val, lineno: int) -> Val:
        """a scheduler keyword value"""
        m = {"Z": "CG.PyVal.int", "R": "CG.PyVal.real", "B": "CG.PyVal.bool", "S": "CG.PyVal.str", "OZ": "CG.PyVal.ofOptInt"}
        if v.kind == "V":
            return v
        if v.kind in m:
            return Val(f"({m[v.kind]} {v.code})", "V", v.binds)
        if v.kind == "NONE":
            return Val("CG.PyVal.none", "V", v.binds)
        raise Unsupported(f"line {lineno}: a value of kind {v.kind} cannot be a scheduler keyword argument")

    # ------------------------------------------------------------------ expressions
    def ex(self, e: ast.AST, env: Dict[str, str]) -> Val:
        ln = getattr(e, "lineno", 0)
        if isinstance(e, ast.Constant):
            c = e.value
            if c is None:
                return Val("none", "NONE")
            if isinstance(c, bool):
                return Val("true" if c else "false", "B")
            if isinstance(c, int):
                return Val(f"({c} : Int)", "Z")
            if isinstance(c, float):
                return Val(_lit_float(c), "R")
            if isinstance(c, str):
                return Val(lean_str(c), "S")
            raise Unsupported(f"line {ln}: constant {c!r}")
        if isinstance(e, ast.Name):
            if e.id in env:
                return Val(e.id, env[e.id])
            if e.id in self.globs and not self.globs[e.id][1].startswith("FN:"):
                return Val(*self.globs[e.id])
            raise Unsupported(f"line {ln}: unknown name {e.id}")
        if isinstance(e, ast.Attribute):
            if is_self_attr(e) and e.attr in self.self_attrs:
                return Val(*self.self_attrs[e.attr])
            if isinstance(e.value, ast.Name) and e.value.id in self.np_alias and e.attr == "hanning" and "np" in self.globs:
                return Val("CG.WinFn.np_hanning", "WF")
            raise Unsupported(f"line {ln}: attribute {ast.unparse(e)}")
        if isinstance(e, ast.Subscript):
            k = is_config_sub(e)
            if k is not None:
                if k in self.cfg_reads:
                    return Val(*self.cfg_reads[k])
                if k in self.cfg_writes and self.mode == "out":
                    # an entry this method wrote earlier: absent -> KeyError
                    t = self.fresh("t")
                    return Val(t, self.cfg_writes[k], [(t, f"cfg.{k}", "opt:KeyError")])
                raise Unsupported(f"line {ln}: read of self.config[{k!r}] (not in this method's table)")
            d = self.ex(e.value, env)
            if d.kind in ("DWF", "DR", "DSID"):
                key = self.ex(e.slice, env)
                elem = {"DWF": "WF", "DR": "R", "DSID": "SID"}[d.kind]
                t = self.fresh("t")
                if key.kind == "S":
                    return Val(t, elem, d.binds + key.binds + [(t, f"(CG.dictGet? {d.code} {key.code})", "opt:KeyError")])
                if key.kind == "OS":
                    return Val(t, elem, d.binds + key.binds + [(t, f"(CG.dictGetOpt? {d.code} {key.code})", "opt:KeyError")])
            raise Unsupported(f"line {ln}: subscript {ast.unparse(e)}")
        if isinstance(e, ast.UnaryOp):
            v = self.ex(e.operand, env)
            if isinstance(e.op, ast.Not) and v.kind == "B":
                return Val(f"(!{v.code})", "B", v.binds)
            if isinstance(e.op, ast.USub) and v.kind == "R":
                return Val(f"(-{v.code})", "R", v.binds)
            if isinstance(e.op, ast.USub) and v.kind == "Z":
                return Val(f"(-{v.code})", "Z", v.binds)
            raise Unsupported(f"line {ln}: unary {type(e.op).__name__} on {v.kind}")
        if isinstance(e, ast.BoolOp):
            vals = [self.ex(x, env) for x in e.values]
            if any(v.kind != "B" for v in vals):
                raise Unsupported(f"line {ln}: and/or on non-bool ({[v.kind for v in vals]})")
            if any(v.binds for v in vals[1:]):
                raise Unsupported(f"line {ln}: a sub-expression that may raise inside a short-circuit and/or")
            op = " && " if isinstance(e.op, ast.And) else " || "
            return Val("(" + op.join(v.code for v in vals) + ")", "B", vals[0].binds)
        if isinstance(e, ast.BinOp):
            a, b = self.ex(e.left, env), self.ex(e.right, env)
            sym = {ast.Add: "+", ast.Sub: "-", ast.Mult: "*", ast.Div: "/"}.get(type(e.op))
            if sym is None:
                raise Unsupported(f"line {ln}: operator {type(e.op).__name__}")
            if sym == "/" or "R" in (a.kind, b.kind):
                a, b = self.to_real(a), self.to_real(b)
                return Val(f"({a.code} {sym} {b.code})", "R", a.binds + b.binds)
            if a.kind == b.kind == "Z":
                return Val(f"({a.code} {sym} {b.code})", "Z", a.binds + b.binds)
            raise Unsupported(f"line {ln}: arithmetic on {a.kind}, {b.kind}")
        if isinstance(e, ast.Compare):
            return self.compare(e, env)
        if isinstance(e, ast.Tuple):
            vals = [self.ex(x, env) for x in e.elts]
            return Val("(" + ", ".join(v.code for v in vals) + ")", "T:" + ",".join(v.kind for v in vals), sum((v.binds for v in vals), []))
        if isinstance(e, ast.Dict):
            return self.dict_literal(e, env)
        if isinstance(e, ast.Call):
            return self.call(e, env)
        raise Unsupported(f"line {ln}: expression {type(e).__name__}: {ast.unparse(e)[:60]}")

    def dict_literal(self, e: ast.Dict, env) -> Val:
        keys = []
        items = []
        kind = None
        binds = []
        for k, v in zip(e.keys, e.values):
            if not (isinstance(k, ast.Constant) and isinstance(k.value, str)):
                raise Unsupported(f"line {e.lineno}: dict literal with a non-string key")
            if k.value in keys:
                raise Unsupported(f"line {e.lineno}: duplicate key {k.value!r} in a dict literal")
            keys.append(k.value)
            vv = self.ex(v, env)
            binds += vv.binds
            if kind is None:
                kind = vv.kind
            elif kind != vv.kind:
                raise Unsupported(f"line {e.lineno}: dict literal with values of kinds {kind} and {vv.kind}")
            items.append(f"({lean_str(k.value)}, {vv.code})")
        dk = {"SID": "DSID", "WF": "DWF", "R": "DR"}.get(kind or "")
        if dk is None:
            raise Unsupported(f"line {e.lineno}: dict literal of kind {kind}")
        return Val("([" + ", ".join(items) + "] : " + TY[dk] + ")", dk, binds)

    def compare(self, e: ast.Compare, env) -> Val:
        ln = e.lineno
        operands = [e.left] + list(e.comparators)
        parts = []
        binds: List = []
        vals = [self.ex(x, env) for x in operands]
        for v in vals[1:]:
            if v.binds and len(e.ops) > 1:
                raise Unsupported(f"line {ln}: a sub-expression that may raise inside a chained comparison")
        for i, op in enumerate(e.ops):
            a, b = vals[i], vals[i + 1]
            binds += (a.binds if i == 0 else []) + b.binds
            parts.append(self.cmp1(op, a, b, ln))
        return Val(parts[0] if len(parts) == 1 else "(" + " && ".join(parts) + ")", "B", binds)

    def cmp1(self, op, a: Val, b: Val, ln: int) -> str:
        if isinstance(op, (ast.Is, ast.IsNot)):
            neg = isinstance(op, ast.IsNot)
            if b.kind == "NONE" and (a.kind in OPTION_OF or a.kind == "OBAND"):
                return f"({a.code}.isSome)" if neg else f"({a.code}.isNone)"
            if a.kind == b.kind and a.kind in ("WF", "SID"):       # identity of callables
                return f"(!({a.code} == {b.code}))" if neg else f"({a.code} == {b.code})"
            raise Unsupported(f"line {ln}: `is` between {a.kind} and {b.kind}")
        if isinstance(op, (ast.In, ast.NotIn)):
            neg = isinstance(op, ast.NotIn)
            if b.kind.startswith("T:") and all(k == a.kind for k in b.kind[2:].split(",")) and a.kind in ("S", "WF", "SID"):
                r = f"([{b.code[1:-1]}].contains {a.code})"
            elif b.kind in ("DWF", "DR", "DSID") and a.kind == "S":
                r = f"(CG.dictHas {b.code} {a.code})"
            elif b.kind in ("DWF", "DR", "DSID") and a.kind == "OS":
                r = f"(CG.dictHasOpt {b.code} {a.code})"
            else:
                raise Unsupported(f"line {ln}: `in` between {a.kind} and {b.kind}")
            return f"(!{r})" if neg else r
        if isinstance(op, (ast.Eq, ast.NotEq)):
            neg = isinstance(op, ast.NotEq)
            if a.kind == b.kind == "S":
                r = f"({a.code} == {b.code})"
            elif a.kind == "V" and b.kind == "S":
                r = f"(CG.PyVal.eqStr {a.code} {b.code})"
            elif a.kind == b.kind == "Z":
                r = f"(decide ({a.code} = {b.code}))"
            elif a.kind == b.kind and a.kind in ("WF", "SID"):
                r = f"({a.code} == {b.code})"
            elif {a.kind, b.kind} <= {"R", "Z"}:
                r = f"(RealLike.beq {self.to_real(a).code} {self.to_real(b).code})"
            else:
                raise Unsupported(f"line {ln}: == between {a.kind} and {b.kind}")
            return f"(!{r})" if neg else r
        if a.kind == b.kind == "Z":
            sym = {ast.Lt: "<", ast.LtE: "≤", ast.Gt: ">", ast.GtE: "≥"}[type(op)]
            return f"(decide ({a.code} {sym} {b.code}))"
        if {a.kind, b.kind} <= {"R", "Z"}:
            fn = {ast.Lt: "RealLike.lt", ast.LtE: "RealLike.le", ast.Gt: "RealLike.gt", ast.GtE: "RealLike.ge"}[type(op)]
            return f"({fn} {self.to_real(a).code} {self.to_real(b).code})"
        raise Unsupported(f"line {ln}: comparison between {a.kind} and {b.kind}")

    def call(self, e: ast.Call, env) -> Val:
        ln = e.lineno
        f = e.func
        fname = f.id if isinstance(f, ast.Name) else None
        star = [k for k in e.keywords if k.arg is None]
        # f(**kw): a call of a scheduler callable
        if fname is not None and env.get(fname) == "SF":
            if e.args or len(e.keywords) != 1 or not star:
                raise Unsupported(f"line {ln}: scheduler call that is not `f(**kwargs)`")
            kw = self.ex(star[0].value, env)
            if kw.kind != "KW":
                raise Unsupported(f"line {ln}: scheduler called with ** of a {kw.kind}")
            t = self.fresh("t")
            return Val(t, "P", kw.binds + [(t, f"({fname}.call {kw.code})", "exc")])
        if fname == "dict":
            return self.dict_call(e, env)
        if fname is not None and fname not in env:
            if fname in ("int", "float", "round", "callable", "isinstance", "getattr"):
                return self.known_call(fname, e, env)
            if fname in self.globs and self.globs[fname][1].startswith("FN:"):
                return self.known_call(self.globs[fname][1][3:], e, env)
        if isinstance(f, ast.Attribute):
            # x.lower()
            if f.attr == "lower" and not e.args and not e.keywords:
                v = self.ex(f.value, env)
                if v.kind == "S":
                    return Val(f"(CG.strLower {v.code})", "S", v.binds)
            # np.isfinite(x)
            if isinstance(f.value, ast.Name) and f.value.id in self.np_alias and f.attr == "isfinite" and len(e.args) == 1 and not e.keywords and f.value.id not in env:
                v = self.to_real(self.ex(e.args[0], env))
                return Val(f"(CG.isfinite {v.code})", "B", v.binds)
            # self.config.get("k", None)
            if f.attr == "get" and is_self_attr(f.value, "config") and len(e.args) == 2 and isinstance(e.args[0], ast.Constant) \
                    and isinstance(e.args[1], ast.Constant) and e.args[1].value is None and not e.keywords:
                k = e.args[0].value
                if self.mode == "out" and k in self.cfg_writes and self.cfg_writes[k] in OPTION_OF:
                    return Val(f"(cfg.{k}.getD none)", self.cfg_writes[k])
        raise Unsupported(f"line {ln}: call {ast.unparse(e)[:70]}")

    def dict_call(self, e: ast.Call, env) -> Val:
        """dict(k=v, …) / dict(base, k=v, …) building scheduler keyword arguments"""
        ln = e.lineno
        if any(k.arg is None for k in e.keywords) or len(e.args) > 1:
            raise Unsupported(f"line {ln}: dict(...) form")
        binds: List = []
        if e.args:
            base = self.ex(e.args[0], env)
            if base.kind != "KW":
                raise Unsupported(f"line {ln}: dict(base, …) where base is a {base.kind}")
            binds += base.binds
            head = f"{base.code} with "
        else:
            head = ""
        seen = set()
        fields = []
        for k in e.keywords:
            if k.arg not in KW_FIELDS:
                raise Unsupported(f"line {ln}: scheduler keyword {k.arg!r} is not in the modelled protocol {KW_FIELDS}")
            if k.arg in seen:
                raise Unsupported(f"line {ln}: keyword {k.arg} repeated")
            seen.add(k.arg)
            v = self.pyval(self.ex(k.value, env), ln)
            binds += v.binds
            fields.append(f"{k.arg} := some {v.code}")
        if not fields:
            raise Unsupported(f"line {ln}: dict() without keywords")
        return Val("({ " + head + ", ".join(fields) + " } : CG.SchedKw α)", "KW", binds)

    def known_call(self, name: str, e: ast.Call, env) -> Val:
        ln = e.lineno
        if any(k.arg is None for k in e.keywords) and name != "find_Jdes_binary_search":
            raise Unsupported(f"line {ln}: ** in a call of {name}")
        if name in ("int", "float", "round") and len(e.args) == 1 and not e.keywords:
            v = self.ex(e.args[0], env)
            if name == "int":
                if v.kind == "Z":
                    return v
                if v.kind == "R":
                    return Val(f"(RealLike.trunc {v.code})", "Z", v.binds)
            if name == "float":
                if v.kind == "R":
                    return v
                if v.kind == "Z":
                    return self.to_real(v)
                if v.kind == "V":
                    t = self.fresh("t")
                    return Val(t, "R", v.binds + [(t, f"(CG.PyVal.float? float_of_str {v.code})", "float")])
            if name == "round" and v.kind == "R":
                return Val(f"(RealLike.roundEven {v.code})", "Z", v.binds)
            raise Unsupported(f"line {ln}: {name}() of a {v.kind}")
        if name == "isinstance" and len(e.args) == 2 and isinstance(e.args[1], ast.Name) and e.args[1].id == "str":
            v = self.ex(e.args[0], env)
            if v.kind in ("WOBJ", "SOBJ"):
                return Val(f"(match {v.code} with | CG.PyObj.str _ => true | _ => false)", "B", v.binds)
            if v.kind == "S":
                return Val("true", "B", v.binds)
            raise Unsupported(f"line {ln}: isinstance(·, str) of a {v.kind}")
        if name == "callable" and len(e.args) == 1:
            v = self.ex(e.args[0], env)
            if v.kind in ("WOBJ", "SOBJ"):
                return Val(f"(match {v.code} with | CG.PyObj.fn _ => true | _ => false)", "B", v.binds)
            if v.kind in ("WF", "SID", "SF"):
                return Val("true", "B", v.binds)
            raise Unsupported(f"line {ln}: callable() of a {v.kind}")
        if name == "getattr" and len(e.args) == 3 and isinstance(e.args[1], ast.Constant) and e.args[1].value == "__name__":
            v = self.ex(e.args[0], env)
            d = self.ex(e.args[2], env)
            if d.kind != "S":
                raise Unsupported(f"line {ln}: getattr default of kind {d.kind}")
            if v.kind == "SF":
                return Val(f"({v.code}.name.getD {d.code})", "S", v.binds + d.binds)
            if v.kind == "SID":
                return Val(f"((CG.SchedId.name {v.code}).getD {d.code})", "S", v.binds + d.binds)
            raise Unsupported(f"line {ln}: getattr(·, '__name__', ·) of a {v.kind}")
        if name in ("kaiser_alpha", "kaiser_rov") and len(e.args) == 1 and not e.keywords:
            v = self.to_real(self.ex(e.args[0], env))
            return Val(f"({name} {v.code})", "R", v.binds)
        if name == "find_Jdes_binary_search":
            star = [k for k in e.keywords if k.arg is None]
            if len(e.args) != 2 or len(e.keywords) != 1 or not star:
                raise Unsupported(f"line {ln}: find_Jdes_binary_search call form")
            s, t_ = self.ex(e.args[0], env), self.ex(e.args[1], env)
            kw = self.ex(star[0].value, env)
            if (s.kind, t_.kind, kw.kind) != ("SF", "Z", "KW"):
                raise Unsupported(f"line {ln}: find_Jdes_binary_search called with ({s.kind}, {t_.kind}, **{kw.kind})")
            t = self.fresh("t")
            return Val(t, "OZ", s.binds + t_.binds + kw.binds + [(t, f"(find_Jdes_binary_search {s.code} {t_.code} {kw.code})", "exc")])
        if name in ("is_function_in_dict", "get_key_for_function") and len(e.args) == 2 and not e.keywords:
            a, d = self.ex(e.args[0], env), self.ex(e.args[1], env)
            if (a.kind, d.kind) != ("WF", "DWF"):
                raise Unsupported(f"line {ln}: {name} on ({a.kind}, {d.kind})")
            return Val(f"(CG.{name} {a.code} {d.code})", "B" if name == "is_function_in_dict" else "OS", a.binds + d.binds)
        raise Unsupported(f"line {ln}: call of {name}")

    # ------------------------------------------------------------------ statements
    def assigned(self, stmts: List[ast.stmt]) -> List[str]:
        """local names (and the pseudo-variables st / cfg) assigned anywhere in the statements, in order of first assignment"""
        out: List[str] = []

        def add(n):
            if n not in out:
                out.append(n)
        for s in stmts:
            for n in ast.walk(s):
                if isinstance(n, (ast.Assign, ast.AugAssign, ast.AnnAssign)):
                    tg = n.targets if isinstance(n, ast.Assign) else [n.target]
                    for t in tg:
                        if isinstance(t, ast.Name):
                            add(t.id)
                        elif is_config_sub(t) is not None:
                            add("st" if self.mode == "plan" else "cfg")
                        elif is_self_attr(t):
                            add("st")
                        elif isinstance(t, ast.Subscript) and isinstance(t.value, ast.Name):
                            add(t.value.id)
                        else:
                            raise Unsupported(f"line {n.lineno}: assignment target {ast.unparse(t)}")
                elif isinstance(n, ast.ExceptHandler) and n.name:
                    pass
        return out

    def block(self, stmts: List[ast.stmt], env: Dict[str, str], k: Callable[[Dict[str, str]], str], live_after: Set[str]) -> str:
        if not stmts:
            return k(env)
        s, rest = stmts[0], stmts[1:]
        ln = s.lineno
        if isinstance(s, ast.Expr) and isinstance(s.value, ast.Constant) and isinstance(s.value.value, str):
            return self.block(rest, env, k, live_after)                                  # docstring
        if isinstance(s, ast.Import):
            for a in s.names:
                if a.name == "numpy" and a.asname:
                    self.np_alias.add(a.asname)
            self.dropped.append(f"line {ln}: {ast.unparse(s)}")
            return self.block(rest, env, k, live_after)
        if is_verbose_log(s):
            self.dropped.append(f"lines {ln}-{s.end_lineno}: if self.verbose: logging…")
            return self.block(rest, env, k, live_after)
        if self.planvar is not None:
            return self.tail(stmts, env, k)
        if isinstance(s, ast.Raise):
            return self.raise_code(self.exc_of(s))
        if isinstance(s, ast.Return):
            return self.ret(s, env)
        if isinstance(s, ast.Assign) and len(s.targets) == 1:
            return self.assign(s, rest, env, k, live_after)
        if isinstance(s, ast.If):
            return self.if_stmt(s, rest, env, k, live_after)
        if isinstance(s, ast.Try):
            return self.try_stmt(s, rest, env, k, live_after)
        raise Unsupported(f"line {ln}: statement {type(s).__name__}: {ast.unparse(s)[:60]}")

    def ret(self, s: ast.Return, env) -> str:
        if self.mode == "plan":
            if s.value is not None and is_self_attr(s.value, "_plan_cache"):
                return "(CG.PlanRes.ofOpt st.cache, st)"
            if s.value is not None:
                v = self.ex(s.value, env)
                if v.kind == "P":
                    return self.wrap(v.binds, f"(CG.PlanRes.ok {v.code}, st)")
                if v.kind == "OP":
                    return self.wrap(v.binds, f"(CG.PlanRes.ofOpt {v.code}, st)")
            raise Unsupported(f"line {s.lineno}: return {ast.unparse(s.value) if s.value else ''}")
        if self.mode == "value" and s.value is not None:
            v = self.ex(s.value, env)
            return self.wrap(v.binds, f"(Except.ok {v.code})")
        raise Unsupported(f"line {s.lineno}: return in a config-writing method")

    def assign(self, s: ast.Assign, rest, env, k, live_after) -> str:
        ln = s.lineno
        t = s.targets[0]
        # sched_name = … : logging only
        if isinstance(t, ast.Name) and t.id == "sched_name":
            used = loads(rest)
            if "sched_name" in used or "sched_name" in live_after:
                raise Unsupported(f"line {ln}: sched_name is used outside logging")
            self.dropped.append(f"lines {ln}-{s.end_lineno}: sched_name = … (used by logging only)")
            return self.block(rest, env, k, live_after)
        v = self.ex(s.value, env)
        if isinstance(t, ast.Name):
            kind = v.kind
            if t.id in self.decl:
                v = self.coerce(v, self.decl[t.id], ln)
                kind = v.kind
            if kind == "NONE" or kind.startswith("T:"):
                raise Unsupported(f"line {ln}: assignment of a value of kind {kind} to {t.id}")
            if t.id in env and env[t.id] != kind:
                raise Unsupported(f"line {ln}: {t.id} changes kind from {env[t.id]} to {kind}")
            env2 = dict(env)
            env2[t.id] = kind
            if kind == "P" and self.mode == "plan":
                if v.binds and v.binds[-1][2] == "exc" and v.code == v.binds[-1][0]:
                    self.planvar = t.id           # plan_output = scheduler_func(**call_kwargs): the tail of plan() starts here
                    self.plan_assign_stmt = s
                body = self.block(rest, env2, k, live_after)
                return self.wrap(v.binds, f"let {t.id} : {TY[kind]} := {v.code}\n{body}")
            body = self.block(rest, env2, k, live_after)
            return self.wrap(v.binds, f"let {t.id} : {TY[kind]} := {v.code}\n{body}")
        key = is_config_sub(t)
        if key is not None:
            if key not in self.cfg_writes:
                raise Unsupported(f"line {ln}: write of self.config[{key!r}] (not in this method's table)")
            v = self.coerce(v, self.cfg_writes[key], ln)
            body = self.block(rest, env, k, live_after)
            if self.mode == "plan":
                if key != "Jdes":
                    raise Unsupported(f"line {ln}: plan() writes self.config[{key!r}]")
                return self.wrap(v.binds, f"let st : CG.PlanSt P := {{ st with jdes := {v.code} }}\n{body}")
            return self.wrap(v.binds, f"let cfg : {TY[self.out_kind]} := {{ cfg with {key} := some {v.code} }}\n{body}")
        if isinstance(t, ast.Subscript) and isinstance(t.value, ast.Name) and env.get(t.value.id) == "KW" \
                and isinstance(t.slice, ast.Constant) and isinstance(t.slice.value, str):
            if t.slice.value not in KW_FIELDS:
                raise Unsupported(f"line {ln}: scheduler keyword {t.slice.value!r} is not in the modelled protocol")
            v = self.pyval(v, ln)
            body = self.block(rest, env, k, live_after)
            return self.wrap(v.binds, f"let {t.value.id} : CG.SchedKw α := {{ {t.value.id} with {t.slice.value} := some {v.code} }}\n{body}")
        raise Unsupported(f"line {ln}: assignment target {ast.unparse(t)}")

    def narrowing(self, test: ast.AST, env) -> Optional[Tuple[str, str, str, bool]]:
        """(variable, pattern of the positive arm, kind inside it, positive arm is the `if` body?)"""
        if isinstance(test, ast.Compare) and len(test.ops) == 1 and isinstance(test.left, ast.Name) and isinstance(test.comparators[0], ast.Constant) \
                and test.comparators[0].value is None and isinstance(test.ops[0], (ast.Is, ast.IsNot)):
            x = test.left.id
            if env.get(x) in OPTION_OF:
                return (x, f"some {x}", OPTION_OF[env[x]], isinstance(test.ops[0], ast.IsNot))
        if isinstance(test, ast.Call) and isinstance(test.func, ast.Name) and test.args and isinstance(test.args[0], ast.Name) and not test.keywords:
            x = test.args[0].id
            if test.func.id == "isinstance" and len(test.args) == 2 and isinstance(test.args[1], ast.Name) and test.args[1].id == "str" \
                    and env.get(x) in ("WOBJ", "SOBJ") and "isinstance" not in env:
                return (x, f"CG.PyObj.str {x}", "S", True)
            if test.func.id == "callable" and len(test.args) == 1 and env.get(x) in ("WOBJ", "SOBJ") and "callable" not in env:
                return (x, f"CG.PyObj.fn {x}", {"WOBJ": "WF", "SOBJ": "SID"}[env[x]], True)
        return None

    def if_stmt(self, s: ast.If, rest, env, k, live_after) -> str:
        ln = s.lineno
        body, orelse = list(s.body), list(s.orelse)
        tb, te = terminates(body), terminates(orelse)
        live = loads(rest) | live_after
        join_name = None
        calls: List[Dict[str, str]] = []
        params: List[str] = []
        if not rest or tb or te:
            # at most one branch falls through (or nothing follows): the rest is appended to the branch that falls through
            kb = (lambda env2: self.block(rest, env2, k, live_after))
            k_body = k_else = kb
        else:
            join_name = self.fresh("k")
            params = [v for v in self.assigned([s]) if v in live or v in ("st", "cfg")]

            def kj(env2):
                calls.append({p: ("" if p in ("st", "cfg") else env2.get(p, "?")) for p in params})
                return f"{join_name} " + (" ".join(params) if params else "()")
            k_body = k_else = kj
        nar = self.narrowing(s.test, env)
        if nar is not None:
            x, pat, kind, positive = nar
            env_pos = dict(env)
            env_pos[x] = kind
            pos_stmts, neg_stmts = (body, orelse) if positive else (orelse, body)
            pos = self.block(pos_stmts, env_pos, k_body if positive else k_else, live) if pos_stmts else (k_body if positive else k_else)(env_pos)
            neg = self.block(neg_stmts, dict(env), k_else if positive else k_body, live) if neg_stmts else (k_else if positive else k_body)(dict(env))
            neg_pat = "none" if pat.startswith("some ") else "_"
            text = f"match {x} with\n| {pat} => (\n{ind(pos)})\n| {neg_pat} => (\n{ind(neg)})"
            prefix_binds: List = []
        else:
            # truthiness of the cache object
            if self.mode == "plan" and is_self_attr(s.test, "_plan_cache"):
                c = Val("(CG.truthyOpt truthy st.cache)", "B")
            else:
                c = self.ex(s.test, env)
            if c.kind != "B":
                raise Unsupported(f"line {ln}: `if` on a value of kind {c.kind}")
            a = self.block(body, dict(env), k_body, live) if body else k_body(dict(env))
            b = self.block(orelse, dict(env), k_else, live) if orelse else k_else(dict(env))
            text = f"if {c.code} then (\n{ind(a)})\nelse (\n{ind(b)})"
            prefix_binds = c.binds
        if join_name is not None:
            env_rest = dict(env)
            binder = []
            for p in params:
                if p in ("st", "cfg"):
                    binder.append(f"({p} : {TY['ST'] if p == 'st' else TY[self.out_kind]})")
                    continue
                kinds = {c_[p] for c_ in calls}
                if len(kinds) != 1 or "?" in kinds:
                    raise Unsupported(f"line {ln}: {p} is not assigned a value of one kind on every path that continues after this `if` ({sorted(kinds)})")
                kd = kinds.pop()
                env_rest[p] = kd
                binder.append(f"({p} : {TY[kd]})")
            if not calls:
                raise Unsupported(f"line {ln}: internal: join without callers")
            rest_text = self.block(rest, env_rest, k, live_after)
            head = " ".join(binder) if binder else "(_ : Unit)"
            text = f"let {join_name} := fun {head} => (\n{ind(rest_text)})\n{text}"
        return self.wrap(prefix_binds, text)

    def try_stmt(self, s: ast.Try, rest, env, k, live_after) -> str:
        """try: <one assignment whose value has ONE sub-expression that may raise>  except <E> [as x]: raise <E'>(…)"""
        ln = s.lineno
        if len(s.body) != 1 or not isinstance(s.body[0], ast.Assign) or len(s.handlers) != 1 or s.orelse or s.finalbody:
            raise Unsupported(f"line {ln}: try statement shape")
        h = s.handlers[0]
        if len(h.body) != 1 or not isinstance(h.body[0], ast.Raise) or not isinstance(h.type, ast.Name):
            raise Unsupported(f"line {ln}: except handler shape")
        handler_exc = self.exc_of(h.body[0])
        a = s.body[0]
        # translate the assignment with a marker continuation, then redirect the single may-raise bind to the handler
        v = self.ex(a.value, env)
        if len(v.binds) != 1:
            raise Unsupported(f"line {ln}: try body with {len(v.binds)} sub-expressions that may raise (expected exactly 1)")
        name, code, mode = v.binds[0]
        raised = {"float": {"TypeError", "ValueError"}, "opt:KeyError": {"KeyError"}}.get(mode)
        if raised is None:
            raise Unsupported(f"line {ln}: try around a call whose exceptions are not modelled ({mode})")
        if not (h.type.id == "Exception" or raised <= {h.type.id}):
            raise Unsupported(f"line {ln}: `except {h.type.id}` does not catch everything the body can raise ({sorted(raised)})")
        # build the assignment statement again, but with the failing case going to the handler's raise
        saved = self.raise_code
        inner = self._assign_with(a, Val(v.code, v.kind, []), rest, env, k, live_after)
        return f"match {code} with\n| none => {saved(handler_exc)}\n| some {name} =>\n{ind(inner)}"

    def _assign_with(self, a: ast.Assign, v: Val, rest, env, k, live_after) -> str:
        """`a` with its value already translated to `v`"""
        ln = a.lineno
        t = a.targets[0]
        if isinstance(t, ast.Name):
            if t.id in self.decl:
                v = self.coerce(v, self.decl[t.id], ln)
            env2 = dict(env)
            env2[t.id] = v.kind
            return f"let {t.id} : {TY[v.kind]} := {v.code}\n" + self.block(rest, env2, k, live_after)
        key = is_config_sub(t)
        if key is not None and self.mode == "out" and key in self.cfg_writes:
            v = self.coerce(v, self.cfg_writes[key], ln)
            return f"let cfg : {TY[self.out_kind]} := {{ cfg with {key} := some {v.code} }}\n" + self.block(rest, env, k, live_after)
        raise Unsupported(f"line {ln}: assignment target {ast.unparse(t)} inside try")

    # ------------------------------------------------------------------ the tail of plan(): opaque statements and the cache store
    def frame_check(self, s: ast.stmt) -> None:
        """an opaque statement may not touch the state the translation tracks"""
        for n in ast.walk(s):
            ln = getattr(n, "lineno", s.lineno)
            if isinstance(n, (ast.Return, ast.Yield, ast.YieldFrom, ast.Global, ast.Nonlocal)):
                raise Unsupported(f"line {ln}: {type(n).__name__} inside a statement kept opaque")
            if is_self_attr(n):
                if n.attr in ("_plan_cache", "plan", "compute", "compute_single_bin", "_process_window_config", "_process_scheduler_config"):
                    raise Unsupported(f"line {ln}: self.{n.attr} inside a statement kept opaque")
                if isinstance(n.ctx, (ast.Store, ast.Del)):
                    raise Unsupported(f"line {ln}: store to self.{n.attr} inside a statement kept opaque")
            if isinstance(n, ast.Call) and is_self_attr(n.func) and n.func.attr not in ():
                raise Unsupported(f"line {ln}: call of self.{n.func.attr}() inside a statement kept opaque")
            if isinstance(n, ast.Subscript) and is_self_attr(n.value, "config"):
                if isinstance(n.ctx, (ast.Store, ast.Del)):
                    raise Unsupported(f"line {ln}: write to self.config inside a statement kept opaque")
                if not (isinstance(n.slice, ast.Constant) and isinstance(n.slice.value, str)) or n.slice.value == "Jdes":
                    raise Unsupported(f"line {ln}: read of {ast.unparse(n)} inside a statement kept opaque")
            if isinstance(n, ast.Call) and isinstance(n.func, ast.Attribute) and is_self_attr(n.func.value, "config") \
                    and n.func.attr not in ("get",):
                raise Unsupported(f"line {ln}: self.config.{n.func.attr}() inside a statement kept opaque")
            if isinstance(n, ast.Name) and n.id == self.planvar and isinstance(n.ctx, (ast.Store, ast.Del)):
                raise Unsupported(f"line {ln}: {self.planvar} is rebound inside a statement kept opaque (the cached object would change identity)")

    def tail(self, stmts: List[ast.stmt], env, k) -> str:
        pv = self.planvar
        # group the statements
        items: List[Tuple[str, object]] = []
        for s in stmts:
            if isinstance(s, ast.Expr) and isinstance(s.value, ast.Constant):
                continue
            if is_verbose_log(s):
                self.dropped.append(f"lines {s.lineno}-{s.end_lineno}: if self.verbose: logging…")
                continue
            if isinstance(s, ast.Assign) and len(s.targets) == 1 and is_self_attr(s.targets[0], "_plan_cache"):
                if not (isinstance(s.value, ast.Name) and s.value.id == pv):
                    raise Unsupported(f"line {s.lineno}: self._plan_cache = {ast.unparse(s.value)} (expected the plan object {pv})")
                items.append(("store", s))
                continue
            if isinstance(s, ast.Return):
                items.append(("return", s))
                continue
            if isinstance(s, ast.If) and not s.orelse and ast.unparse(s.test) == "self.config['band'] is not None":
                for b in s.body:
                    self.frame_check(b)
                if self.band_step is not None:
                    raise Unsupported(f"line {s.lineno}: second band statement")
                self.band_step = self.nsteps
                self.steps_doc.append(f"step {self.nsteps}: lines {s.lineno}-{s.end_lineno}  (guarded by {ast.unparse(s.test)})  band restriction")
                self.step_ranges.append((s.lineno, s.end_lineno))
                items.append(("band", self.nsteps))
                self.nsteps += 1
                continue
            self.frame_check(s)
            first = ast.unparse(s).split("\n")[0][:70].replace("-/", "- /")
            self.steps_doc.append(f"step {self.nsteps}: lines {s.lineno}-{s.end_lineno}  {first}")
            self.step_ranges.append((s.lineno, s.end_lineno))
            if items and items[-1][0] == "run":
                lo, n = items[-1][1]
                items[-1] = ("run", (lo, n + 1))
            else:
                items.append(("run", (self.nsteps, 1)))
            self.nsteps += 1

        def emit(i: int) -> str:
            if i == len(items):
                return k(env)
            kind, dat = items[i]
            if kind == "store":
                self.alias = True
                return f"let st : CG.PlanSt P := {{ st with cache := some {pv} }}\n" + emit(i + 1)
            if kind == "return":
                return self.ret(dat, env)
            if kind == "run":
                lo, n = dat
                call = f"CG.runSteps step {lo} {n} {pv}"
            else:
                band = self.cfg_reads["band"][0]
                call = f"(if ({band}.isSome) then CG.runSteps step {dat} 1 {pv} else ({pv}, none))"
            if self.alias:
                fail = f"(CG.PlanRes.raised e_, {{ st with cache := some {pv} }})"
                sync = f"let st : CG.PlanSt P := {{ st with cache := some {pv} }}\n"
            else:
                fail = "(CG.PlanRes.raised e_, st)"
                sync = ""
            return f"match {call} with\n| ({pv}, some e_) => {fail}\n| ({pv}, none) =>\n{ind(sync + emit(i + 1))}"
        return emit(0)


# ---------------------------------------------------------------------------------------------- module-level bindings
def module_globals(tree: ast.Module) -> Dict[str, Tuple[str, str]]:
    g: Dict[str, Tuple[str, str]] = {}
    for n in tree.body:
        if isinstance(n, ast.Import):
            for a in n.names:
                if a.name == "numpy" and (a.asname or a.name) == "np":
                    g["np"] = ("", "MOD")
        if isinstance(n, ast.ImportFrom):
            for a in n.names:
                local = a.asname or a.name
                if n.module == "numpy" and a.name == "kaiser":
                    g[local] = ("CG.WinFn.np_kaiser", "WF")
                elif n.module == "scipy.signal.windows" and a.name == "kaiser":
                    g[local] = ("CG.WinFn.sp_kaiser", "WF")
                elif n.module == "speckit.schedulers":
                    g[local] = (f"CG.SchedId.{a.name}", "SID")           # a `def f` has __name__ == "f" whatever it is imported as
                elif n.module == "speckit.utils" and a.name in ("kaiser_alpha", "kaiser_rov", "find_Jdes_binary_search", "is_function_in_dict",
                                                                "get_key_for_function"):
                    g[local] = ("", "FN:" + a.name)
                elif n.module == "speckit.flattop" and a.name == "olap_dict":
                    g[local] = ("olap_dict", "DR")
                elif n.module == "speckit.flattop" and a.name == "win_dict":
                    g[local] = ("win_dict", "DWF")
    return g


def ctor_kinds(init: ast.FunctionDef) -> Dict[str, str]:
    """kinds of the entries of `self.config = {…}` as the constructor builds them: float(x) R, int(x) Z, bool(x) B, str(x) S,
    `None if x is None else int(x)` OZ, a bare parameter RAW; also self.nx / self.fs and config["N"]"""
    kinds: Dict[str, str] = {}
    for s in init.body:
        if isinstance(s, ast.Assign) and len(s.targets) == 1 and is_self_attr(s.targets[0], "config") and isinstance(s.value, ast.Dict):
            for k, v in zip(s.value.keys, s.value.values):
                if not (isinstance(k, ast.Constant) and isinstance(k.value, str)):
                    raise Unsupported(f"line {s.lineno}: config literal with a non-string key")
                if isinstance(v, ast.Call) and isinstance(v.func, ast.Name) and v.func.id in ("float", "int", "bool", "str") and len(v.args) == 1 \
                        and isinstance(v.args[0], ast.Name):
                    kinds[k.value] = {"float": "R", "int": "Z", "bool": "B", "str": "S"}[v.func.id]
                elif isinstance(v, ast.Name):
                    kinds[k.value] = "RAW"
                elif isinstance(v, ast.IfExp) and ast.unparse(v.body) == "None" and isinstance(v.orelse, ast.Call) and ast.unparse(v.orelse.func) == "int" \
                        and isinstance(v.test, ast.Compare) and isinstance(v.test.ops[0], ast.Is) and ast.unparse(v.test.comparators[0]) == "None" \
                        and ast.unparse(v.test.left) == ast.unparse(v.orelse.args[0]):
                    kinds[k.value] = "OZ"
                else:
                    raise Unsupported(f"line {v.lineno}: config entry {k.value!r} = {ast.unparse(v)[:50]}")
        if isinstance(s, ast.Assign) and len(s.targets) == 1 and is_self_attr(s.targets[0], "nx"):
            if ast.unparse(s.value) != "int(len(self.x1))":
                raise Unsupported(f"line {s.lineno}: self.nx = {ast.unparse(s.value)}")
            kinds["self.nx"] = "Z"
        if isinstance(s, ast.Assign) and len(s.targets) == 1 and is_self_attr(s.targets[0], "fs"):
            if ast.unparse(s.value) != "float(fs)":
                raise Unsupported(f"line {s.lineno}: self.fs = {ast.unparse(s.value)}")
            kinds["self.fs"] = "R"
        if isinstance(s, ast.Assign) and len(s.targets) == 1 and is_config_sub(s.targets[0]) == "N":
            if ast.unparse(s.value) != "self.nx":
                raise Unsupported(f"line {s.lineno}: config['N'] = {ast.unparse(s.value)}")
            kinds["N"] = "Z"
        if isinstance(s, ast.AnnAssign) and is_self_attr(s.target, "_plan_cache"):
            if s.value is None or ast.unparse(s.value) != "None":
                raise Unsupported(f"line {s.lineno}: the constructor does not start with an empty plan cache")
            kinds["self._plan_cache"] = "OP"
        if isinstance(s, ast.Assign) and len(s.targets) == 1 and is_self_attr(s.targets[0], "_plan_cache"):
            if ast.unparse(s.value) != "None":
                raise Unsupported(f"line {s.lineno}: the constructor does not start with an empty plan cache")
            kinds["self._plan_cache"] = "OP"
    return kinds


PLAN_EXPECT = {"olap": "RAW", "bmin": "R", "Lmin": "Z", "Jdes": "Z", "Kdes": "Z", "num_patch_pts": "OZ", "order": "Z", "force_target_nf": "B",
               "band": "RAW", "psll": "RAW", "win": "RAW", "scheduler": "RAW", "self.nx": "Z", "self.fs": "R", "N": "Z", "self._plan_cache": "OP"}


def check_ctor(init: ast.FunctionDef) -> None:
    got = ctor_kinds(init)
    for k, kd in PLAN_EXPECT.items():
        if got.get(k) != kd:
            raise Unsupported(f"constructor: config entry / attribute {k!r} is built as kind {got.get(k)!r}, the translation assumes {kd!r}")
    # the two _process_* methods run before the cache is initialised and nothing else writes the modelled entries
    calls = [ast.unparse(s.value.func) for s in init.body if isinstance(s, ast.Expr) and isinstance(s.value, ast.Call)]
    if calls.count("self._process_window_config") != 1 or calls.count("self._process_scheduler_config") != 1:
        raise Unsupported("constructor: expected exactly one call each of _process_window_config / _process_scheduler_config")


# ---------------------------------------------------------------------------------------------- the six definitions
def doc(lines: List[str]) -> str:
    return "\n".join(l.replace("-/", "- /") for l in lines)


def plan_glue(cls: Dict[str, ast.FunctionDef], globs) -> Tuple["Glue", str]:
    fn = cls["plan"]
    g = Glue("plan", globs,
             cfg_reads={"scheduler_func": ("cfg.scheduler_func", "SF"), "final_olap": ("cfg.final_olap", "R"), "bmin": ("cfg.bmin", "R"),
                        "Lmin": ("cfg.Lmin", "Z"), "Kdes": ("cfg.Kdes", "Z"), "num_patch_pts": ("cfg.num_patch_pts", "OZ"),
                        "force_target_nf": ("cfg.force_target_nf", "B"), "Jdes": ("st.jdes", "Z"), "olap": ("cfg.olap", "V"),
                        "order": ("cfg.order", "Z"), "band": ("cfg.band", "OBAND"), "N": ("cfg.nx", "Z")},
             cfg_writes={"Jdes": "Z"},
             self_attrs={"nx": ("cfg.nx", "Z"), "fs": ("cfg.fs", "R"), "_plan_cache": ("st.cache", "OP")}, decl={})
    if [a.arg for a in fn.args.args] != ["self"] or fn.args.vararg or fn.args.kwarg or fn.args.kwonlyargs:
        raise Unsupported("plan(): signature changed")
    body = g.block(list(fn.body), {}, lambda env: "(CG.PlanRes.okNone, st)", set())
    if g.planvar is None or not any(s_ is g.plan_assign_stmt for s_ in fn.body):
        raise Unsupported("plan(): no statement `<plan> = scheduler_func(**kwargs)` at the top level of the method")
    if g.band_step is None:
        raise Unsupported("plan(): the band statement `if self.config['band'] is not None:` was not found after the scheduler call")
    return g, body


def gen_plan(cls: Dict[str, ast.FunctionDef], globs) -> str:
    fn = cls["plan"]
    g, body = plan_glue(cls, globs)
    lines = [f"analysis.py:{fn.lineno}-{fn.end_lineno} `SpectrumAnalyzer.plan` as a transformer of (config[\"Jdes\"], _plan_cache).",
             "Parameters standing for code that is NOT translated here: `cfg.scheduler_func.call` (the scheduler), `find_Jdes_binary_search`",
             "(utils.py, translated separately as Gen.find_Jdes_binary_search), `truthy` (truthiness of a plan dict), and `step i` = opaque",
             "statement number i of the tail of plan():"] + ["  " + l for l in g.steps_doc] + ["dropped: " + "; ".join(g.dropped)]
    out = f"/-- number of opaque statements in the tail of plan() -/\ndef cg_plan_nsteps : Nat := {g.nsteps}\n\n"
    out += f"/-- which of them is the band restriction -/\ndef cg_plan_band_step : Nat := {g.band_step}\n\n"
    out += "/-- " + doc(lines) + " -/\n"
    out += ("def cg_plan {P : Type} (cfg : CG.PlanCfg α P) (truthy : P → Bool)\n"
            "    (find_Jdes_binary_search : CG.SchedFn α P → Int → CG.SchedKw α → Except CG.PyExc (Option Int))\n"
            "    (step : Nat → P → P × Option CG.PyExc) (st : CG.PlanSt P) : CG.PlanRes P × CG.PlanSt P :=\n")
    out += ind(body) + "\n"
    return out


def self_state_refs(fn: ast.FunctionDef, allow_calls: Set[str]) -> None:
    """frame condition for the part of a method that is NOT translated: no access to the plan cache, no write to self / self.config,
    no call of a method of self other than `allow_calls`"""
    for n in ast.walk(fn):
        ln = getattr(n, "lineno", fn.lineno)
        if is_self_attr(n):
            if isinstance(n.ctx, (ast.Store, ast.Del)):
                raise Unsupported(f"line {ln}: {fn.name} stores to self.{n.attr}")
            if n.attr == "_plan_cache" and "_plan_cache" not in allow_calls:
                raise Unsupported(f"line {ln}: {fn.name} touches self._plan_cache")
        if isinstance(n, ast.Call) and is_self_attr(n.func) and n.func.attr not in allow_calls:
            raise Unsupported(f"line {ln}: {fn.name} calls self.{n.func.attr}()")
        if isinstance(n, ast.Subscript) and is_self_attr(n.value, "config") and isinstance(n.ctx, (ast.Store, ast.Del)):
            raise Unsupported(f"line {ln}: {fn.name} writes self.config[...]")
        if isinstance(n, ast.Call) and isinstance(n.func, ast.Attribute) and is_self_attr(n.func.value, "config") and n.func.attr != "get":
            raise Unsupported(f"line {ln}: {fn.name} calls self.config.{n.func.attr}()")
        if isinstance(n, ast.Call) and isinstance(n.func, ast.Name) and n.func.id in ("setattr", "delattr", "vars"):
            raise Unsupported(f"line {ln}: {fn.name} calls {n.func.id}()")


def gen_compute(cls: Dict[str, ast.FunctionDef]) -> str:
    fn = cls["compute"]
    body = [s for s in fn.body if not (isinstance(s, ast.Expr) and isinstance(s.value, ast.Constant))]
    if not body or ast.unparse(body[0]) != "plan = self.plan()":
        raise Unsupported(f"line {fn.lineno}: compute() does not start with `plan = self.plan()`")
    rest = ast.FunctionDef(name="compute", args=fn.args, body=body[1:], decorator_list=[], lineno=fn.lineno)
    self_state_refs(rest, {"_lpsd_core"})
    for n in ast.walk(rest):
        if isinstance(n, ast.Name) and n.id == "plan" and isinstance(n.ctx, (ast.Store, ast.Del)):
            raise Unsupported(f"line {n.lineno}: compute() rebinds `plan`")
    core_calls = [n for n in ast.walk(rest) if isinstance(n, ast.Call) and is_self_attr(n.func, "_lpsd_core")]
    reads_cache = False
    if core_calls:
        core = cls.get("_lpsd_core")
        if core is None:
            raise Unsupported("_lpsd_core not found")
        cb = [s for s in core.body if not (isinstance(s, ast.Expr) and isinstance(s.value, ast.Constant))]
        if len(cb) < 2 or ast.unparse(cb[0]) != "plan = self._plan_cache" or ast.unparse(cb[1]) != "assert plan is not None":
            raise Unsupported(f"line {core.lineno}: _lpsd_core does not start with `plan = self._plan_cache; assert plan is not None`")
        rest_core = ast.FunctionDef(name="_lpsd_core", args=core.args, body=cb[2:], decorator_list=[], lineno=core.lineno)
        self_state_refs(rest_core, set())
        for n in ast.walk(rest_core):
            if isinstance(n, ast.Name) and n.id == "plan" and isinstance(n.ctx, (ast.Store, ast.Del)):
                raise Unsupported(f"line {n.lineno}: _lpsd_core rebinds `plan`")
        reads_cache = True
    lines = [f"analysis.py:{fn.lineno}-{fn.end_lineno} `SpectrumAnalyzer.compute`: `plan = self.plan()`, then numerics (`comp`) on the returned plan"
             + (" and, inside `_lpsd_core`, on `self._plan_cache` (asserted not None)." if reads_cache else "."),
             "Checked on the AST: the rest of compute() " + ("and of _lpsd_core " if reads_cache else "") +
             "neither writes self / self.config nor touches the cache nor calls another method of self."]
    out = "/-- " + doc(lines) + " -/\n"
    out += ("def cg_compute {P R S : Type} (cfg : CG.PlanCfg α P) (truthy : P → Bool)\n"
            "    (find_Jdes_binary_search : CG.SchedFn α P → Int → CG.SchedKw α → Except CG.PyExc (Option Int))\n"
            "    (step : Nat → P → P × Option CG.PyExc) (comp : P → P → R) (st : CG.PlanSt P) : CG.OpOut P R S × CG.PlanSt P :=\n"
            "  match cg_plan cfg truthy find_Jdes_binary_search step st with\n"
            "  | (CG.PlanRes.ok plan, st) =>\n")
    if reads_cache:
        out += ("    (match st.cache with\n"
                "     | some core_plan => (CG.OpOut.result (comp plan core_plan), st)\n"
                "     | none => (CG.OpOut.error CG.PyExc.Other, st))\n")
    else:
        out += "    (CG.OpOut.result (comp plan plan), st)\n"
    out += ("  | (CG.PlanRes.okNone, st) => (CG.OpOut.error CG.PyExc.TypeError, st)\n"
            "  | (CG.PlanRes.raised e, st) => (CG.OpOut.error e, st)\n")
    return out


def gen_single_state(cls: Dict[str, ast.FunctionDef]) -> str:
    fn = cls["compute_single_bin"]
    self_state_refs(fn, set())
    for n in ast.walk(fn):
        if is_self_attr(n, "plan"):
            raise Unsupported(f"line {n.lineno}: compute_single_bin refers to self.plan")
    lines = [f"analysis.py:{fn.lineno}-{fn.end_lineno} `SpectrumAnalyzer.compute_single_bin` as far as the analyzer state is concerned: checked on the AST",
             "that the method neither reads nor writes `_plan_cache`, writes no attribute of self and no config entry, and calls no method of self;",
             "its result is a function `single` of the request alone."]
    out = "/-- " + doc(lines) + " -/\n"
    out += ("def cg_compute_single_bin_state {P R S Q : Type} (single : Q → S) (q : Q) (st : CG.PlanSt P) : CG.OpOut P R S × CG.PlanSt P :=\n"
            "  (CG.OpOut.single (single q), st)\n")
    return out


def gen_window(cls: Dict[str, ast.FunctionDef], globs) -> str:
    fn = cls["_process_window_config"]
    g = Glue("out", globs, cfg_reads={"win": ("win", "WOBJ"), "psll": ("psll", "OR"), "olap": ("olap", "V")},
             cfg_writes={"win_func": "WF", "alpha": "OR", "final_olap": "R", "win_name": "OS"}, self_attrs={}, decl={"win_name": "OS"}, out_kind="WOUT")
    body = g.block(list(fn.body), {}, lambda env: "(Except.ok cfg)", set())
    lines = [f"analysis.py:{fn.lineno}-{fn.end_lineno} `SpectrumAnalyzer._process_window_config`: inputs config[\"win\"], [\"psll\"], [\"olap\"] and the tables",
             "speckit.flattop.win_dict / olap_dict (string keys); output the entries it writes.  `float_of_str` = Python float() of a str.",
             "dropped: " + "; ".join(g.dropped)]
    out = "/-- " + doc(lines) + " -/\n"
    out += ("def cg_process_window_config (win : CG.PyObj CG.WinFn) (psll : Option α) (olap : CG.PyVal α)\n"
            "    (win_dict : CG.PyDict CG.WinFn) (olap_dict : CG.PyDict α) (float_of_str : String → Option α) : Except CG.PyExc (CG.WinOut α) :=\n"
            "  let cfg : CG.WinOut α := {}\n")
    out += ind(body) + "\n"
    return out


def gen_sched(cls: Dict[str, ast.FunctionDef], globs) -> str:
    fn = cls["_process_scheduler_config"]
    g = Glue("out", globs, cfg_reads={"scheduler": ("scheduler", "SOBJ")}, cfg_writes={"scheduler_func": "SID", "scheduler_name": "S"},
             self_attrs={}, decl={}, out_kind="SOUT")
    body = g.block(list(fn.body), {}, lambda env: "(Except.ok cfg)", set())
    lines = [f"analysis.py:{fn.lineno}-{fn.end_lineno} `SpectrumAnalyzer._process_scheduler_config`: input config[\"scheduler\"]; output the entries it writes."]
    out = "/-- " + doc(lines) + " -/\n"
    out += ("def cg_process_scheduler_config (scheduler : CG.PyObj CG.SchedId) : Except CG.PyExc CG.SchedOut :=\n"
            "  let cfg : CG.SchedOut := {}\n")
    out += ind(body) + "\n"
    return out


def gen_request(cls: Dict[str, ast.FunctionDef], globs) -> str:
    fn = cls["compute_single_bin"]
    names = [a.arg for a in fn.args.args] + [a.arg for a in fn.args.kwonlyargs]
    if names != ["self", "freq", "fres", "L"]:
        raise Unsupported(f"compute_single_bin: parameters {names}")
    body = [s for s in fn.body if not (isinstance(s, ast.Expr) and isinstance(s.value, ast.Constant))]
    start = end = None
    for i, s in enumerate(body):
        if start is None and isinstance(s, ast.If) and {"L", "fres"} <= loads([ast.Expr(value=s.test)]):
            start = i
        if isinstance(s, ast.If) and ast.unparse(s.test) == "self.nx == segL":
            end = i
            break
    if start is None or end is None or not start < end:
        raise Unsupported("compute_single_bin: request resolution (from the L/fres exclusivity test to the segmentation statement) not found")
    pre, req = body[:start], body[start:end]
    g = Glue("value", globs, cfg_reads={}, cfg_writes={}, self_attrs={"fs": ("fs", "R"), "nx": ("nx", "Z")}, decl={})
    for s in pre:           # what precedes: imports, validation of `freq` (raises) and a warning — value-irrelevant for (segL, final_fres)
        if isinstance(s, ast.Import):
            for a in s.names:
                if a.name == "numpy" and a.asname:
                    g.np_alias.add(a.asname)
            continue
        if isinstance(s, ast.If) and not s.orelse and (all(isinstance(b, ast.Raise) for b in s.body) or is_logging_only(s.body)) \
                and not ({"L", "fres", "segL", "final_fres"} & loads([s])):
            g.dropped.append(f"lines {s.lineno}-{s.end_lineno}: {ast.unparse(s.test)[:50]} → raise / warning")
            continue
        raise Unsupported(f"line {s.lineno}: statement before the request resolution: {ast.unparse(s)[:60]}")
    used_after = loads(body[end:])
    if not {"segL", "final_fres"} <= used_after:
        raise Unsupported("compute_single_bin: segL / final_fres are not used after the request resolution")
    ret = ast.parse("return (segL, final_fres)").body[0]
    text = g.block(req + [ret], {"L": "OR", "fres": "OR"}, lambda env: "(Except.error CG.PyExc.Other)", set())
    lines = [f"analysis.py:{req[0].lineno}-{req[-1].end_lineno} the request resolution of `compute_single_bin`: (segL, final_fres) from `L=` / `fres=`",
             "(`L`, `fres`: None or a number; `int(L)` truncates).  dropped: " + "; ".join(g.dropped)]
    out = "/-- " + doc(lines) + " -/\n"
    out += "def cg_single_bin_request (fs : α) (nx : Int) (L : Option α) (fres : Option α) : Except CG.PyExc (Int × α) :=\n"
    out += ind(text) + "\n"
    return out


def class_methods(path: str) -> Tuple[Dict[str, ast.FunctionDef], Dict[str, Tuple[str, str]]]:
    tree = ast.parse(open(path).read())
    cls: Dict[str, ast.FunctionDef] = {}
    for c in tree.body:
        if isinstance(c, ast.ClassDef) and c.name == "SpectrumAnalyzer":
            for m in c.body:
                if isinstance(m, ast.FunctionDef):
                    cls[m.name] = m
    return cls, module_globals(tree)


def tail_step_ranges(repo: str) -> Dict[str, object]:
    """for the differential harness: the source line range of every opaque tail statement of plan() (index = `step` index of the
    generated transformer), the band statement's index and the line range of plan() itself"""
    cls, globs = class_methods(os.path.join(repo, "speckit/analysis.py"))
    g, _ = plan_glue(cls, globs)
    return {"steps": list(g.step_ranges), "band": g.band_step, "nsteps": g.nsteps, "plan": (cls["plan"].lineno, cls["plan"].end_lineno)}


def generate(repo: str):
    path = os.path.join(repo, "speckit/analysis.py")
    out = HEADER.format(src="speckit/analysis.py", sha=sha_of(path)).replace(
        "import SpecKitV.Num\n", "import SpecKitV.Num\nimport SpecKitV.Gen.Utils\nimport SpecKitV.Np.ConfigGlue\n")
    out = out.replace("GENERATED by /verif/vk/translate.py", "GENERATED by /verif/vk/regions/config_glue.py")
    errors: List[str] = []
    cls: Dict[str, ast.FunctionDef] = {}
    globs: Dict[str, Tuple[str, str]] = {}
    pre_err: Optional[str] = None
    try:
        tree = ast.parse(open(path).read())
        for c in tree.body:
            if isinstance(c, ast.ClassDef) and c.name == "SpectrumAnalyzer":
                for m in c.body:
                    if isinstance(m, ast.FunctionDef):
                        if m.name in cls:
                            raise Unsupported(f"SpectrumAnalyzer.{m.name} defined twice")
                        cls[m.name] = m
        if not cls:
            raise Unsupported("class SpectrumAnalyzer not found")
        globs = module_globals(tree)
        if "__init__" not in cls:
            raise Unsupported("SpectrumAnalyzer.__init__ not found")
        check_ctor(cls["__init__"])
        # no other method may write the modelled state
        for name, m in cls.items():
            if name in ("__init__", "plan", "_process_window_config", "_process_scheduler_config"):
                continue
            self_state_refs(m, {"plan", "_lpsd_core", "_plan_cache"} if name in ("compute", "_lpsd_core") else set())
    except (Unsupported, SyntaxError) as ex:
        pre_err = str(ex)
    jobs = [("cg_plan", lambda: gen_plan(cls, globs), "plan"), ("cg_compute", lambda: gen_compute(cls), "compute"),
            ("cg_compute_single_bin_state", lambda: gen_single_state(cls), "compute_single_bin"),
            ("cg_process_window_config", lambda: gen_window(cls, globs), "_process_window_config"),
            ("cg_process_scheduler_config", lambda: gen_sched(cls, globs), "_process_scheduler_config"),
            ("cg_single_bin_request", lambda: gen_request(cls, globs), "compute_single_bin")]
    for lean_name, job, meth in jobs:
        try:
            if pre_err is not None:
                raise Unsupported(pre_err)
            if meth not in cls:
                raise Unsupported(f"SpectrumAnalyzer.{meth} not found")
            out += job() + "\n"
        except Unsupported as ex:
            errors.append(f"{lean_name}: {ex}")
            msg = str(ex).replace("-/", "- /")
            out += f"/- UNSUPPORTED {lean_name}: {msg} -/\ndef {lean_name}_UNSUPPORTED : Nat := translation_failed_{lean_name}\n\n"
    out += "end Gen\n"
    return out, errors
