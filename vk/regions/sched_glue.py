"""Region SchedGlue — the glue of speckit/schedulers.py around the (already translated) frequency walks:

  * `_require_args`                      the keyword-dictionary validation / unpacking helper
  * `lpsd_plan`                          the forwarding wrapper (`dict(args)`, the two overrides, `ltf_plan(**forwarded)`)
  * `ltf_plan` / `vectorized_ltf_plan` / `new_ltf_plan`
        - the unpacking statement `N, fs, … = _require_args(args, [...])` (ORDER of the target names vs ORDER of the key list),
        - a call of the translated walk `Gen.<fn>_walk` (region Sched) for the statements up to and including `while …`,
        - every statement AFTER the walk: for `ltf_plan` the per-bin bookkeeping of the second loop (`int(L_arr[j])`, the list
          store, `int(K_arr[j])`, `navg_arr.append`) around the translated start positions `Gen.ltf_plan_starts`, the third loop
          "Compute the actual overlaps" (`np.array`, `len`, the two slices, the elementwise overlap, `np.mean`, the `0.0` of a
          single segment), the list -> array conversions, the `nf == 0` exit; for the two closed-form schedulers the array
          conversions, `m = f / r`, and the translated `shift / D / O` statements `Gen.<fn>_post` (region Sched),
        - the OUTPUT DICTIONARY literal: which computed value is published under which key, as the record `Py.PlanDict`.

Everything is derived from the AST of the current source.  Statement shapes that are recognised rather than translated are checked
against the AST (the `_require_args` helper's three statements, the position of the walk, the position of the `shift/D/O` block,
the split of `ltf_plan`'s second loop into bookkeeping + start positions); what is inside them (keys, names, order, literals,
operands, slices, polarity of `in`) is carried into the Lean text.  Anything else raises Unsupported and yields a stub that fails
to build.

Dropped as value-irrelevant (listed again in the generated file): docstrings; `logger.error(...)` before `sys.exit(-1)` (the exit
itself is kept: the plan is `none`); the message of the `TypeError` raised by `_require_args` (the raise is kept: `none`);
`dtype=int` on `np.array` of a list of Python ints; `out=np.zeros_like(f, dtype=float)` is handled by region Sched.
"""
from __future__ import annotations

import ast
import os
from typing import Dict, List, Optional, Tuple

from .. import translate as T
from ..translate import Env, FnTranslator, Unsupported, Val, _lit_float

REGION = "SchedGlue"
SOURCES = ["speckit/schedulers.py"]

PLAN_KEYS = ["f", "r", "b", "m", "L", "K", "navg", "D", "O", "nf"]
# kind of every published value -> (field element kind, view)
REAL_FIELDS = {"f", "r", "b", "m", "O"}
INT_FIELDS = {"L", "K", "navg"}

# lists that exist before the walk and are first used after it (kinds); everything else after the walk must be a parameter,
# a list returned by the walk, or defined after the walk
TAIL_LISTS = {"ltf_plan": {"O_arr": "LR", "D_arr": "LLZ", "navg_arr": "LZ"}, "vectorized_ltf_plan": {}, "new_ltf_plan": {}}

DOC = """/-!
  Region SchedGlue (speckit/schedulers.py): `_require_args`, `lpsd_plan`, and for `ltf_plan`, `vectorized_ltf_plan`, `new_ltf_plan`
  the argument unpacking, the statements after the frequency walk and the output dictionary.  The walks themselves, the start positions
  of `ltf_plan` and the closed-form `shift/D/O` statements are region Sched (`Gen.*_walk`, `Gen.ltf_plan_starts`, `Gen.*_post`) and are
  CALLED here at the position and with the variables the source has.

  A scheduler is a function of the keyword dictionary `args : Py.Dict (Py.Val α)` (and the fuel of its walk) returning
  `Option (Py.PlanDict α)`: `none` = the call does not return a plan (`_require_args` raises TypeError for a missing key, `sys.exit`
  for an empty plan) or a length/count argument is not a Python int (outside the typed domain of the translation: N, Lmin, Jdes, Kdes
  are `Int`, fs, olap, bmin are reals, as in region Sched).

  Dropped as value-irrelevant: docstrings; `logger.error(...)` in front of `sys.exit(-1)`; the text of the TypeError message;
  `dtype=int` on `np.array` of a list of ints.  List reads `X[j]` inside `for j in range(nf)` are in range because every list of the
  walk has `nf = len(f)` entries (they are emitted as `List.getD`); `np.array(a) / np.array(b)` takes the length of `a`
  (NumPy demands equal lengths).
-/
"""


def _is_doc(s: ast.stmt) -> bool:
    return isinstance(s, ast.Expr) and isinstance(s.value, ast.Constant) and isinstance(s.value.value, str)


def _str_list(e: ast.AST, what: str) -> List[str]:
    if not (isinstance(e, ast.List) and all(isinstance(x, ast.Constant) and isinstance(x.value, str) for x in e.elts)):
        raise Unsupported(f"line {getattr(e, 'lineno', '?')}: {what} must be a list of string literals")
    return [x.value for x in e.elts]


def _lean_str_list(keys: List[str]) -> str:
    return "[" + ", ".join('"' + k + '"' for k in keys) + "]"


def _int_const(e: Optional[ast.AST]) -> Optional[int]:
    """integer literal, possibly negated; None for an absent slice bound"""
    if e is None:
        return None
    if isinstance(e, ast.Constant) and isinstance(e.value, int) and not isinstance(e.value, bool):
        return e.value
    if isinstance(e, ast.UnaryOp) and isinstance(e.op, ast.USub) and isinstance(e.operand, ast.Constant) and isinstance(e.operand.value, int):
        return -e.operand.value
    raise Unsupported(f"line {getattr(e, 'lineno', '?')}: slice bound is not an integer literal")


def _opt_int(v: Optional[int]) -> str:
    return "none" if v is None else f"(some ({v} : Int))"


# ------------------------------------------------------------------------------------------ _require_args
def gen_require_args(fn: ast.FunctionDef) -> str:
    """def _require_args(D, R):  missing = [k for k in R if k not in D];  if missing: raise TypeError(...);  return [D[k] for k in R]"""
    params = [a.arg for a in fn.args.args]
    if len(params) != 2 or fn.args.vararg or fn.args.kwarg or fn.args.kwonlyargs or fn.args.defaults:
        raise Unsupported("_require_args: signature")
    d, r = params
    body = [s for s in fn.body if not _is_doc(s)]
    if len(body) != 3:
        raise Unsupported(f"_require_args: {len(body)} statements (expected: missing-list, raise, return)")
    s0, s1, s2 = body

    def comp(e: ast.AST, with_filter: bool) -> Tuple[str, ast.AST, Optional[ast.AST]]:
        if not (isinstance(e, ast.ListComp) and len(e.generators) == 1 and not e.generators[0].is_async
                and isinstance(e.generators[0].target, ast.Name) and isinstance(e.generators[0].iter, ast.Name)):
            raise Unsupported(f"line {e.lineno}: list comprehension form")
        g = e.generators[0]
        if g.iter.id != r:
            raise Unsupported(f"line {e.lineno}: comprehension iterates {g.iter.id}, not the list of required names")
        if len(g.ifs) != (1 if with_filter else 0):
            raise Unsupported(f"line {e.lineno}: comprehension filter")
        return g.target.id, e.elt, (g.ifs[0] if with_filter else None)

    # missing = [k for k in R if k (not) in D]
    if not (isinstance(s0, ast.Assign) and len(s0.targets) == 1 and isinstance(s0.targets[0], ast.Name)):
        raise Unsupported(f"line {s0.lineno}: first statement of _require_args")
    missing = s0.targets[0].id
    k, elt, cond = comp(s0.value, True)
    if not (isinstance(elt, ast.Name) and elt.id == k):
        raise Unsupported(f"line {s0.lineno}: the missing-list must collect the names themselves")
    if not (isinstance(cond, ast.Compare) and len(cond.ops) == 1 and isinstance(cond.left, ast.Name) and cond.left.id == k
            and isinstance(cond.comparators[0], ast.Name) and cond.comparators[0].id == d and isinstance(cond.ops[0], (ast.In, ast.NotIn))):
        raise Unsupported(f"line {s0.lineno}: filter must be `{k} [not] in {d}`")
    test = f"Py.Dict.contains {d} {k}"
    if isinstance(cond.ops[0], ast.NotIn):
        test = f"!({test})"
    # if missing: raise TypeError(...)       (`if not missing` etc. are carried)
    if not (isinstance(s1, ast.If) and not s1.orelse and len(s1.body) == 1 and isinstance(s1.body[0], ast.Raise)):
        raise Unsupported(f"line {s1.lineno}: second statement of _require_args must be `if …: raise …`")
    t = s1.test
    if isinstance(t, ast.Name) and t.id == missing:
        guard = f"!({missing}.isEmpty)"
    elif isinstance(t, ast.UnaryOp) and isinstance(t.op, ast.Not) and isinstance(t.operand, ast.Name) and t.operand.id == missing:
        guard = f"{missing}.isEmpty"
    else:
        raise Unsupported(f"line {s1.lineno}: raise guard must be the truth value of `{missing}`")
    # return [D[k] for k in R]
    if not isinstance(s2, ast.Return) or s2.value is None:
        raise Unsupported(f"line {s2.lineno}: third statement of _require_args must be a return")
    k2, elt2, _ = comp(s2.value, False)
    if not (isinstance(elt2, ast.Subscript) and isinstance(elt2.value, ast.Name) and elt2.value.id == d
            and isinstance(elt2.slice, ast.Name) and elt2.slice.id == k2):
        raise Unsupported(f"line {s2.lineno}: the returned list must be `[{d}[k] for k in {r}]`")
    return (f"/-- schedulers.py:{fn.lineno}-{fn.end_lineno} `_require_args` (`none` = the TypeError / KeyError) -/\n"
            f"def _require_args {{β : Type}} ({d} : Py.Dict β) ({r} : List String) : Option (List β) :=\n"
            f"  let {missing} : List String := {r}.filter (fun {k} => {test})\n"
            f"  if {guard} then none\n"
            f"  else {r}.mapM (fun {k2} => Py.Dict.get? {d} {k2})\n")


# ------------------------------------------------------------------------------------------ keyword dictionaries (lpsd_plan)
def _kw_value(e: ast.AST) -> str:
    """a literal stored into a keyword dictionary"""
    neg = False
    if isinstance(e, ast.UnaryOp) and isinstance(e.op, ast.USub):
        neg, e = True, e.operand
    if isinstance(e, ast.Constant) and not isinstance(e.value, bool):
        if isinstance(e.value, int):
            return f"(Py.Val.int ({'-' if neg else ''}{e.value} : Int))"
        if isinstance(e.value, float):
            lit = _lit_float(-e.value if neg else e.value)
            return f"(Py.Val.real {lit})"
    raise Unsupported(f"line {getattr(e, 'lineno', '?')}: value stored in a keyword dictionary is not an int/float literal")


def _dict_expr(e: ast.AST, dicts: set) -> str:
    """an expression denoting a keyword dictionary: a name, `dict(name)`, `dict(k=v, …)`, `dict(name, k=v, …)`"""
    if isinstance(e, ast.Name):
        if e.id not in dicts:
            raise Unsupported(f"line {e.lineno}: {e.id} is not a keyword dictionary")
        return e.id
    if isinstance(e, ast.Call) and isinstance(e.func, ast.Name) and e.func.id == "dict" and len(e.args) <= 1:
        kws = []
        for kw in e.keywords:
            if kw.arg is None:
                raise Unsupported(f"line {e.lineno}: dict(**…)")
            kws.append((kw.arg, _kw_value(kw.value)))
        if e.args:
            code = f"(Py.Dict.copy {_dict_expr(e.args[0], dicts)})"
            for k, v in kws:                    # dict(d, k=v): the keywords are stored after the copy
                code = f'(Py.Dict.set {code} "{k}" {v})'
            return code
        return "(Py.Dict.ofKw [" + ", ".join(f'("{k}", {v})' for k, v in kws) + "])"
    raise Unsupported(f"line {getattr(e, 'lineno', '?')}: dictionary expression {ast.unparse(e)}")


def gen_forwarder(fn: ast.FunctionDef, callees: List[str]) -> str:
    """a wrapper `def f(**args)` made of: `_require_args(args, [...])` checks, dictionary statements, `return g(**d)`"""
    kw = fn.args.kwarg.arg if fn.args.kwarg is not None else None
    if kw is None or fn.args.args or fn.args.vararg or fn.args.kwonlyargs:
        raise Unsupported(f"{fn.name}: signature must be (**{kw or 'args'})")
    dicts = {kw}
    lines: List[str] = []
    ind = "  "
    body = [s for s in fn.body if not _is_doc(s)]
    for i, s in enumerate(body):
        last = i == len(body) - 1
        if isinstance(s, ast.Return):
            if not last:
                raise Unsupported(f"line {s.lineno}: code after return")
            c = s.value
            if not (isinstance(c, ast.Call) and isinstance(c.func, ast.Name) and c.func.id in callees and not c.args
                    and len(c.keywords) == 1 and c.keywords[0].arg is None):
                raise Unsupported(f"line {s.lineno}: return must be `<scheduler>(**<dict>)` with a translated scheduler")
            lines.append(f"{ind}{c.func.id} {_dict_expr(c.keywords[0].value, dicts)} fuel")
            break
        if last:
            raise Unsupported(f"{fn.name}: does not end in a return")
        if (isinstance(s, ast.Expr) and isinstance(s.value, ast.Call) and isinstance(s.value.func, ast.Name) and s.value.func.id == "_require_args"):
            c = s.value
            if len(c.args) != 2 or c.keywords:
                raise Unsupported(f"line {s.lineno}: _require_args call form")
            lines.append(f"{ind}match _require_args {_dict_expr(c.args[0], dicts)} {_lean_str_list(_str_list(c.args[1], 'required names'))} with")
            lines.append(f"{ind}| none => none")
            lines.append(f"{ind}| some _ =>")
            continue
        if isinstance(s, ast.Assign) and len(s.targets) == 1 and isinstance(s.targets[0], ast.Name):
            name = s.targets[0].id
            if name == kw:
                raise Unsupported(f"line {s.lineno}: the keyword dictionary itself is rebound")
            lines.append(f"{ind}let {name} : Py.Dict (Py.Val α) := {_dict_expr(s.value, dicts)}")
            dicts.add(name)
            continue
        if (isinstance(s, ast.Assign) and len(s.targets) == 1 and isinstance(s.targets[0], ast.Subscript) and isinstance(s.targets[0].value, ast.Name)
                and isinstance(s.targets[0].slice, ast.Constant) and isinstance(s.targets[0].slice.value, str)):
            name = s.targets[0].value.id
            if name not in dicts or name == kw:
                raise Unsupported(f"line {s.lineno}: store into {name} (not a local dictionary)")
            lines.append(f'{ind}let {name} : Py.Dict (Py.Val α) := Py.Dict.set {name} "{s.targets[0].slice.value}" {_kw_value(s.value)}')
            continue
        if (isinstance(s, ast.Expr) and isinstance(s.value, ast.Call) and isinstance(s.value.func, ast.Attribute) and s.value.func.attr == "update"
                and isinstance(s.value.func.value, ast.Name) and len(s.value.args) == 1 and not s.value.keywords):
            name = s.value.func.value.id
            if name not in dicts or name == kw:
                raise Unsupported(f"line {s.lineno}: update of {name} (not a local dictionary)")
            lines.append(f"{ind}let {name} : Py.Dict (Py.Val α) := Py.Dict.update {name} {_dict_expr(s.value.args[0], dicts)}")
            continue
        raise Unsupported(f"line {s.lineno}: statement {type(s).__name__} in {fn.name}")
    return (f"/-- schedulers.py:{fn.lineno}-{fn.end_lineno} `{fn.name}` -/\n"
            f"def {fn.name} ({kw} : Py.Dict (Py.Val α)) (fuel : Nat) : Option (Py.PlanDict α) :=\n" + "\n".join(lines) + "\n")


# ------------------------------------------------------------------------------------------ the statements after the walk
class GlueTranslator(FnTranslator):
    """FnTranslator plus: Python lists indexed / stored / measured, lists of lists, np.array of a list, basic slices of a vector,
    np.mean of a vector expression, simultaneous assignment, a name changing from list to array, the exit guard, the output dictionary"""

    LT_ALL = dict(FnTranslator.LT_ALL, LLZ="List (List Int)", PD="Py.PlanDict α", OPD="Option (Py.PlanDict α)")
    LIST_DEFAULT = {"LR": ("R", "(RealLike.ofNat 0)"), "LZ": ("Z", "(0 : Int)"), "LLZ": ("LZ", "([] : List Int)")}
    ARR_OF = {"LR": "A", "LZ": "AZ"}

    def __init__(self, *a, **kw):
        super().__init__(*a, **kw)
        self.vector_mode = True
        self.post_block: Optional[Tuple[List[ast.stmt], str]] = None    # the three `shift/D/O` statements and the Lean name of their translation
        self.starts_name: Optional[str] = None

    # ----- expressions
    def slice_of(self, e: ast.AST, env: Env) -> Optional[Tuple[str, Optional[int], Optional[int], int]]:
        """X[lo:hi] on a vector X -> (X, lo, hi, number of elements dropped)"""
        if not (isinstance(e, ast.Subscript) and isinstance(e.slice, ast.Slice)):
            return None
        if not (isinstance(e.value, ast.Name) and env.kinds.get(e.value.id) in T.VEC_ELEM):
            raise Unsupported(f"line {e.lineno}: slice of something that is not a vector variable")
        if e.slice.step is not None:
            raise Unsupported(f"line {e.lineno}: slice with a step")
        lo, hi = _int_const(e.slice.lower), _int_const(e.slice.upper)
        if lo is not None and lo >= 0 and hi is None:
            dropped = lo
        elif lo is None and hi is not None and hi < 0:
            dropped = -hi
        elif lo is None and hi is None:
            dropped = 0
        else:
            raise Unsupported(f"line {e.lineno}: slice [{lo}:{hi}] (accepted: [a:], [:-a], [:])")
        return e.value.id, lo, hi, dropped

    def slice_code(self, sl: Tuple[str, Optional[int], Optional[int], int]) -> str:
        return f"(NpSG.slice {sl[0]} {_opt_int(sl[1])} {_opt_int(sl[2])})"

    def subscript(self, e: ast.Subscript, env: Env) -> Val:
        sl = self.slice_of(e, env)
        if sl is not None:
            if not env.pw:
                raise Unsupported(f"line {e.lineno}: slice outside an elementwise expression")
            return Val(f"({self.slice_code(sl)}.get i_)", T.VEC_ELEM[env.kinds[sl[0]]])
        if isinstance(e.value, ast.Name) and env.kinds.get(e.value.id) in self.LIST_DEFAULT:
            e0 = env.copy()
            e0.pw = False
            idx = self.expr(e.slice, e0)
            if idx.kind != "N":
                raise Unsupported(f"line {e.lineno}: list index of kind {idx.kind}")
            ek, dflt = self.LIST_DEFAULT[env.kinds[e.value.id]]
            return Val(f"({e.value.id}.getD {idx.code} {dflt})", ek)
        return super().subscript(e, env)

    def np_array_of_list(self, e: ast.AST, env: Env) -> Optional[Val]:
        """np.array(<list-valued expression>[, dtype=int])"""
        if not (isinstance(e, ast.Call) and ast.unparse(e.func) == "np.array" and len(e.args) == 1):
            return None
        if isinstance(e.args[0], ast.List):
            return None
        e0 = env.copy()
        e0.pw = False
        v = self.expr(e.args[0], e0)
        if v.kind not in self.ARR_OF:
            raise Unsupported(f"line {e.lineno}: np.array of a value of kind {v.kind}")
        kws = {k.arg: ast.unparse(k.value) for k in e.keywords}
        if kws and not (kws == {"dtype": "int"} and v.kind == "LZ"):
            raise Unsupported(f"line {e.lineno}: np.array keywords {kws}")
        return Val(f"(NpSG.ofList {self.LIST_DEFAULT[v.kind][1]} {v.code})", self.ARR_OF[v.kind])

    def call(self, e: ast.Call, env: Env) -> Val:
        fu = ast.unparse(e.func)
        if fu == "len" and len(e.args) == 1 and isinstance(e.args[0], ast.Name) and env.kinds.get(e.args[0].id) in self.LIST_DEFAULT:
            return Val(f"{e.args[0].id}.length", "N")
        if fu == "np.array":
            v = self.np_array_of_list(e, env)
            if v is not None:
                if env.pw:
                    return Val(f"({v.code}.get i_)", T.VEC_ELEM[v.kind])
                return v
        if fu == "np.mean" and len(e.args) == 1 and not e.keywords and self.mentions_vector(e.args[0], env):
            e0 = env.copy()
            e0.pw = False
            v = self.vector_value(e.args[0], e0)
            if v.kind != "A":
                raise Unsupported(f"line {e.lineno}: np.mean of a vector of kind {v.kind}")
            return Val(f"(Arr.mean {v.code})", "R")
        if fu == "list_set__" and len(e.args) == 3:
            lst, idx, val = (self.expr(a, env) for a in e.args)
            if lst.kind not in ("LZ", "LR") or idx.kind != "N":
                raise Unsupported(f"line {e.lineno}: list store kinds {lst.kind}[{idx.kind}]")
            val = self.coerce(val, self.LIST_DEFAULT[lst.kind][0], e.lineno)
            return Val(f"(List.set {lst.code} {idx.code} {val.code})", lst.kind)
        if fu == "starts__" and self.starts_name is not None:
            args = [self.expr(a, env) for a in e.args]
            if [a.kind for a in args] != ["Z", "Z", "Z"]:
                raise Unsupported(f"line {e.lineno}: start positions called with kinds {[a.kind for a in args]}")
            return Val(f"({self.starts_name} (α := α) " + " ".join(a.code for a in args) + ")", "LZ")
        return super().call(e, env)

    def mentions_vector(self, e: ast.AST, env: Env) -> bool:
        if isinstance(e, ast.Subscript) and isinstance(e.slice, ast.Slice):
            return True
        if isinstance(e, ast.Call) and ast.unparse(e.func) == "np.array" and len(e.args) == 1 and not isinstance(e.args[0], ast.List):
            return True
        if isinstance(e, ast.Call) and ast.unparse(e.func) == "np.mean":
            return False
        return super().mentions_vector(e, env)

    def vec_len(self, e: ast.AST, env: Env) -> str:
        slices = []
        whole = []

        def walk(n: ast.AST):
            if isinstance(n, ast.Subscript):
                sl = self.slice_of(n, env)
                if sl is not None:
                    slices.append(sl)
                    return
                if isinstance(n.value, ast.Name) and env.kinds.get(n.value.id) in self.LIST_DEFAULT:
                    return              # a scalar read of a Python list
            if isinstance(n, ast.Name) and env.kinds.get(n.id) in T.VEC_ELEM:
                whole.append(n.id)
            for c in ast.iter_child_nodes(n):
                walk(c)
        walk(e)
        if slices:
            if whole or len({(s[0], s[3]) for s in slices}) != 1:
                raise Unsupported(f"line {getattr(e, 'lineno', '?')}: elementwise expression over slices of different shapes "
                                  f"({[(s[0], s[1], s[2]) for s in slices]}, whole vectors {whole})")
            return f"{self.slice_code(slices[0])}.n"
        return super().vec_len(e, env)

    # ----- statements
    def hoist_arrays(self, e: ast.AST, env: Env, ind: str) -> Tuple[ast.AST, Env, str]:
        """bind every proper sub-expression `np.array(<list>)` of a vector expression to a fresh array variable"""
        if self.np_call_is_array(e):
            return e, env, ""
        out = [""]
        env2 = [env]
        me = self

        class H(ast.NodeTransformer):
            def visit_Call(self, n):
                if me.np_call_is_array(n):
                    v = me.np_array_of_list(n, env2[0])
                    me.tmp += 1
                    nm = f"arr__{me.tmp}"
                    out[0] += f"{ind}let {nm} : {T.VEC_TY[v.kind]} := {v.code}\n"
                    env2[0] = env2[0].copy()
                    env2[0].kinds[nm] = v.kind
                    return ast.copy_location(ast.Name(id=nm, ctx=ast.Load()), n)
                return self.generic_visit(n)
        import copy as _copy
        e2 = H().visit(_copy.deepcopy(e))
        ast.fix_missing_locations(e2)
        return e2, env2[0], out[0]

    @staticmethod
    def np_call_is_array(n: ast.AST) -> bool:
        return isinstance(n, ast.Call) and ast.unparse(n.func) == "np.array" and len(n.args) == 1 and not isinstance(n.args[0], ast.List)

    def value_of(self, e: ast.AST, env: Env, ind: str) -> Tuple[Val, str]:
        """value of an arbitrary right-hand side (scalar, list, array, vector expression) + the lets it needs"""
        pre = ""
        if self.mentions_vector(e, env) and not self.np_call_is_array(e):
            e, env, pre = self.hoist_arrays(e, env, ind)
            if isinstance(e, ast.Name):
                return self.expr(e, env), pre
            return self.vector_value(e, env), pre
        return self.expr(e, env), pre

    TY = {"R": "α", "N": "Nat", "Z": "Int", "B": "Bool", "LR": "List α", "LZ": "List Int", "LLZ": "List (List Int)",
          "A": "Arr α", "AZ": "Arr Int", "AB": "Arr Bool", "AAZ": "Arr (Arr Int)", "PD": "Py.PlanDict α"}

    def plan_dict(self, e: ast.Dict, env: Env, ind: str) -> Tuple[str, str]:
        keys = []
        for k in e.keys:
            if not (isinstance(k, ast.Constant) and isinstance(k.value, str)):
                raise Unsupported(f"line {e.lineno}: output dictionary key is not a string literal")
            keys.append(k.value)
        if sorted(keys) != sorted(PLAN_KEYS):
            raise Unsupported(f"line {e.lineno}: output dictionary keys {keys} (expected exactly {PLAN_KEYS})")
        pre = ""
        fields = []
        for k, v in zip(keys, e.values):
            val, p = self.value_of(v, env, ind)
            pre += p
            if k in REAL_FIELDS:
                view = {"LR": "{c}", "A": "(NpSG.toList {c})"}.get(val.kind)
            elif k in INT_FIELDS:
                view = {"LZ": "{c}", "AZ": "(NpSG.toList {c})"}.get(val.kind)
            elif k == "D":
                view = {"LLZ": "{c}", "AAZ": "(NpSG.toList2 {c})"}.get(val.kind)
            else:
                view = {"N": "{c}"}.get(val.kind)
            if view is None:
                raise Unsupported(f"line {v.lineno}: value of kind {val.kind} published under \"{k}\"")
            fields.append(f"{k} := " + view.format(c=val.code))
        return "{ " + ", ".join(fields) + " }", pre

    def block(self, stmts: List[ast.stmt], env: Env, ind: str, final) -> str:
        if not stmts:
            return super().block(stmts, env, ind, final)
        s, rest = stmts[0], stmts[1:]
        # the translated closed-form block `shift = …; D = …; O = …` (region Sched), at the position the source has it
        if self.post_block is not None and s is self.post_block[0][0]:
            blk, lean = self.post_block
            if len(stmts) < 3 or stmts[1] is not blk[1] or stmts[2] is not blk[2]:
                raise Unsupported(f"line {s.lineno}: the shift / D / O statements are not consecutive")
            if [env.kinds.get(n) for n in ("N", "L", "K")] != ["Z", "AZ", "AZ"]:
                raise Unsupported(f"line {s.lineno}: shift/D/O block needs N : int, L, K : integer arrays; found "
                                  f"{[env.kinds.get(n) for n in ('N', 'L', 'K')]}")
            names = [b.targets[0].id for b in blk]
            env = env.copy()
            out = f"{ind}let post__ : (Arr α) × (Arr (Arr Int)) × (Arr α) := {lean} N L K\n"
            for nm, proj, kind in zip(names, ("post__.1", "post__.2.1", "post__.2.2"), ("A", "AAZ", "A")):
                out += f"{ind}let {nm} : {self.TY[kind]} := {proj}\n"
                env.kinds[nm] = kind
            return out + self.block(stmts[3:], env, ind, final)
        # exit guard:  if c: logger.…(…); sys.exit(…)
        if (isinstance(s, ast.If) and not s.orelse and s.body and isinstance(s.body[-1], ast.Expr) and isinstance(s.body[-1].value, ast.Call)
                and ast.unparse(s.body[-1].value.func) == "sys.exit"):
            for b in s.body[:-1]:
                if not (isinstance(b, ast.Expr) and isinstance(b.value, ast.Call) and ast.unparse(b.value.func).startswith("logger.")):
                    raise Unsupported(f"line {b.lineno}: statement in front of sys.exit is not a logging call")
            c = self.expr(s.test, env)
            if c.kind != "B":
                raise Unsupported(f"line {s.lineno}: exit guard kind")
            return f"{ind}if {c.code} then none else\n" + self.block(rest, env, ind, final)
        # return <plan dictionary>
        if isinstance(s, ast.Return):
            if rest:
                raise Unsupported("code after return")
            if isinstance(s.value, ast.Dict):
                code, pre = self.plan_dict(s.value, env, ind)
                self.ret_kind = "OPD"
                return pre + f"{ind}some ({code} : Py.PlanDict α)"
            v = self.expr(s.value, env)
            if v.kind != "PD":
                raise Unsupported(f"line {s.lineno}: the scheduler returns a value of kind {v.kind}, not the plan dictionary")
            self.ret_kind = "OPD"
            return f"{ind}some {v.code}"
        # simultaneous assignment  a, b, … = e1, e2, …   (all right-hand sides are evaluated first)
        if isinstance(s, ast.Assign) and len(s.targets) == 1 and isinstance(s.targets[0], ast.Tuple) and isinstance(s.value, ast.Tuple):
            tg, vs = s.targets[0].elts, s.value.elts
            if len(tg) != len(vs) or not all(isinstance(t, ast.Name) for t in tg) or len({t.id for t in tg}) != len(tg):
                raise Unsupported(f"line {s.lineno}: tuple assignment shape")
            out = ""
            vals = []
            for t, v in zip(tg, vs):
                val, pre = self.value_of(v, env, ind)
                if val.kind not in self.TY:
                    raise Unsupported(f"line {s.lineno}: tuple assignment of a value of kind {val.kind}")
                self.tmp += 1
                nm = f"rhs__{self.tmp}"
                out += pre + f"{ind}let {nm} : {self.TY[val.kind]} := {val.code}\n"
                vals.append((t.id, nm, val.kind))
            env = env.copy()
            for name, nm, kind in vals:
                out += f"{ind}let {name} : {self.TY[kind]} := {nm}\n"
                env.kinds[name] = kind
            return out + self.block(rest, env, ind, final)
        if isinstance(s, ast.Assign) and len(s.targets) == 1 and isinstance(s.targets[0], ast.Name):
            name = s.targets[0].id
            # X = np.array(<list>): the name now denotes an array
            if self.np_call_is_array(s.value):
                v = self.np_array_of_list(s.value, env)
                env = env.copy()
                env.kinds[name] = v.kind
                return f"{ind}let {name} : {self.TY[v.kind]} := {v.code}\n" + self.block(rest, env, ind, final)
            # output = { "f": …, … }
            if isinstance(s.value, ast.Dict):
                code, pre = self.plan_dict(s.value, env, ind)
                env = env.copy()
                env.kinds[name] = "PD"
                return pre + f"{ind}let {name} : Py.PlanDict α := {code}\n" + self.block(rest, env, ind, final)
            # a list (of lists) bound to a new name or re-bound
            if isinstance(s.value, ast.List) and not s.value.elts and self.sig.get(name) == "LLZ":
                env = env.copy()
                env.kinds[name] = "LLZ"
                return f"{ind}let {name} : List (List Int) := []\n" + self.block(rest, env, ind, final)
            if self.mentions_vector(s.value, env):
                val, pre = self.value_of(s.value, env, ind)
                env = env.copy()
                env.kinds[name] = val.kind
                return pre + f"{ind}let {name} : {self.TY[val.kind]} := {val.code}\n" + self.block(rest, env, ind, final)
        # append to a list of lists
        if (isinstance(s, ast.Expr) and isinstance(s.value, ast.Call) and isinstance(s.value.func, ast.Attribute) and s.value.func.attr == "append"
                and isinstance(s.value.func.value, ast.Name) and len(s.value.args) == 1 and env.kinds.get(s.value.func.value.id) == "LLZ"):
            lst = s.value.func.value.id
            v = self.expr(s.value.args[0], env)
            if v.kind != "LZ":
                raise Unsupported(f"line {s.lineno}: append of a value of kind {v.kind} to a list of integer lists")
            return f"{ind}let {lst} : List (List Int) := {lst} ++ [{v.code}]\n" + self.block(rest, env, ind, final)
        return super().block(stmts, env, ind, final)

    def for_loop(self, s: ast.For, rest, env: Env, ind: str, final) -> str:
        """`for v in range(n)` over Python lists: a fold carrying every list / scalar assigned in the body that exists before it"""
        var, bound, parallel = self.loop_range(s, env)
        if parallel or getattr(self, "range_start", None) is not None:
            raise Unsupported(f"line {s.lineno}: loop form")
        if self.stores(s.body):
            raise Unsupported(f"line {s.lineno}: subscript store in a glue loop")
        inner = env.copy()
        inner.kinds[var] = "N"
        assigned = self.assigned_names(s.body)
        carried = sorted(n for n in assigned if n in env.kinds)
        if not carried:
            raise Unsupported(f"line {s.lineno}: loop with no effect")
        for n in carried:
            if env.kinds[n] not in ("R", "N", "Z", "LR", "LZ", "LLZ"):
                raise Unsupported(f"line {s.lineno}: carried {n} of kind {env.kinds[n]}")
        self.tmp += 1
        st = f"st{self.tmp}"
        tys = " × ".join(self.LT_ALL[env.kinds[n]] for n in carried)

        def fin(e2: Env) -> str:
            for n in carried:
                if e2.kinds[n] != env.kinds[n]:
                    raise Unsupported(f"line {s.lineno}: carried {n} changes kind")
            return "(" + ", ".join(carried) + ")" if len(carried) > 1 else carried[0]
        body_code = self.block(s.body, inner, ind + "    ", fin)
        init = "(" + ", ".join(carried) + ")" if len(carried) > 1 else carried[0]
        out = f"{ind}let {st} : {tys} := forRange {bound} {init} (fun ({var} : Nat) ({st} : {tys}) =>\n"
        out += self.unpack(st, carried, ind + "    ")
        out += body_code + ")\n"
        out += self.unpack(st, carried, ind)
        return out + self.block(rest, env, ind, final)


def _desugar_list_stores(stmts: List[ast.stmt], lists: set) -> List[ast.stmt]:
    """`X[i] = v` on a Python list X (a value in the model, never aliased here)  ->  `X = list_set__(X, i, v)`"""
    class D(ast.NodeTransformer):
        def visit_Assign(self, n):
            if (len(n.targets) == 1 and isinstance(n.targets[0], ast.Subscript) and isinstance(n.targets[0].value, ast.Name)
                    and n.targets[0].value.id in lists and not isinstance(n.targets[0].slice, ast.Slice)):
                x = n.targets[0].value.id
                new = ast.Assign(targets=[ast.Name(id=x, ctx=ast.Store())],
                                 value=ast.Call(func=ast.Name(id="list_set__", ctx=ast.Load()),
                                                args=[ast.Name(id=x, ctx=ast.Load()), n.targets[0].slice, n.value], keywords=[]))
                return ast.fix_missing_locations(ast.copy_location(new, n))
            return n
    return [D().visit(s) for s in stmts]


def _split_second_loop(fn: ast.FunctionDef, loop: ast.For) -> ast.For:
    """ltf_plan's `for j in range(nf)` with `D_arr.append([])`: leading per-bin bookkeeping (translated here, statement by statement)
    followed by the start-position statements, which region Sched translates as `Gen.ltf_plan_starts N L_j averages`
    (T._starts_function: every statement of the body that is not one of the four bookkeeping statements, `D_arr[j]` read as the
    list being built).  Here it is checked that those statements form the contiguous END of the body, so that the loop is
    `bookkeeping; D_arr.append(ltf_plan_starts(N, L_j, averages))`."""
    T._starts_function(fn)        # raises Unsupported when region Sched cannot extract the start positions
    j = loop.target.id
    bookkeeping = {f"L_j = int(L_arr[{j}])", f"L_arr[{j}] = L_j", f"averages = int(K_arr[{j}])", "navg_arr.append(averages)"}
    idx = [i for i, st in enumerate(loop.body) if ast.unparse(st).strip() in bookkeeping]
    if idx != list(range(len(bookkeeping))):
        raise Unsupported(f"line {loop.lineno}: the per-bin bookkeeping of the start-position loop is interleaved with the start computation "
                          f"(positions {idx})")
    head = loop.body[:len(bookkeeping)]
    tail = loop.body[len(bookkeeping):]
    for st in tail:
        for n in ast.walk(st):
            if isinstance(n, ast.Name) and n.id in ("L_arr", "K_arr", "navg_arr"):
                raise Unsupported(f"line {n.lineno}: start computation reads {n.id}")
    call = ast.parse("D_arr.append(starts__(N, L_j, averages))").body[0]
    ast.copy_location(call, tail[0])
    ast.fix_missing_locations(call)
    new = ast.For(target=loop.target, iter=loop.iter, body=list(head) + [call], orelse=[])
    ast.copy_location(new, loop)
    ast.fix_missing_locations(new)
    return new


def gen_scheduler(fn: ast.FunctionDef) -> str:
    name = fn.name
    kw = fn.args.kwarg.arg if fn.args.kwarg is not None else None
    if kw is None or fn.args.args or fn.args.vararg or fn.args.kwonlyargs:
        raise Unsupported(f"{name}: signature must be (**args)")
    body = [s for s in fn.body if not _is_doc(s)]
    # 1. unpacking
    s0 = body[0] if body else None
    if not (isinstance(s0, ast.Assign) and len(s0.targets) == 1 and isinstance(s0.targets[0], ast.Tuple)
            and all(isinstance(t, ast.Name) for t in s0.targets[0].elts) and isinstance(s0.value, ast.Call)
            and isinstance(s0.value.func, ast.Name) and s0.value.func.id == "_require_args" and len(s0.value.args) == 2 and not s0.value.keywords
            and isinstance(s0.value.args[0], ast.Name) and s0.value.args[0].id == kw):
        raise Unsupported(f"{name}: first statement must be `<names> = _require_args({kw}, [<keys>])`")
    targets = [t.id for t in s0.targets[0].elts]
    keys = _str_list(s0.value.args[1], "required names")
    if len(targets) != len(keys):
        raise Unsupported(f"line {s0.lineno}: {len(targets)} names unpacked from {len(keys)} required keys")
    if sorted(targets) != sorted(T.SCHED_PARAMS):
        raise Unsupported(f"line {s0.lineno}: unpacked names {targets} are not the parameters of the translated walk {T.SCHED_PARAMS}")
    # 2. the walk: statements up to and including the (only) top-level while — region Sched
    wi = [i for i, s in enumerate(body) if isinstance(s, ast.While)]
    if len(wi) != 1 or wi[0] < 1:
        raise Unsupported(f"{name}: expected exactly one top-level while loop after the unpacking, found {len(wi)}")
    prefix, tail = body[1:wi[0] + 1], body[wi[0] + 1:]
    for s in prefix + tail:
        for n in ast.walk(s):
            if isinstance(n, ast.Name) and n.id == kw:
                raise Unsupported(f"line {n.lineno}: the keyword dictionary is used after the unpacking")
    returns = T.SCHED_RETURNS[name]
    sig = dict(T.SCHED_BASE)
    for r in returns:
        sig[r] = T.SCHED_SIGS[name][r]
    # lists created (empty) before the walk, untouched by it, first used afterwards
    inits: List[ast.stmt] = []
    for x, kind in TAIL_LISTS[name].items():
        defs = [s for s in prefix if isinstance(s, ast.Assign) and len(s.targets) == 1 and isinstance(s.targets[0], ast.Name)
                and s.targets[0].id == x]
        touched = [n for s in prefix for n in ast.walk(s) if isinstance(n, ast.Name) and n.id == x]
        if len(defs) == 0 and len(touched) == 0:
            continue                                # not created before the walk: the statements after it must define it
        if not (len(defs) == 1 and len(touched) == 1 and isinstance(defs[0].value, ast.List) and not defs[0].value.elts):
            raise Unsupported(f"{name}: {x} must be created once as [] before the walk and not be used by it")
        sig[x] = kind
        inits.append(defs[0])
    for x, kind in TAIL_LISTS[name].items():
        sig.setdefault(x, kind)
    # 3. the statements after the walk
    post_block = None
    tr_kwargs = {}
    if name == "ltf_plan":
        loops = [s for s in tail if isinstance(s, ast.For) and any(ast.unparse(b).strip() == "D_arr.append([])" for b in s.body)]
        if len(loops) != 1 or not isinstance(loops[0].target, ast.Name) or ast.unparse(loops[0].iter) != "range(nf)":
            raise Unsupported("ltf_plan: start-position loop `for j in range(nf)` with D_arr.append([]) not found exactly once after the walk")
        tail = [(_split_second_loop(fn, s) if s is loops[0] else s) for s in tail]
    else:
        pf = T._post_function(fn, name + "_post")            # raises Unsupported when region Sched cannot extract shift/D/O
        blk = pf.body[:3]
        if not all(any(b is s for s in tail) for b in blk):
            raise Unsupported(f"{name}: the shift / D / O statements are not top-level statements after the walk")
        post_block = (blk, name + "_post")
    tail = _desugar_list_stores(tail, {x for x, k in sig.items() if k in ("LR", "LZ")})
    args = list(T.SCHED_PARAMS) + returns
    new = ast.FunctionDef(name=name + "_glue_post",
                          args=ast.arguments(posonlyargs=[], args=[ast.arg(arg=a) for a in args], kwonlyargs=[], kw_defaults=[], defaults=[]),
                          body=inits + tail, decorator_list=[], lineno=(tail[0].lineno if tail else fn.lineno))
    ast.fix_missing_locations(new)
    new.lineno, new.end_lineno = (tail[0].lineno if tail else fn.lineno), fn.end_lineno
    new.__dict__["_file"] = fn.__dict__.get("_file", "")
    tr = GlueTranslator(new, sig, {}, name + "_glue_post")
    tr.post_block = post_block
    tr.starts_name = "ltf_plan_starts" if name == "ltf_plan" else None
    text, _info = tr.translate()
    if tr.ret_kind != "OPD":
        raise Unsupported(f"{name}: does not return the plan dictionary")
    # 4. the scheduler: unpack, walk, statements after the walk
    LT = GlueTranslator.LT_ALL
    out = text + "\n"
    out += f"/-- schedulers.py:{fn.lineno}-{fn.end_lineno} `{name}`: unpacking (line {s0.lineno}), the walk (region Sched), `{name}_glue_post` -/\n"
    out += f"def {name} ({kw} : Py.Dict (Py.Val α)) (fuel : Nat) : Option (Py.PlanDict α) :=\n"
    out += f"  match _require_args {kw} {_lean_str_list(keys)} with\n"
    out += "  | some [" + ", ".join(t + "__v" for t in targets) + "] =>\n"
    ints = [t for t in targets if T.SCHED_BASE[t] == "Z"]
    reals = [t for t in targets if T.SCHED_BASE[t] == "R"]
    out += "    match " + ", ".join(f"Py.Val.asInt {t}__v" for t in ints) + " with\n"
    out += "    | " + ", ".join(f"some {t}" for t in ints) + " =>\n"
    for t in reals:
        out += f"      let {t} : α := Py.Val.asReal {t}__v\n"
    out += f"      let walk__ := {name}_walk " + " ".join(T.SCHED_PARAMS) + " fuel\n"
    for i, r in enumerate(returns):
        proj = "walk__" + "".join(".2" for _ in range(i)) + (".1" if i < len(returns) - 1 else "")
        out += f"      let {r} : {LT[sig[r]]} := {proj}\n"
    out += f"      {name}_glue_post " + " ".join(args) + "\n"
    out += "    | " + ", ".join("_" for _ in ints) + " => none\n"
    out += "  | _ => none\n"
    return out


def generate(repo: str) -> Tuple[str, List[str]]:
    path = os.path.join(repo, SOURCES[0])
    fns = T.parse_functions(path)
    out = T.HEADER.format(src=SOURCES[0], sha=T.sha_of(path)).replace(
        "import SpecKitV.Num\n", "import SpecKitV.Num\nimport SpecKitV.Np.SchedGlue\nimport SpecKitV.Gen.Sched\n")
    out = out.replace("/verif/vk/translate.py", "/verif/vk/regions/sched_glue.py")
    out += DOC + "\n"
    errors: List[str] = []
    units = [("_require_args", lambda f: gen_require_args(f)),
             ("ltf_plan", gen_scheduler),
             ("lpsd_plan", lambda f: gen_forwarder(f, ["ltf_plan", "vectorized_ltf_plan", "new_ltf_plan"])),
             ("vectorized_ltf_plan", gen_scheduler),
             ("new_ltf_plan", gen_scheduler)]
    for name, emit in units:
        try:
            if name not in fns:
                raise Unsupported("function not found")
            out += emit(fns[name]) + "\n"
        except Unsupported as ex:
            errors.append(f"{name}: {ex}")
            msg = str(ex).replace("-/", "- /")
            out += f"/- UNSUPPORTED {name}: {msg} -/\ndef {name}_UNSUPPORTED : Nat := translation_failed_{name}\n\n"
    out += "end Gen\n"
    return out, errors
