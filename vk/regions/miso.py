"""Region `Miso`: speckit/systems.py — SISO_optimal_spectral_analysis, MISO_analytic_optimal_spectral_analysis,
MISO_numeric_optimal_spectral_analysis — translated to Lean on every check run (lean/SpecKitV/Gen/Miso.lean).

What is translated (everything is derived from the AST of the current source; anything without a rule raises `Unsupported` and
the function becomes a stub that fails to build):

* which `ltf(...)` calls are made: one channel (`auto x`) or two (`cross x y`, the ORDER of the list is kept), that every call passes
  exactly `fs, **kwargs`; the channels are followed from the parameters through `np.asarray` / `input_arrays.append`;
* which ATTRIBUTE of which call result goes where (`obj.Gxy`, `np.conj(obj.Gxy)`, `obj.Gxx`, `obj.Gyy`, `csd.GyySx` …): the attribute
  name is looked up in the TRANSLATED `SpectrumResult.__getattr__` table (Gen/Attrs.lean: `Gen.Cross.Gxy`, `Gen.Auto.Gxx`, …);
* the dict `result` with its f-string keys (a key is the Python string itself: list of characters, `{i + 1}` = decimal digits);
  the helper `get_ltf_result` (memoisation on the key); the NumPy stores `Tmat[i, j, :] = …`, `Svec[i, :] = …`, `Hvec[:, k] = …`, the
  diagonal rule `if not np.any(Tmat[i, i, :])`, the `q == 1` case;
* the SymPy system: the symbol names (`S{i}0`, `T{i+1}{j+1}`, `H1:{q+1}`) and the equations `eqns` are translated into
  `<fn>.eqns q sym i` (value of equation i under a valuation `sym` of the symbol NAMES); `sp.solve` + `lambdify` are external: the
  solution enters as the parameter `Hsol`, stored under the unknowns' names; the contract "`<fn>.eqns q (result after the store) i = 0`"
  is stated in Props/MisoGen.lean;
* the per-bin solve of the numeric function: `np.linalg.cond/pinv/solve` are parameters (`Np.Miso.LinAlg`), WHICH matrix and right-hand
  side they get (`Tmat[:, :, k]`, `Svec[:, k]`), the `cond > 1e12` branch and the `try/except LinAlgError` are translated;
* the residual: `Sum1`, `Sum2`, `Sum3` loops / `np.sum(axis=0)`, `np.abs(np.sqrt(S00 - Sum1 - Sum2 + Sum3))`, and the returned value.

Arrays along the frequency axis are index functions `Nat → …` (every whole-axis statement is elementwise; `np.any` is the one reduction
along that axis and is translated as such, over `nf` bins).  The first component of the returned tuple (the frequency grid) is checked
to BE a frequency grid (`.f` of an ltf result) and is not translated further.

Dropped as value-irrelevant (listed with line numbers in the generated file): docstrings, `logger.*` calls, `if …: raise …` input
validation and grid/length verification (preconditions: the real code rejects the input), loops consisting only of those, `np.asarray`
of the channels, `dtype=complex` conversions.
"""
from __future__ import annotations

import ast
import os
import re
from dataclasses import dataclass, field
from typing import Callable, Dict, List, Optional, Tuple

from ..translate import HEADER, Unsupported, _lit_float, gen_attrs, sha_of

REGION = "Miso"
SOURCES = ["speckit/systems.py", "speckit/analysis.py"]

FUNCTIONS = ["SISO_optimal_spectral_analysis", "MISO_analytic_optimal_spectral_analysis", "MISO_numeric_optimal_spectral_analysis"]

RESERVED = {"k_", "a_", "b_", "p_", "st_", "sym_", "t_", "m_", "br_", "exc_", "ltf", "la", "Hsol", "q", "fun", "let", "end", "if", "then", "else",
            "match", "with", "do", "at", "from", "have", "show", "in", "def", "theorem", "structure", "where", "open", "namespace", "Type", "Prop"}

ZERO_C = "(Cx.ofReal RealLike.zero)"


@dataclass
class V:
    code: str
    kind: str
    dims: Tuple[str, ...] = ()        # A2 / A3 / MAT / VEC: dimension codes;  FC / FR: (length code,) when known
    real_keys: frozenset = frozenset()
    extra: Dict[str, object] = field(default_factory=dict)


LEAN_TY = {"N": "Nat", "B": "Bool", "R": "α", "OR": "Option α", "SPECA": "Np.Miso.Spec α", "SPECC": "Np.Miso.Spec α", "FR": "Nat → α", "FC": "Nat → Cx α",
           "A2": "Np.Miso.A2 α", "A3": "Np.Miso.A3 α", "DICT": "Np.Miso.Dict α", "CACHE": "Np.Miso.Cache α", "MAT": "Nat → Nat → Cx α",
           "VEC": "Nat → Cx α"}
STATIC_KINDS = {"CH", "CHLIST", "FREQ", "LEN", "SYMV", "SYMM", "EQNS", "SOL", "MEMO", "KEY", "ZLIST", "PARAMCH", "PARAMLIST", "FS", "KWARGS"}


class Env:
    def __init__(self):
        self.v: Dict[str, V] = {}

    def copy(self) -> "Env":
        e = Env()
        e.v = dict(self.v)
        return e


def key_lit(s: str, lineno) -> str:
    if not re.fullmatch(r"[A-Za-z0-9_:]*", s):
        raise Unsupported(f"line {lineno}: dict key text {s!r}")
    return "[" + ", ".join(f"'{c}'" for c in s) + "]"


def canon_text(node: ast.AST, keep: set) -> str:
    """unparse with local names renamed in order of first occurrence (rename-insensitive statement matching)"""
    names: Dict[str, str] = {}

    class R(ast.NodeTransformer):
        def visit_Name(self, n):
            if n.id in keep:
                return n
            names.setdefault(n.id, f"v{len(names)}")
            return ast.copy_location(ast.Name(id=names[n.id], ctx=n.ctx), n)
    import copy
    return ast.unparse(R().visit(copy.deepcopy(node)))


class SysTranslator:
    def __init__(self, fn: ast.FunctionDef, attr_table: Dict[str, Dict[str, Optional[str]]]):
        self.fn = fn
        self.name = fn.name
        self.attrs = attr_table
        self.dropped: List[str] = []
        self.defs: List[str] = []           # auxiliary definitions (loops, eqns) emitted before the main one
        self.nloop = 0
        self.uses = {"ltf": False, "la": False, "Hsol": False, "q": False}
        self.fn_params: List[Tuple[str, str]] = []     # resolved after a dry run
        self.in_try: Optional[str] = None   # code evaluated when a raising call raises
        self.try_outer: set = set()
        self.ret_first_checked = False

    # ------------------------------------------------------------------ helpers
    def U(self, node, msg: str):
        return Unsupported(f"line {getattr(node, 'lineno', '?')}: {msg}")

    def src_line(self, node) -> str:
        txt = ast.unparse(node).splitlines()[0]
        return f"{node.lineno}: {txt[:100]}"

    def plist(self) -> str:
        return " ".join(f"({n} : {t})" for n, t in self.fn_params)

    def pargs(self) -> str:
        return " ".join(n for n, _ in self.fn_params)

    def ident(self, name: str, node=None) -> str:
        if name in RESERVED or name.endswith("__"):
            raise self.U(node, f"identifier {name} collides with a reserved name of the translation")
        return name

    # ------------------------------------------------------------------ droppable statements
    def is_logger_call(self, s: ast.stmt) -> bool:
        return (isinstance(s, ast.Expr) and isinstance(s.value, ast.Call) and isinstance(s.value.func, ast.Attribute)
                and isinstance(s.value.func.value, ast.Name) and s.value.func.value.id == "logger")

    def pure_iter(self, e: ast.AST) -> bool:
        t = ast.unparse(e)
        return bool(re.fullmatch(r"(enumerate\(\w+\)|\w+\.items\(\)|range\([\w\s+\-,]*\))", t))

    def droppable(self, s: ast.stmt) -> bool:
        if isinstance(s, ast.Expr) and isinstance(s.value, ast.Constant) and isinstance(s.value.value, str):
            return True
        if self.is_logger_call(s):
            return True
        if isinstance(s, ast.Raise):
            return True
        if isinstance(s, ast.If):
            return bool(s.body) and all(self.droppable(x) for x in s.body) and all(self.droppable(x) for x in s.orelse) and self.pure_test(s.test)
        if isinstance(s, ast.For):
            return not s.orelse and self.pure_iter(s.iter) and all(self.droppable(x) for x in s.body)
        return False

    def pure_test(self, e: ast.AST) -> bool:
        """the test of a dropped `if` must be free of side effects: names, attributes, constants, comparisons and a few pure calls"""
        for n in ast.walk(e):
            if isinstance(n, ast.Call):
                f = ast.unparse(n.func)
                if f not in ("np.isfinite", "np.all", "np.allclose", "isinstance", "len", "type"):
                    return False
            elif isinstance(n, (ast.NamedExpr, ast.Await, ast.Yield, ast.YieldFrom, ast.Lambda)):
                return False
        return True

    # ------------------------------------------------------------------ expressions
    def expr(self, e: ast.AST, env: Env) -> V:
        if isinstance(e, ast.Constant):
            if isinstance(e.value, bool):
                return V("true" if e.value else "false", "B")
            if isinstance(e.value, int) and e.value >= 0:
                return V(str(e.value), "N")
            if isinstance(e.value, float):
                return V(_lit_float(e.value), "R")
            if isinstance(e.value, str):
                return V(key_lit(e.value, e.lineno), "KEY", extra={"const": e.value})
            raise self.U(e, f"constant {e.value!r}")
        if isinstance(e, ast.JoinedStr):
            parts = []
            const = ""
            is_const = True
            for p in e.values:
                if isinstance(p, ast.Constant) and isinstance(p.value, str):
                    parts.append(key_lit(p.value, e.lineno))
                    const += p.value
                elif isinstance(p, ast.FormattedValue) and p.conversion == -1 and p.format_spec is None:
                    v = self.expr(p.value, env)
                    if v.kind != "N":
                        raise self.U(e, "f-string field that is not a non-negative int")
                    parts.append(f"Np.Miso.Key.num {self.par(v.code)}")
                    is_const = False
                else:
                    raise self.U(e, "f-string form")
            code = "(" + " ++ ".join(parts) + ")" if parts else "([] : Np.Miso.Key)"
            first = e.values[0].value if e.values and isinstance(e.values[0], ast.Constant) else ""
            return V(code, "KEY", extra={"const": const} if is_const else {"prefix": first})
        if isinstance(e, ast.Name):
            if e.id not in env.v:
                raise self.U(e, f"unknown variable {e.id}")
            v = env.v[e.id]
            if v.kind in ("FR", "FC"):
                return V(f"({v.code} k_)", v.kind, v.dims)
            if v.kind == "A2":
                return V(f"({v.code} a_ k_)", "A2E", v.dims)
            return v
        if isinstance(e, ast.UnaryOp) and isinstance(e.op, ast.Not):
            v = self.expr(e.operand, env)
            if v.kind != "B":
                raise self.U(e, "`not` of a non-boolean")
            return V(f"(!{v.code})", "B")
        if isinstance(e, ast.BinOp):
            return self.binop(e, env)
        if isinstance(e, ast.Compare):
            return self.compare(e, env)
        if isinstance(e, ast.Subscript):
            return self.subscript(e, env)
        if isinstance(e, ast.Attribute):
            return self.attribute(e, env)
        if isinstance(e, ast.Call):
            return self.call(e, env)
        if isinstance(e, ast.List):
            vals = [self.expr(x, env) for x in e.elts]
            if len(vals) == 2 and all(v.kind == "CH" for v in vals):
                return V("", "CHPAIR", extra={"a": vals[0].code, "b": vals[1].code})
            if len(vals) == 1 and vals[0].kind == "N":
                return V(vals[0].code, "LIST1")
            raise self.U(e, "list expression")
        raise self.U(e, f"expression {type(e).__name__}")

    @staticmethod
    def par(code: str) -> str:
        return code if re.fullmatch(r"[\w.]+|\(.*\)", code) and (not code.startswith("(") or SysTranslator.balanced(code)) else f"({code})"

    @staticmethod
    def balanced(code: str) -> bool:
        depth = 0
        for i, c in enumerate(code):
            if c == "(":
                depth += 1
            elif c == ")":
                depth -= 1
                if depth == 0 and i != len(code) - 1:
                    return False
        return depth == 0

    def to_c(self, v: V, node) -> V:
        """promote a real frequency array / scalar to complex (NumPy type promotion: exact embedding)"""
        if v.kind in ("FC", "A2E", "C"):
            return v
        if v.kind == "FR":
            return V(f"(Cx.ofReal {self.par(v.code)})", "FC", v.dims)
        if v.kind == "N":
            return V(f"(Cx.ofReal (RealLike.ofNat {self.par(v.code)}))", "C")
        if v.kind == "R":
            return V(f"(Cx.ofReal {self.par(v.code)})", "C")
        raise self.U(node, f"cannot use a value of kind {v.kind} in complex arithmetic")

    def binop(self, e: ast.BinOp, env: Env) -> V:
        a, b = self.expr(e.left, env), self.expr(e.right, env)
        op = e.op
        if isinstance(op, ast.MatMult):
            if a.kind == "MAT" and b.kind == "VEC":
                return V(f"(Np.Miso.matVec {self.par(a.dims[0])} {self.par(a.code)} {self.par(b.code)})", "VEC", (a.dims[0],))
            raise self.U(e, f"`@` on {a.kind}, {b.kind}")
        if a.kind == "N" and b.kind == "N":
            if isinstance(op, ast.Add):
                return V(f"({a.code} + {b.code})", "N")
            if isinstance(op, ast.Mult):
                return V(f"({a.code} * {b.code})", "N")
            raise self.U(e, "integer operator other than + and *")
        if isinstance(op, ast.Mult) and a.kind == "LIST1" and b.kind == "LEN":
            return V(a.code, "ZLIST")
        sym = {ast.Add: "+", ast.Sub: "-", ast.Mult: "*"}.get(type(op))
        if sym is None:
            raise self.U(e, f"operator {type(op).__name__}")
        arrk = {"FR", "FC", "A2E"}
        if (a.kind in arrk) != (b.kind in arrk) and (a.kind in ("N", "R") or b.kind in ("N", "R")):
            # scalar combined with an array: NumPy broadcasts the scalar (an int / float constant is converted exactly)
            def lift(v: V, like: V) -> V:
                if v.kind == "N":
                    v = V(f"(RealLike.ofNat {self.par(v.code)})", "R")
                return V(v.code, "FR", like.dims) if like.kind == "FR" else V(f"(Cx.ofReal {self.par(v.code)})", like.kind, like.dims)
            if a.kind in arrk:
                b = lift(b, a)
            else:
                a = lift(a, b)
        if a.kind in arrk or b.kind in arrk:
            if "A2E" in (a.kind, b.kind) and not (a.kind == b.kind == "A2E"):
                raise self.U(e, "2-D array combined with another shape")
            if a.kind == "FR" and b.kind == "FR":
                return V(f"({a.code} {sym} {b.code})", "FR", a.dims or b.dims)
            if a.kind not in arrk or b.kind not in arrk:
                raise self.U(e, f"array combined with a value of kind {a.kind if a.kind not in arrk else b.kind}")
            a2, b2 = self.to_c(a, e), self.to_c(b, e)
            return V(f"({a2.code} {sym} {b2.code})", "A2E" if a.kind == "A2E" else "FC", a.dims or b.dims)
        raise self.U(e, f"operator {sym} on {a.kind}, {b.kind}")

    def compare(self, e: ast.Compare, env: Env) -> V:
        if len(e.ops) != 1:
            raise self.U(e, "chained comparison")
        a, b = self.expr(e.left, env), self.expr(e.comparators[0], env)
        op = e.ops[0]
        if a.kind == "N" and b.kind == "N":
            sym = {ast.Lt: "<", ast.LtE: "≤", ast.Gt: ">", ast.GtE: "≥", ast.Eq: "=", ast.NotEq: "≠"}.get(type(op))
            if sym is None:
                raise self.U(e, "comparison operator")
            return V(f"(decide ({a.code} {sym} {b.code}))", "B")
        if {a.kind, b.kind} <= {"R", "N"}:
            f = {ast.Lt: "RealLike.lt", ast.LtE: "RealLike.le", ast.Gt: "RealLike.gt", ast.GtE: "RealLike.ge", ast.Eq: "RealLike.beq",
                 ast.NotEq: "RealLike.bne"}.get(type(op))
            if f is None:
                raise self.U(e, "comparison operator")
            ar = a.code if a.kind == "R" else f"(RealLike.ofNat {a.code})"
            br = b.code if b.kind == "R" else f"(RealLike.ofNat {b.code})"
            return V(f"({f} {ar} {br})", "B")
        raise self.U(e, f"comparison of {a.kind}, {b.kind}")

    @staticmethod
    def full_slice(s: ast.AST) -> bool:
        return isinstance(s, ast.Slice) and s.lower is None and s.upper is None and s.step is None

    def index(self, s: ast.AST, env: Env) -> str:
        v = self.expr(s, env)
        if v.kind != "N":
            raise self.U(s, "array index that is not a non-negative int")
        return self.par(v.code)

    def subscript(self, e: ast.Subscript, env: Env) -> V:
        if not isinstance(e.value, ast.Name) or e.value.id not in env.v:
            raise self.U(e, "subscript of a non-variable")
        base = env.v[e.value.id]
        if base.kind == "CHLIST":
            return V(f"(Np.Miso.Chan.inp {self.index(e.slice, env)})", "CH")
        if base.kind == "DICT":
            k = self.expr(e.slice, env)
            if k.kind != "KEY":
                raise self.U(e, "dict key that is not a string")
            const = k.extra.get("const")
            if const is not None and const in base.extra.get("freq", ()):
                return V("", "FREQ")
            code = f"({base.code} {k.code} k_)"
            if const is not None and const in base.real_keys:
                return V(f"{code}.re", "FR")      # the entry was stored from a real array (embedded): its real part is that array
            return V(code, "FC")
        if base.kind == "A3":
            if not (isinstance(e.slice, ast.Tuple) and len(e.slice.elts) == 3):
                raise self.U(e, "3-D array index form")
            i, j, k = e.slice.elts
            if self.full_slice(k) and not self.full_slice(i) and not self.full_slice(j):
                return V(f"({base.code} {self.index(i, env)} {self.index(j, env)} k_)", "FC", (base.dims[2],))
            if self.full_slice(i) and self.full_slice(j) and not self.full_slice(k):
                if base.dims[0] != base.dims[1]:
                    raise self.U(e, "non-square matrix slice")
                return V(f"(fun a_ b_ => {base.code} a_ b_ {self.index(k, env)})", "MAT", (base.dims[0],))
            raise self.U(e, "3-D array index form")
        if base.kind == "A2":
            if not (isinstance(e.slice, ast.Tuple) and len(e.slice.elts) == 2):
                raise self.U(e, "2-D array index form")
            i, k = e.slice.elts
            if self.full_slice(k) and not self.full_slice(i):
                return V(f"({base.code} {self.index(i, env)} k_)", "FC", (base.dims[1],))
            if self.full_slice(i) and not self.full_slice(k):
                return V(f"(fun a_ => {base.code} a_ {self.index(k, env)})", "VEC", (base.dims[0],))
            raise self.U(e, "2-D array index form")
        raise self.U(e, f"subscript of a value of kind {base.kind}")

    def attribute(self, e: ast.Attribute, env: Env) -> V:
        if not isinstance(e.value, ast.Name) or e.value.id not in env.v:
            raise self.U(e, f"attribute .{e.attr}")
        o = env.v[e.value.id]
        if o.kind not in ("SPECA", "SPECC"):
            raise self.U(e, f"attribute .{e.attr} of a value of kind {o.kind}")
        if e.attr == "nf":
            return V(f"{o.code}.nf", "N")
        if e.attr == "f":
            return V("", "FREQ")
        ns = "Auto" if o.kind == "SPECA" else "Cross"
        if e.attr not in self.attrs.get(ns, {}):
            raise self.U(e, f"attribute .{e.attr} is not in the translated __getattr__ table")
        k = self.attrs[ns][e.attr]
        if k is None:
            raise self.U(e, f"attribute .{e.attr} is None for {ns.lower()} results")
        if k not in ("R", "C"):
            raise self.U(e, f"attribute .{e.attr}: kind {k}")
        return V(f"(Gen.{ns}.{e.attr} ({o.code}.bin k_))", "FR" if k == "R" else "FC")

    def check_ltf_rest(self, e: ast.Call, env: Env):
        """every ltf call passes exactly `fs, **kwargs` after the data (same settings => same plan in every call)"""
        if len(e.args) != 2 or not (isinstance(e.args[1], ast.Name) and env.v.get(e.args[1].id, V("", "")).kind == "FS"):
            raise self.U(e, "ltf call: second argument must be the caller's fs")
        if len(e.keywords) != 1 or e.keywords[0].arg is not None or not (
                isinstance(e.keywords[0].value, ast.Name) and env.v.get(e.keywords[0].value.id, V("", "")).kind == "KWARGS"):
            raise self.U(e, "ltf call: must pass exactly **kwargs of the caller")

    def ltf_call(self, e: ast.Call, env: Env) -> V:
        self.check_ltf_rest(e, env)
        self.uses["ltf"] = True
        d = self.expr(e.args[0], env)
        if d.kind == "CH":
            return V(f"(ltf.auto {d.code})", "SPECA")
        if d.kind == "CHPAIR":
            return V(f"(ltf.cross {d.extra['a']} {d.extra['b']})", "SPECC")
        raise self.U(e, "ltf call: data must be one recorded channel or a list of two")

    def call(self, e: ast.Call, env: Env) -> V:
        fu = ast.unparse(e.func)
        kws = {k.arg: k.value for k in e.keywords}
        if fu == "ltf":
            return self.ltf_call(e, env)
        if fu == "np.asarray" and len(e.args) == 1 and not kws and isinstance(e.args[0], ast.Name):
            v = env.v.get(e.args[0].id)
            if v is not None and v.kind == "PARAMCH":
                return V(v.code, "CH")
            raise self.U(e, "np.asarray of something that is not a channel parameter")
        if fu == "len" and len(e.args) == 1 and not kws:
            v = self.expr(e.args[0], env)
            if v.kind == "PARAMLIST":
                self.uses["q"] = True
                return V("q", "N")
            if v.kind in ("FREQ", "CH"):
                return V("", "LEN")
            raise self.U(e, f"len of a value of kind {v.kind}")
        if fu == "np.conj" and len(e.args) == 1 and not kws:
            return self.conj(self.expr(e.args[0], env), e)
        if isinstance(e.func, ast.Attribute) and e.func.attr == "conj" and not e.args and not kws:
            return self.conj(self.expr(e.func.value, env), e)
        if fu == "np.abs" and len(e.args) == 1 and not kws:
            v = self.expr(e.args[0], env)
            if v.kind == "FC":
                return V(f"(Cx.abs {self.par(v.code)})", "FR", v.dims)
            if v.kind == "FR":
                return V(f"(RealLike.abs {self.par(v.code)})", "FR", v.dims)
            raise self.U(e, f"np.abs of {v.kind}")
        if fu == "np.sqrt" and len(e.args) == 1 and not kws:
            v = self.expr(e.args[0], env)
            if v.kind == "FC":
                return V(f"(Np.Miso.csqrt {self.par(v.code)})", "FC", v.dims)
            if v.kind == "FR":
                return V(f"(RealLike.sqrt {self.par(v.code)})", "FR", v.dims)
            raise self.U(e, f"np.sqrt of {v.kind}")
        if fu == "np.any" and len(e.args) == 1 and not kws:
            v = self.expr(e.args[0], env)
            if v.kind != "FC" or not v.dims:
                raise self.U(e, "np.any of something that is not a complex array of known length")
            return V(f"(Np.Miso.anyNonzero {self.par(v.dims[0])} (fun k_ => {v.code}))", "B")
        if fu == "np.sum" and len(e.args) == 1 and set(kws) == {"axis"} and ast.unparse(kws["axis"]) == "0":
            v = self.expr(e.args[0], env)
            if v.kind != "A2E":
                raise self.U(e, "np.sum(axis=0) of something that is not a 2-D array expression")
            return V(f"(Np.Miso.sumAxis0 {self.par(v.dims[0])} (fun a_ => {v.code}))", "FC", (v.dims[1],))
        if fu == "np.zeros" and len(e.args) == 1 and set(kws) == {"dtype"} and ast.unparse(kws["dtype"]) == "complex":
            sh = e.args[0]
            if isinstance(sh, ast.Tuple):
                dims = tuple(self.index(x, env) for x in sh.elts)
                if len(dims) == 2:
                    return V(f"(fun _ _ => {ZERO_C})", "A2", dims)
                if len(dims) == 3:
                    return V(f"(fun _ _ _ => {ZERO_C})", "A3", dims)
                raise self.U(e, "np.zeros shape")
            return V(ZERO_C, "FC", (self.index(sh, env),))
        if fu == "np.array" and len(e.args) == 1 and set(kws) == {"dtype"} and ast.unparse(kws["dtype"]) == "complex":
            v = self.expr(e.args[0], env)
            if v.kind != "ZLIST":
                raise self.U(e, "np.array form")
            return V(f"(Cx.ofReal (RealLike.ofNat {v.code}))", "FC")
        if fu == "np.linalg.cond" and len(e.args) == 1 and not kws:
            v = self.expr(e.args[0], env)
            if v.kind != "MAT":
                raise self.U(e, "np.linalg.cond of a non-matrix")
            self.uses["la"] = True
            return V(f"(la.cond {self.par(v.dims[0])} {self.par(v.code)})", "OR")
        if fu == "np.linalg.pinv" and len(e.args) == 1 and not kws:
            v = self.expr(e.args[0], env)
            if v.kind != "MAT":
                raise self.U(e, "np.linalg.pinv of a non-matrix")
            self.uses["la"] = True
            return V(f"(la.pinv {self.par(v.dims[0])} {self.par(v.code)})", "MAT", v.dims)
        if fu == "np.linalg.solve" and len(e.args) == 2 and not kws:
            m, r = self.expr(e.args[0], env), self.expr(e.args[1], env)
            if m.kind != "MAT" or r.kind != "VEC" or m.dims[0] != r.dims[0]:
                raise self.U(e, "np.linalg.solve operands")
            self.uses["la"] = True
            return V(f"(la.solve {self.par(m.dims[0])} {self.par(m.code)} {self.par(r.code)})", "OVEC", m.dims)
        raise self.U(e, f"call {fu}")

    def conj(self, v: V, node) -> V:
        if v.kind == "FR":
            return v                         # np.conj of a real array is the array
        if v.kind in ("FC", "A2E"):
            return V(f"(Cx.conj {self.par(v.code)})", v.kind, v.dims)
        raise self.U(node, f"conj of {v.kind}")

    # ------------------------------------------------------------------ symbolic (SymPy) layer
    def sym_key(self, e: ast.AST, env: Env) -> V:
        """sp.Symbol(<str>) / sp.symbols(<str without range syntax>)"""
        if (isinstance(e, ast.Call) and ast.unparse(e.func) in ("sp.Symbol", "sp.symbols") and len(e.args) == 1 and not e.keywords):
            k = self.expr(e.args[0], env)
            if k.kind != "KEY":
                raise self.U(e, "symbol name")
            for p in (e.args[0].values if isinstance(e.args[0], ast.JoinedStr) else [e.args[0]]):
                if isinstance(p, ast.Constant) and re.search(r"[:, ]", str(p.value)):
                    raise self.U(e, "symbol name with sympy range / list syntax")
            return k
        raise self.U(e, "expected sp.Symbol(...)")

    def sym_statement(self, s: ast.Assign, env: Env) -> Optional[V]:
        """Svec / Tmat / Hvec / eqns / solution of the analytic solver; returns the static value bound to the target"""
        val = s.value
        if not isinstance(val, (ast.Call, ast.ListComp)):
            return None
        if isinstance(val, ast.Call) and ast.unparse(val.func) == "sp.Matrix":
            a = val.args
            # sp.Matrix([sp.Symbol(f"..{i}..") for i in range(lo, hi)])
            if len(a) == 1 and isinstance(a[0], ast.ListComp):
                lc = a[0]
                if len(lc.generators) != 1 or lc.generators[0].ifs or not isinstance(lc.generators[0].target, ast.Name):
                    raise self.U(s, "symbol vector comprehension form")
                g = lc.generators[0]
                if not (isinstance(g.iter, ast.Call) and ast.unparse(g.iter.func) == "range" and len(g.iter.args) in (1, 2)):
                    raise self.U(s, "symbol vector comprehension must iterate a range")
                if len(g.iter.args) == 2:
                    lo, hi = self.index(g.iter.args[0], env), self.index(g.iter.args[1], env)
                else:
                    lo, hi = "0", self.index(g.iter.args[0], env)
                e2 = env.copy()
                var = self.ident(g.target.id, s)
                e2.v[var] = V(var, "N")
                k = self.sym_key(lc.elt, e2)
                return V(f"(fun p_ => let {var} : Nat := {lo} + p_; {k.code})", "SYMV", (f"({hi} - {lo})",))
            # sp.Matrix(n, m, lambda i, j: sp.symbols(f"…"))
            if len(a) == 3 and isinstance(a[2], ast.Lambda):
                n, m = self.index(a[0], env), self.index(a[1], env)
                lam = a[2]
                if len(lam.args.args) != 2 or lam.args.vararg or lam.args.kwarg or lam.args.defaults:
                    raise self.U(s, "symbol matrix lambda form")
                i, j = (self.ident(x.arg, s) for x in lam.args.args)
                e2 = env.copy()
                e2.v[i] = V(i, "N")
                e2.v[j] = V(j, "N")
                k = self.sym_key(lam.body, e2)
                return V(f"(fun {i} {j} => {k.code})", "SYMM", (n, m))
            # sp.Matrix(sp.symbols(f"H1:{q + 1}"))   sympy range syntax  <P><a>:<b>  ->  P a, …, P (b-1)
            if len(a) == 1 and isinstance(a[0], ast.Call) and ast.unparse(a[0].func) == "sp.symbols" and len(a[0].args) == 1 and not a[0].keywords:
                js = a[0].args[0]
                if (isinstance(js, ast.JoinedStr) and len(js.values) == 2 and isinstance(js.values[0], ast.Constant)
                        and isinstance(js.values[1], ast.FormattedValue) and js.values[1].conversion == -1 and js.values[1].format_spec is None):
                    m = re.fullmatch(r"([A-Za-z_]+)(\d+):", js.values[0].value)
                    if not m:
                        raise self.U(s, "sympy range syntax")
                    hi = self.index(js.values[1].value, env)
                    lo = str(int(m.group(2)))
                    return V(f"(fun p_ => {key_lit(m.group(1), s.lineno)} ++ Np.Miso.Key.num ({lo} + p_))", "SYMV", (f"({hi} - {lo})",))
                raise self.U(s, "sp.symbols form")
            raise self.U(s, "sp.Matrix form")
        if isinstance(val, ast.ListComp):
            # eqns = [<symbolic expression in i> for i in range(n)]
            if len(val.generators) != 1 or val.generators[0].ifs or not isinstance(val.generators[0].target, ast.Name):
                return None
            g = val.generators[0]
            if not (isinstance(g.iter, ast.Call) and ast.unparse(g.iter.func) == "range" and len(g.iter.args) == 1):
                raise self.U(s, "equation list must iterate range(n)")
            n = self.index(g.iter.args[0], env)
            var = self.ident(g.target.id, s)
            e2 = env.copy()
            e2.v[var] = V(var, "N")
            body = self.sym_expr(val.elt, e2)
            name = f"{self.name}.eqns"
            self.defs.append(
                f"/-- systems.py:{s.lineno}-{s.end_lineno}: the symbolic system handed to `sp.solve`, as the value of equation `{var}` under a valuation\n"
                f"    `sym_` of the symbol NAMES (each equation is `… = 0`) -/\n"
                f"def {name} (q : Nat) (sym_ : Np.Miso.Key → Cx α) ({var} : Nat) : Cx α :=\n  {body}\n")
            return V(name, "EQNS", (n,))
        if isinstance(val, ast.Call) and ast.unparse(val.func) == "sp.solve":
            if len(val.args) != 2 or val.keywords:
                raise self.U(s, "sp.solve form")
            eq, un = (self.expr(x, env) for x in val.args)
            if eq.kind != "EQNS" or un.kind != "SYMV":
                raise self.U(s, "sp.solve operands")
            return V("", "SOL", extra={"eqns": eq, "unknowns": un})
        return None

    def sym_expr(self, e: ast.AST, env: Env) -> str:
        """symbolic expression over symbols -> its value under the valuation sym_"""
        if isinstance(e, ast.BinOp) and isinstance(e.op, (ast.Add, ast.Sub, ast.Mult)):
            sym = {ast.Add: "+", ast.Sub: "-", ast.Mult: "*"}[type(e.op)]
            return f"({self.sym_expr(e.left, env)} {sym} {self.sym_expr(e.right, env)})"
        if isinstance(e, ast.Subscript) and isinstance(e.value, ast.Name) and e.value.id in env.v:
            b = env.v[e.value.id]
            if b.kind == "SYMV":
                return f"(sym_ ({b.code} {self.index(e.slice, env)}))"
            if b.kind == "SYMM" and isinstance(e.slice, ast.Tuple) and len(e.slice.elts) == 2:
                i, j = (self.index(x, env) for x in e.slice.elts)
                return f"(sym_ ({b.code} {i} {j}))"
        if isinstance(e, ast.Call) and ast.unparse(e.func) == "sum" and len(e.args) == 1 and not e.keywords and isinstance(e.args[0], ast.GeneratorExp):
            ge = e.args[0]
            if len(ge.generators) != 1 or ge.generators[0].ifs or not isinstance(ge.generators[0].target, ast.Name):
                raise self.U(e, "sum(generator) form")
            g = ge.generators[0]
            if not (isinstance(g.iter, ast.Call) and ast.unparse(g.iter.func) == "range" and len(g.iter.args) == 1):
                raise self.U(e, "sum(generator) must iterate range(n)")
            n = self.index(g.iter.args[0], env)
            var = self.ident(g.target.id, e)
            e2 = env.copy()
            e2.v[var] = V(var, "N")
            return f"(Np.Miso.pySum {n} (fun {var} => {self.sym_expr(ge.elt, e2)}))"
        raise self.U(e, f"symbolic expression {ast.unparse(e)[:60]}")

    SOLUTION_LOOP = [
        "v0 = sorted(v1.free_symbols, key=str)",
        "v0 = sp.lambdify(v1, v2, modules='numpy')",
        "v0 = [RESULT[str(v1)] for v1 in v2]",
        "v0 = v1(*v2)",
        "RESULT[str(v0)] = np.asarray(v1, dtype=complex)",
    ]

    def solution_loop(self, s: ast.For, env: Env) -> Optional[Tuple[str, V]]:
        """`for sym, expr in solution.items(): … result[str(sym)] = lambdify(free symbols, expr)(*[result[str(s)] …])`"""
        it = s.iter
        if not (isinstance(it, ast.Call) and isinstance(it.func, ast.Attribute) and it.func.attr == "items" and not it.args
                and isinstance(it.func.value, ast.Name) and env.v.get(it.func.value.id, V("", "")).kind == "SOL"):
            return None
        sol = env.v[it.func.value.id]
        if not (isinstance(s.target, ast.Tuple) and len(s.target.elts) == 2 and all(isinstance(t, ast.Name) for t in s.target.elts)):
            raise self.U(s, "solution loop target")
        symv, exprv = (t.id for t in s.target.elts)
        body = [b for b in s.body if not self.droppable(b)]
        if len(body) == 1 and isinstance(body[0], ast.Try):
            t = body[0]
            ok = (len(t.handlers) == 1 and not t.orelse and not t.finalbody
                  and all(self.is_logger_call(h) or (isinstance(h, ast.Raise) and h.exc is None) for h in t.handlers[0].body))
            if not ok:
                raise self.U(s, "solution loop: try/except must only log and re-raise")
            body = [b for b in t.body if not self.droppable(b)]
        if len(body) != 5:
            raise self.U(s, "solution loop: unexpected statements")
        dvar = None
        tgt = body[4]
        if isinstance(tgt, ast.Assign) and isinstance(tgt.targets[0], ast.Subscript) and isinstance(tgt.targets[0].value, ast.Name):
            dvar = tgt.targets[0].value.id
        if dvar is None or env.v.get(dvar, V("", "")).kind != "DICT":
            raise self.U(s, "solution loop: the values must be stored in the result dict")
        names = {}
        for st, pat in zip(body, self.SOLUTION_LOOP):
            txt = canon_text(st, {"sp", "np", "str", "sorted", "complex", dvar}).replace(dvar, "RESULT")
            if txt != pat:
                raise self.U(st, f"solution loop statement `{ast.unparse(st)[:80]}` does not match `{pat}`")
        # data flow between the five statements (names are free, the wiring is not)
        b = body
        free = b[0].targets[0].id
        if not (ast.unparse(b[0].value.args[0].value) == exprv
                and ast.unparse(b[1].value.args[0]) == free and ast.unparse(b[1].value.args[1]) == exprv
                and ast.unparse(b[2].value.generators[0].iter) == free
                and ast.unparse(b[3].value.func) == b[1].targets[0].id and ast.unparse(b[3].value.args[0].value) == b[2].targets[0].id
                and ast.unparse(b[4].targets[0].slice.args[0]) == symv and ast.unparse(b[4].value.args[0]) == b[3].targets[0].id):
            raise self.U(s, "solution loop: data flow between the statements is not the expected one")
        un = sol.extra["unknowns"]
        self.uses["Hsol"] = True
        d = env.v[dvar]
        code = f"Np.Miso.Dict.storeSolution {d.code} {un.dims[0]} {un.code} Hsol"
        return dvar, V(code, "DICT", real_keys=d.real_keys, extra=dict(d.extra))

    # ------------------------------------------------------------------ statements
    def assigned(self, stmts: List[ast.stmt], env: Env) -> List[str]:
        """variables of the enclosing scope (value kinds) that the statements may change, in order of first change"""
        out: List[str] = []

        def add(n):
            if n in env.v and env.v[n].kind in LEAN_TY and n not in out and not env.v[n].extra.get("param"):
                out.append(n)
        for s in stmts:
            for n in ast.walk(s):
                if isinstance(n, ast.Assign):
                    for t in n.targets:
                        if isinstance(t, ast.Name):
                            add(t.id)
                        elif isinstance(t, ast.Subscript) and isinstance(t.value, ast.Name):
                            add(t.value.id)
                        elif isinstance(t, ast.Tuple):
                            for x in t.elts:
                                if isinstance(x, ast.Name):
                                    add(x.id)
                    if isinstance(n.value, ast.Call) and isinstance(n.value.func, ast.Name):
                        m = env.v.get(n.value.func.id)
                        if m is not None and m.kind == "MEMO":
                            add(m.extra["dict"])
                elif isinstance(n, ast.AugAssign) and isinstance(n.target, ast.Name):
                    add(n.target.id)
                elif isinstance(n, ast.AugAssign) and isinstance(n.target, ast.Subscript) and isinstance(n.target.value, ast.Name):
                    add(n.target.value.id)
                elif isinstance(n, ast.For):
                    for x in ast.walk(n.target):
                        if isinstance(x, ast.Name):
                            add(x.id)
        return out

    def referenced(self, node_list: List[ast.AST], env: Env) -> List[str]:
        out: List[str] = []
        for s in node_list:
            for n in ast.walk(s):
                if isinstance(n, ast.Name) and n.id in env.v and n.id not in out:
                    out.append(n.id)
                    m = env.v[n.id]
                    if m.kind == "MEMO" and m.extra["dict"] not in out:
                        out.append(m.extra["dict"])
        return [n for n in env.v if n in out and env.v[n].kind in LEAN_TY and not env.v[n].extra.get("param")]

    def forget(self, env: Env, names: List[str]) -> Env:
        """after a loop / branch that may store under computed keys: which constant keys hold real arrays is no longer known"""
        env = env.copy()
        for n in names:
            v = env.v[n]
            if v.kind == "DICT":
                env.v[n] = V(v.code, "DICT", real_keys=frozenset(), extra=dict(v.extra))
        return env

    def nested_fin(self, names: List[str]):
        def fin(e2: Env, i2: str, ret=None) -> str:
            if ret is not None:
                raise self.U(ret, "return inside a loop / branch / try")
            return f"{i2}{self.tuple_code(names)}"
        return fin

    def tuple_code(self, names: List[str]) -> str:
        return names[0] if len(names) == 1 else "(" + ", ".join(names) + ")"

    def tuple_type(self, names: List[str], env: Env) -> str:
        tys = [LEAN_TY[env.v[n].kind] for n in names]
        return tys[0] if len(tys) == 1 else " × ".join(f"({t})" for t in tys)

    def unpack(self, t: str, names: List[str], env: Env, ind: str) -> str:
        if len(names) == 1:
            return f"{ind}let {names[0]} : {LEAN_TY[env.v[names[0]].kind]} := {t}\n"
        out = ""
        for i, n in enumerate(names):
            proj = t + "".join(".2" for _ in range(i)) + (".1" if i < len(names) - 1 else "")
            out += f"{ind}let {n} : {LEAN_TY[env.v[n].kind]} := {proj}\n"
        return out

    def bind(self, env: Env, name: str, v: V) -> V:
        """the variable `name` now holds v: returns the V stored in env (code = the Lean identifier)"""
        for other, ov in env.v.items():
            if other != name and any(re.search(rf"\b{re.escape(name)}\b", d) for d in ov.dims):
                raise Unsupported(f"variable {name} is rebound while the shape of {other} refers to it")
        nv = V(name, v.kind, v.dims, v.real_keys, dict(v.extra))
        env.v[name] = nv
        return nv

    def let_value(self, name: str, v: V, ind: str) -> str:
        if v.kind in ("FR", "FC"):
            return f"{ind}let {name} : {LEAN_TY[v.kind]} := fun k_ => {v.code}\n"
        return f"{ind}let {name} : {LEAN_TY[v.kind]} := {v.code}\n"

    def raising(self, v: V, name: str, kind: str, dims, node, ind: str, cont: Callable[[str], str]) -> str:
        """`name = <call that may raise LinAlgError>`: inside a try the except code is evaluated on `none`"""
        if self.in_try is None:
            raise self.U(node, "a call that may raise LinAlgError outside try/except (the exception would propagate: not modelled)")
        out = f"{ind}match {v.code} with\n{ind}| none => {self.in_try}\n{ind}| some {name} =>\n"
        return out + cont(ind + "  ")

    def block(self, stmts: List[ast.stmt], env: Env, ind: str, final: Callable[[Env, str], str]) -> str:
        if not stmts:
            return final(env, ind, None)
        s, rest = stmts[0], stmts[1:]
        nxt = lambda e=env, i=ind: self.block(rest, e, i, final)
        if self.droppable(s):
            self.dropped.append(self.src_line(s))
            return nxt()
        if isinstance(s, ast.Return):
            if rest:
                raise self.U(s, "statements after return")
            return final(env, ind, s)
        if isinstance(s, ast.FunctionDef):
            self.memo_helper(s, env)
            return nxt()
        if isinstance(s, ast.Assign):
            return self.assign(s, rest, env, ind, final)
        if isinstance(s, ast.AugAssign):
            if not (isinstance(s.op, ast.Add) and isinstance(s.target, ast.Name) and env.v.get(s.target.id, V("", "")).kind == "FC"):
                raise self.U(s, "augmented assignment other than `<complex array> += …`")
            x = s.target.id
            v = self.to_c(self.expr(s.value, env), s)
            if v.kind != "FC":
                raise self.U(s, "`+=` of a non-array")
            env = env.copy()
            old = env.v[x]
            self.bind(env, x, V("", "FC", old.dims))
            return f"{ind}let {x} : Nat → Cx α := fun k_ => ({x} k_) + {v.code}\n" + self.block(rest, env, ind, final)
        if isinstance(s, ast.If):
            return self.if_stmt(s, rest, env, ind, final)
        if isinstance(s, ast.For):
            return self.for_stmt(s, rest, env, ind, final)
        if isinstance(s, ast.Try):
            return self.try_stmt(s, rest, env, ind, final)
        raise self.U(s, f"statement {type(s).__name__}: {ast.unparse(s)[:60]}")

    def memo_helper(self, s: ast.FunctionDef, env: Env):
        body = [b for b in s.body if not (isinstance(b, ast.Expr) and isinstance(b.value, ast.Constant))]
        a = s.args
        ok = (len(a.args) == 1 and a.vararg is not None and a.kwarg is not None and not a.defaults and not a.kwonlyargs and not s.decorator_list
              and len(body) == 2 and isinstance(body[0], ast.If) and not body[0].orelse and isinstance(body[1], ast.Return))
        if ok:
            key, va, kw = a.args[0].arg, a.vararg.arg, a.kwarg.arg
            test = body[0].test
            ok = (isinstance(test, ast.Compare) and len(test.ops) == 1 and isinstance(test.ops[0], ast.NotIn)
                  and ast.unparse(test.left) == key and isinstance(test.comparators[0], ast.Name))
        if ok:
            d = test.comparators[0].id
            ib = body[0].body
            ok = (env.v.get(d, V("", "")).kind == "CACHE" and len(ib) == 2
                  and isinstance(ib[0], ast.Assign) and isinstance(ib[0].targets[0], ast.Name)
                  and ast.unparse(ib[0].value) == f"ltf(*{va}, **{kw})"
                  and ast.unparse(ib[1]) == f"{d}[{key}] = {ib[0].targets[0].id}"
                  and ast.unparse(body[1].value) == f"{d}[{key}]")
        if not ok:
            raise self.U(s, f"nested function {s.name}: not the memoisation helper `if key not in D: D[key] = ltf(*args, **kwargs)`; `return D[key]`")
        env.v[s.name] = V("", "MEMO", extra={"dict": d})

    def assign(self, s: ast.Assign, rest, env: Env, ind: str, final) -> str:
        if len(s.targets) != 1:
            raise self.U(s, "multiple assignment targets")
        t = s.targets[0]
        env = env.copy()
        cont = lambda i=ind: self.block(rest, env, i, final)
        # ---- stores
        if isinstance(t, ast.Subscript):
            if not (isinstance(t.value, ast.Name) and t.value.id in env.v):
                raise self.U(s, "store into a non-variable")
            x = t.value.id
            b = env.v[x]
            v = self.expr(s.value, env)
            if b.kind == "DICT":
                k = self.expr(t.slice, env)
                if k.kind != "KEY":
                    raise self.U(s, "dict key that is not a string")
                const = k.extra.get("const")
                if v.kind == "FREQ":
                    if const is None:
                        raise self.U(s, "frequency grid stored under a computed key")
                    nb = V(x, "DICT", real_keys=b.real_keys - {const}, extra={"freq": set(b.extra.get("freq", ())) | {const}})
                    env.v[x] = nb
                    self.dropped.append(self.src_line(s) + "   (frequency grid: checked to be `.f` of an ltf result, not translated)")
                    return cont()
                if v.kind not in ("FR", "FC"):
                    raise self.U(s, f"dict value of kind {v.kind}")
                rk = set(b.real_keys)
                if const is not None:
                    (rk.add if v.kind == "FR" else rk.discard)(const)
                else:
                    rk = set()          # a computed key may overwrite any entry: forget which entries are real-valued
                fr = set(b.extra.get("freq", ()))
                if const is not None:
                    fr.discard(const)
                elif fr:
                    pre = k.extra.get("prefix", "")
                    if not pre or any(f[:1] == pre[:1] for f in fr):
                        raise self.U(s, "store under a computed key that could overwrite the stored frequency grid")
                vc = self.to_c(v, s)
                env.v[x] = V(x, "DICT", real_keys=frozenset(rk), extra={"freq": fr})
                return f"{ind}let {x} : Np.Miso.Dict α := Np.Miso.Dict.set {x} {k.code} (fun k_ => {vc.code})\n" + cont()
            if b.kind == "A3":
                if not (isinstance(t.slice, ast.Tuple) and len(t.slice.elts) == 3 and self.full_slice(t.slice.elts[2])
                        and not self.full_slice(t.slice.elts[0]) and not self.full_slice(t.slice.elts[1])):
                    raise self.U(s, "3-D store form (expected A[i, j, :] = …)")
                if v.kind not in ("FR", "FC"):
                    raise self.U(s, f"3-D store of a value of kind {v.kind}")
                vc = self.to_c(v, s)
                i, j = self.index(t.slice.elts[0], env), self.index(t.slice.elts[1], env)
                return f"{ind}let {x} : Np.Miso.A3 α := Np.Miso.A3.setRow {x} {i} {j} (fun k_ => {vc.code})\n" + cont()
            if b.kind == "A2":
                if not (isinstance(t.slice, ast.Tuple) and len(t.slice.elts) == 2):
                    raise self.U(s, "2-D store form")
                i, k = t.slice.elts
                if self.full_slice(k) and not self.full_slice(i):
                    if v.kind not in ("FR", "FC"):
                        raise self.U(s, f"2-D row store of a value of kind {v.kind}")
                    vc = self.to_c(v, s)
                    return f"{ind}let {x} : Np.Miso.A2 α := Np.Miso.A2.setRow {x} {self.index(i, env)} (fun k_ => {vc.code})\n" + cont()
                if self.full_slice(i) and not self.full_slice(k):
                    kk = self.index(k, env)
                    if v.kind == "OVEC":
                        return self.raising(v, "sol_", "VEC", v.dims, s, ind,
                                            lambda i2: f"{i2}let {x} : Np.Miso.A2 α := Np.Miso.A2.setCol {x} {kk} sol_\n" + cont(i2))
                    if v.kind != "VEC":
                        raise self.U(s, f"2-D column store of a value of kind {v.kind}")
                    return f"{ind}let {x} : Np.Miso.A2 α := Np.Miso.A2.setCol {x} {kk} {v.code}\n" + cont()
                raise self.U(s, "2-D store form")
            raise self.U(s, f"store into a value of kind {b.kind}")
        if not isinstance(t, ast.Name):
            raise self.U(s, "assignment target")
        val = s.value
        if (isinstance(val, ast.Call) and ast.unparse(val.func) == "len" and len(val.args) == 1 and isinstance(val.args[0], ast.Name)
                and env.v.get(val.args[0].id, V("", "")).kind == "PARAMLIST"):
            self.uses["q"] = True
            if t.id == "q":
                env.v["q"] = V("q", "N", extra={"param": True})
                return cont()
            x = self.ident(t.id, s)
            env.v[x] = V(x, "N")
            return f"{ind}let {x} : Nat := q\n" + cont()
        x = self.ident(t.id, s)
        # ---- static bindings
        if isinstance(val, ast.List) and not val.elts:
            env.v[x] = V("", "EMPTYLIST")
            return cont()
        if isinstance(val, ast.Dict) and not val.keys:
            has_helper = any(isinstance(n, ast.FunctionDef) and n is not self.fn for n in ast.walk(self.fn))
            if has_helper:
                env.v[x] = V(x, "CACHE")
                return f"{ind}let {x} : Np.Miso.Cache α := Np.Miso.Cache.empty\n" + cont()
            env.v[x] = V(x, "DICT", extra={"freq": set()})
            return f"{ind}let {x} : Np.Miso.Dict α := Np.Miso.Dict.empty\n" + cont()
        sv = self.sym_statement(s, env)
        if sv is not None:
            env.v[x] = sv
            return cont()
        # ---- memoised ltf call
        if isinstance(val, ast.Call) and isinstance(val.func, ast.Name) and env.v.get(val.func.id, V("", "")).kind == "MEMO":
            m = env.v[val.func.id]
            d = m.extra["dict"]
            if len(val.args) < 2:
                raise self.U(s, "memoised ltf call form")
            k = self.expr(val.args[0], env)
            if k.kind != "KEY":
                raise self.U(s, "memoised ltf call: key")
            inner = ast.Call(func=ast.Name(id="ltf", ctx=ast.Load()), args=val.args[1:], keywords=val.keywords)
            ast.copy_location(inner, val)
            sp = self.ltf_call(inner, env)
            self.bind(env, x, V("", sp.kind))
            out = f"{ind}let m_ := Np.Miso.Cache.memo {d} {k.code} (fun _ => {sp.code})\n"
            out += f"{ind}let {x} : Np.Miso.Spec α := m_.1\n{ind}let {d} : Np.Miso.Cache α := m_.2\n"
            return out + cont()
        v = self.expr(val, env)
        if v.kind in ("CH", "FREQ", "LEN", "KEY"):
            env.v[x] = v
            if v.kind in ("FREQ", "LEN"):
                self.dropped.append(self.src_line(s) + "   (frequency grid / length: only used by validation, zero-array lengths or as the returned grid)")
            return cont()
        if v.kind in ("OR", "OVEC"):
            knd = "R" if v.kind == "OR" else "VEC"
            def go(i2, knd=knd):
                self.bind(env, x, V("", knd, v.dims))
                return self.block(rest, env, i2, final)
            return self.raising(v, x, knd, v.dims, s, ind, go)
        if v.kind == "A2E":
            raise self.U(s, "2-D array expression assigned to a variable")
        if v.kind not in LEAN_TY:
            raise self.U(s, f"assignment of a value of kind {v.kind}")
        out = self.let_value(x, v, ind)
        self.bind(env, x, v)
        return out + cont()

    def if_stmt(self, s: ast.If, rest, env: Env, ind: str, final) -> str:
        c = self.expr(s.test, env)
        if c.kind != "B":
            raise self.U(s, "if on a non-boolean")
        names = self.assigned(s.body + s.orelse, env)
        if not names:
            raise self.U(s, "if statement without effect on an existing variable")
        fin = self.nested_fin(names)
        tb = self.block(s.body, env.copy(), ind + "    ", fin)
        eb = self.block(s.orelse, env.copy(), ind + "    ", fin)
        out = f"{ind}let br_ : {self.tuple_type(names, env)} :=\n{ind}  (if {c.code} then\n{tb}\n{ind}  else\n{eb})\n"
        out += self.unpack("br_", names, env, ind)
        return out + self.block(rest, self.forget(env, names), ind, final)

    def try_stmt(self, s: ast.Try, rest, env: Env, ind: str, final) -> str:
        if len(s.handlers) != 1 or s.orelse or s.finalbody or ast.unparse(s.handlers[0].type or ast.Constant(0)) != "np.linalg.LinAlgError" or s.handlers[0].name:
            raise self.U(s, "try statement form (expected one `except np.linalg.LinAlgError:`)")
        if self.in_try is not None:
            raise self.U(s, "nested try")
        names = self.assigned(s.body + s.handlers[0].body, env)
        if not names:
            raise self.U(s, "try statement without effect")

        # changes of outer variables made before a later raising call would survive the exception in Python: require every change of an
        # outer variable to be the last statement of its statement list
        def shape_ok(stmts) -> bool:
            for i, st in enumerate(stmts):
                last = i == len(stmts) - 1
                if isinstance(st, ast.If):
                    if not last or not shape_ok(st.body) or not shape_ok(st.orelse):
                        return False
                elif self.assigned([st], env) and not last:
                    return False
            return True
        if not shape_ok(s.body):
            raise self.U(s, "try body changes an outer variable before its last statement (partial effects before an exception are not modelled)")
        fin = self.nested_fin(names)
        exc = self.block(s.handlers[0].body, env.copy(), ind + "    ", fin)
        self.in_try = "exc_ ()"
        try:
            body = self.block(s.body, env.copy(), ind + "    ", fin)
        finally:
            self.in_try = None
        ty = self.tuple_type(names, env)
        out = f"{ind}let exc_ : Unit → {ty} := fun _ => (\n{exc})\n"
        out += f"{ind}let br_ : {ty} := (\n{body})\n"
        out += self.unpack("br_", names, env, ind)
        return out + self.block(rest, self.forget(env, names), ind, final)

    def channel_loop(self, s: ast.For, env: Env) -> Optional[str]:
        """for i, inp in enumerate(inputs): inp_arr = np.asarray(inp); <validation>; input_arrays.append(inp_arr)"""
        if not (isinstance(s.iter, ast.Call) and ast.unparse(s.iter.func) == "enumerate" and len(s.iter.args) == 1
                and isinstance(s.iter.args[0], ast.Name) and env.v.get(s.iter.args[0].id, V("", "")).kind == "PARAMLIST"
                and isinstance(s.target, ast.Tuple) and len(s.target.elts) == 2 and all(isinstance(t, ast.Name) for t in s.target.elts)):
            return None
        item = s.target.elts[1].id
        body = [b for b in s.body if not self.droppable(b)]
        if not body:
            return None
        if not (len(body) == 2 and isinstance(body[0], ast.Assign) and isinstance(body[0].targets[0], ast.Name)
                and ast.unparse(body[0].value) == f"np.asarray({item})"
                and isinstance(body[1], ast.Expr) and isinstance(body[1].value, ast.Call)
                and isinstance(body[1].value.func, ast.Attribute) and body[1].value.func.attr == "append"
                and isinstance(body[1].value.func.value, ast.Name)
                and ast.unparse(body[1].value.args[0]) == body[0].targets[0].id and len(body[1].value.args) == 1):
            raise self.U(s, "loop over the input list: expected `a = np.asarray(item)`, validation, `L.append(a)`")
        lst = body[1].value.func.value.id
        if env.v.get(lst, V("", "")).kind != "EMPTYLIST":
            raise self.U(s, f"{lst} is not a fresh empty list")
        return lst

    def for_stmt(self, s: ast.For, rest, env: Env, ind: str, final) -> str:
        if s.orelse:
            raise self.U(s, "for … else")
        lst = self.channel_loop(s, env)
        if lst is not None:
            env = env.copy()
            env.v[lst] = V("", "CHLIST")
            self.dropped.append(self.src_line(s) + f"   (binds {lst}[i] to the channel inputs[i]; its body validates and converts)")
            return self.block(rest, env, ind, final)
        sol = self.solution_loop(s, env)
        if sol is not None:
            dvar, v = sol
            env = env.copy()
            env.v[dvar] = V(dvar, "DICT", real_keys=frozenset(), extra=dict(v.extra))
            return f"{ind}let {dvar} : Np.Miso.Dict α := {v.code}\n" + self.block(rest, env, ind, final)
        if not (isinstance(s.target, ast.Name) and isinstance(s.iter, ast.Call) and ast.unparse(s.iter.func) == "range"
                and len(s.iter.args) in (1, 2) and not s.iter.keywords):
            raise self.U(s, "for loop form (expected `for v in range(n)` or `range(a, b)`)")
        var = self.ident(s.target.id, s)
        bounds = [self.index(a, env) for a in s.iter.args]
        carried = self.assigned(s.body, env)
        if not carried:
            raise self.U(s, "loop without effect on an existing variable")
        if var in env.v and env.v[var].kind in LEAN_TY and var in carried:
            carried.remove(var)
        self.nloop += 1
        lname = f"{self.name}.loop{self.nloop}"
        inner = env.copy()
        inner.v[var] = V(var, "N")
        fin = self.nested_fin(carried)
        saved_try = self.in_try
        self.in_try = None
        body = self.block(s.body, inner, "    ", fin)     # inner loops append their definitions first
        self.in_try = saved_try
        toks = set(re.findall(r"[A-Za-z_][A-Za-z_0-9]*", body + " " + " ".join(bounds)))
        params = [n for n in env.v if n != var and env.v[n].kind in LEAN_TY and not env.v[n].extra.get("param") and (n in toks or n in carried)]
        sty = self.tuple_type(carried, env)
        pl = " ".join(f"({n} : {LEAN_TY[env.v[n].kind]})" for n in params)
        rng = f"forRange {bounds[0]}" if len(bounds) == 1 else f"Np.Miso.forRangeFrom {bounds[0]} {bounds[1]}"
        d = f"/-- systems.py:{s.lineno}-{s.end_lineno}: `for {var} in {ast.unparse(s.iter)}` (carried: {', '.join(carried)}) -/\n"
        d += f"def {lname} {self.plist_placeholder()} {pl} : {sty} :=\n"
        d += f"  {rng} {self.tuple_code(carried)} (fun ({var} : Nat) (st_ : {sty}) =>\n"
        d += self.unpack("st_", carried, env, "    ")
        d += body + ")\n"
        self.defs.append(d)
        out = f"{ind}let st_ : {sty} := {lname} {self.pargs_placeholder()} {' '.join(params)}\n"
        out += self.unpack("st_", carried, env, ind)
        return out + self.block(rest, self.forget(env, carried), ind, final)

    def plist_placeholder(self) -> str:
        return "«PLIST»"

    def pargs_placeholder(self) -> str:
        return "«PARGS»"

    # ------------------------------------------------------------------ whole function
    def translate(self) -> str:
        fn = self.fn
        a = fn.args
        names = [x.arg for x in a.args]
        env = Env()
        if a.vararg or a.kwonlyargs or a.defaults or a.kwarg is None:
            raise Unsupported(f"{fn.name}: signature")
        if names == ["input", "output", "fs"]:
            env.v["input"] = V("(Np.Miso.Chan.inp 0)", "PARAMCH")
        elif names == ["inputs", "output", "fs"]:
            env.v["inputs"] = V("", "PARAMLIST")
        else:
            raise Unsupported(f"{fn.name}: parameters {names}")
        env.v["output"] = V("Np.Miso.Chan.out", "PARAMCH")
        env.v["fs"] = V("", "FS")
        env.v[a.kwarg.arg] = V("", "KWARGS")
        # The body is emitted as a chain of STAGES: a new stage starts before every compound statement (loop / branch) that is translated.
        # `F.stage<k>` returns the record of all variables alive after its statements; the next stage starts from that record.  (Keeps the
        # terms met by the proofs small: a stage refers to its predecessor by name instead of repeating its definition.)
        MARK = "«END»"
        captured: Dict[str, Env] = {}

        def capture(e2: Env, ind: str, ret=None) -> str:
            if ret is not None:
                raise self.U(ret, "internal: return reached inside a statement")
            captured["env"] = e2
            return MARK

        def fields_of(e2: Env) -> List[Tuple[str, str]]:
            return [(n, LEAN_TY[v.kind]) for n, v in e2.v.items() if v.kind in LEAN_TY and not v.extra.get("param")]

        stage_no = 0
        lines = ""            # let-lines of the current stage
        prelude = ""          # re-binding of the previous stage's fields
        first_line = fn.lineno
        ret_stmt: Optional[ast.Return] = None
        body = list(fn.body)
        for idx, st in enumerate(body):
            if self.droppable(st):
                self.dropped.append(self.src_line(st))
                continue
            if isinstance(st, ast.Return):
                if idx != len(body) - 1:
                    raise self.U(st, "statements after return")
                ret_stmt = st
                break
            code = self.block([st], env, "  ", capture)
            if not code.endswith(MARK):
                raise self.U(st, "internal: statement did not reach its continuation")
            code = code[:-len(MARK)]
            new_env = captured["env"]
            if isinstance(st, (ast.For, ast.If, ast.Try)) and code.strip() and lines.strip():
                # close the current stage before this compound statement
                flds = fields_of(env)
                sname = f"{fn.name}.stage{stage_no}"
                d = f"/-- the variables of `{fn.name}` alive before line {st.lineno} -/\n"
                d += f"structure {fn.name}.Stage{stage_no} (α : Type) where\n" + "".join(f"  {n} : {t}\n" for n, t in flds) + "\n"
                d += f"/-- systems.py:{first_line}-{st.lineno - 1} `{fn.name}`, part {stage_no} -/\n"
                d += f"def {sname} «PLIST» : {fn.name}.Stage{stage_no} α :=\n" + prelude + lines
                d += "  { " + ", ".join(f"{n} := {n}" for n, _ in flds) + " }\n"
                self.defs.append(d)
                prelude = f"  let s_ : {fn.name}.Stage{stage_no} α := {sname} «PARGS»\n" + "".join(f"  let {n} : {t} := s_.{n}\n" for n, t in flds)
                lines = ""
                first_line = st.lineno
                stage_no += 1
                # loop definitions created while translating `st` were appended before this stage definition: move the stage before them
                # (they do not depend on it, it does not depend on them) -- order is irrelevant for Lean as long as uses follow definitions
            lines += code
            env = new_env
        if ret_stmt is None:
            raise Unsupported(f"{fn.name}: no return statement at the end of the body")
        ret = ret_stmt
        if not (isinstance(ret.value, ast.Tuple) and len(ret.value.elts) == 2):
            raise self.U(ret, "return value must be a pair (frequencies, asd)")
        f0 = self.expr(ret.value.elts[0], env)
        if f0.kind != "FREQ":
            raise self.U(ret, "first returned component is not the frequency grid of an ltf result")
        r = self.expr(ret.value.elts[1], env)
        if r.kind != "FR":
            raise self.U(ret, f"second returned component has kind {r.kind}, expected a real array along the frequency axis")
        flds = fields_of(env)
        fields = flds + [("ret", "Nat → α")]
        rec = ", ".join(f"{n} := {n}" for n, _ in flds)
        code = prelude + lines + f"  {{ {rec}{', ' if rec else ''}ret := fun k_ => {r.code} }}"
        ps = [("q", "Nat")] if self.uses["q"] else []      # q is a parameter whenever the source binds it from len(inputs)
        if self.uses["ltf"]:
            ps.append(("ltf", "Np.Miso.Ltf α"))
        if self.uses["la"]:
            ps.append(("la", "Np.Miso.LinAlg α"))
        if self.uses["Hsol"]:
            ps.append(("Hsol", "Nat → Nat → Cx α"))
        self.fn_params = ps
        out = ""
        for d in self.defs:
            if d:
                out += d.replace("«PLIST»", self.plist()).replace("«PARGS»", self.pargs()) + "\n"
        out += f"/-- the variables of `{fn.name}` alive at its return statement (`ret` = second component of the returned pair) -/\n"
        out += f"structure {fn.name}.Locals (α : Type) where\n" + "".join(f"  {n} : {t}\n" for n, t in fields) + "\n"
        out += f"/-- systems.py:{first_line}-{fn.end_lineno} `{fn.name}`, last part: every variable alive at the return statement -/\n"
        out += f"def {fn.name}.locals {self.plist()} : {fn.name}.Locals α :=\n"
        out += code.replace("«PLIST»", self.plist()).replace("«PARGS»", self.pargs()) + "\n\n"
        out += f"/-- systems.py:{fn.lineno}-{fn.end_lineno} `{fn.name}`: the returned amplitude spectral density, per bin -/\n"
        out += f"def {fn.name} {self.plist()} : Nat → α :=\n  ({fn.name}.locals {self.pargs()}).ret\n"
        return out


def generate(repo: str) -> Tuple[str, List[str]]:
    path = os.path.join(repo, "speckit/systems.py")
    out = HEADER.format(src="speckit/systems.py", sha=sha_of(path)).replace(
        "import SpecKitV.Num\n", "import SpecKitV.Num\nimport SpecKitV.Gen.Attrs\nimport SpecKitV.Np.Miso\n")
    out = out.replace("/verif/vk/translate.py", "/verif/vk/regions/miso.py")
    errors: List[str] = []
    try:
        tree = ast.parse(open(path).read())
        fns = {n.name: n for n in tree.body if isinstance(n, ast.FunctionDef)}
        imports = [ast.unparse(n) for n in tree.body if isinstance(n, (ast.Import, ast.ImportFrom))]
        _t, table, aerrs = gen_attrs(repo)
    except Exception as ex:  # noqa
        return out + f"def region_Miso_UNSUPPORTED : Nat := translation_failed_Miso\nend Gen\n", [f"cannot read the source: {ex!r}"]
    # the names the rules rely on must mean what they are taken to mean
    need = {"import numpy as np": "np", "import sympy as sp": "sp", "from speckit import compute_spectrum as ltf": "ltf"}
    missing = [k for k in need if k not in imports]
    dropped_all: List[str] = []
    body = ""
    for name in FUNCTIONS:
        try:
            if missing:
                raise Unsupported(f"module imports changed: missing `{missing[0]}`")
            if name not in fns:
                raise Unsupported("function not found")
            tr = SysTranslator(fns[name], table)
            text = tr.translate()
            body += text + "\n"
            dropped_all += [f"{name}  {d}" for d in tr.dropped]
        except Unsupported as ex:
            errors.append(f"{name}: {ex}")
            msg = str(ex).replace("-/", "- /")
            body += f"/- UNSUPPORTED {name}: {msg} -/\ndef {name}_UNSUPPORTED : Nat := translation_failed_{name}\n\n"
    doc = "/-\n  Statements of speckit/systems.py dropped as value-irrelevant (docstrings, logging, input validation that raises = preconditions,\n" \
          "  channel conversion, the frequency grid):\n" + "".join("    " + d.replace("-/", "- /") + "\n" for d in dropped_all) + "-/\n\n"
    out += doc + body + "end Gen\n"
    return out, errors
