"""Region NumpyKernels — the NumPy fallback kernels of speckit/core.py, translated literally (whole-array semantics).

`_gather_segments` and the six `_stats_*_np` functions are whole-array NumPy code: a gather of the (K_chunk x L) segment matrix,
optional row-mean removal or `segs - (segs @ Q) @ Q.T`, `(segs * w) @ e` with `e = np.exp(+-1j*omega*n)`, per-row |X|^2 and
X*conj(Y), stored chunk by chunk (`for j0 in range(0, K, _chunk)`) into preallocated `np.empty` arrays, then means and the mean
squared scatter.  Every array expression becomes the corresponding combinator of lean/SpecKitV/Np/NumpyKernels.lean (the stated
contracts of the NumPy operations) or an elementwise `fun i_ => ...`; the chunk loop becomes a `forRange` over
`len(range(start, stop, step))` iterations whose state is the tuple of arrays stored into; `np.empty` becomes an array of
uninitialised memory (an extra parameter `uninit` of every translated kernel, indexed by allocation number).

Value kinds:  N Nat | Z Int | R real | B Bool | J purely imaginary scalar (its real coefficient) | C complex scalar
              VR Arr α | VN Arr Nat | VC Arr (Cx α) | MR Arr2 α | MN Arr2 Nat | COL (n,1) real column | COLN/ROWN index column/row
Anything without a rule raises Unsupported (the function then becomes a stub that fails to build).
"""
from __future__ import annotations

import ast
import os
from typing import Dict, List, Optional, Tuple

from ..translate import HEADER, Unsupported, Val, _lit_float, parse_functions, sha_of, with_inlining

REGION = "NumpyKernels"
SOURCES = ["speckit/core.py"]

K_AUTO = {"x": "VR", "starts": "VN", "L": "N", "w": "VR", "omega": "R", "_chunk": "N"}
K_CSD = {"x1": "VR", "x2": "VR", "starts": "VN", "L": "N", "w": "VR", "omega": "R", "_chunk": "N"}
SIGS: Dict[str, Dict[str, str]] = {
    "_gather_segments": {"x": "VR", "starts": "VN", "L": "N"},
    "_stats_win_only_auto_np": K_AUTO,
    "_stats_win_only_csd_np": K_CSD,
    "_stats_detrend0_auto_np": K_AUTO,
    "_stats_detrend0_csd_np": K_CSD,
    "_stats_poly_auto_np": dict(K_AUTO, Q="MR"),
    "_stats_poly_csd_np": dict(K_CSD, Q="MR"),
}
ORDER = list(SIGS.keys())

LT = {"N": "Nat", "Z": "Int", "R": "α", "B": "Bool", "C": "Cx α", "VR": "Arr α", "VN": "Arr Nat", "VC": "Arr (Cx α)",
      "MR": "Arr2 α", "MN": "Arr2 Nat", "COL": "Arr α"}
SCALAR = ("N", "Z", "R", "B", "J", "C")
VECTOR = ("VR", "VN", "VC")


def _u(e: ast.AST) -> str:
    return ast.unparse(e)


class NpTr:
    """one Python function -> one Lean definition"""

    def __init__(self, fn: ast.FunctionDef, sig: Dict[str, str], known: Dict[str, Tuple[List[str], str]]):
        self.fn = fn
        self.sig = sig
        self.known = known                 # name -> (param kinds, return kind)
        self.dropped: List[str] = []       # value-irrelevant statements (reported in the docstring)
        self.pre: List[str] = []           # input validation that raises -> preconditions
        self.nalloc = 0                    # np.empty allocations so far
        self.tmp = 0
        self.defaults: Dict[str, int] = {}

    # ------------------------------------------------------------------ helpers
    def bad(self, node: ast.AST, what: str) -> Unsupported:
        return Unsupported(f"line {getattr(node, 'lineno', '?')}: {what}: `{_u(node)[:80]}`")

    def to_real(self, v: Val, node: ast.AST) -> Val:
        if v.kind == "R":
            return v
        if v.kind == "N":
            return Val(f"(RealLike.ofNat {v.code})", "R")
        if v.kind == "Z":
            return Val(f"(RealLike.ofInt {v.code})", "R")
        raise self.bad(node, f"a value of kind {v.kind} where a real is needed")

    def to_int(self, v: Val, node: ast.AST) -> Val:
        if v.kind == "Z":
            return v
        if v.kind == "N":
            return Val(f"(({v.code} : Nat) : Int)", "Z")
        raise self.bad(node, f"a value of kind {v.kind} where an integer is needed")

    @staticmethod
    def np_name(f: ast.AST) -> Optional[str]:
        if isinstance(f, ast.Attribute) and isinstance(f.value, ast.Name) and f.value.id == "np":
            return f.attr
        return None

    @staticmethod
    def kwmap(e: ast.Call) -> Dict[str, str]:
        return {k.arg: _u(k.value) for k in e.keywords}

    # ------------------------------------------------------------------ expressions (scalars, whole arrays)
    def ex(self, e: ast.AST, K: Dict[str, str]) -> Val:
        if isinstance(e, ast.Constant):
            v = e.value
            if isinstance(v, bool):
                return Val("true" if v else "false", "B")
            if isinstance(v, int):
                return Val(str(v), "N") if v >= 0 else Val(f"(-({-v} : Int))", "Z")
            if isinstance(v, float):
                return Val(_lit_float(v), "R")
            if isinstance(v, complex) and v.real == 0.0:
                return Val(_lit_float(v.imag), "J")           # 1j: purely imaginary, coefficient kept exact
            raise self.bad(e, "constant")
        if isinstance(e, ast.Name):
            if e.id not in K:
                raise self.bad(e, "unknown variable")
            return Val(e.id, K[e.id])
        if isinstance(e, ast.UnaryOp) and isinstance(e.op, ast.USub):
            v = self.ex(e.operand, K)
            if v.kind in ("R", "J"):
                return Val(f"(-{v.code})", v.kind)
            if v.kind in ("N", "Z"):
                return Val(f"(-({v.code} : Int))", "Z")
            raise self.bad(e, f"unary minus on {v.kind}")
        if isinstance(e, ast.BinOp):
            return self.binop(e, K)
        if isinstance(e, ast.Compare):
            return self.compare(e, K)
        if isinstance(e, ast.IfExp):
            c, a, b = self.ex(e.test, K), self.ex(e.body, K), self.ex(e.orelse, K)
            if c.kind != "B":
                raise self.bad(e, "condition is not boolean")
            if a.kind != b.kind:
                if {a.kind, b.kind} <= {"N", "Z"}:
                    a, b = self.to_int(a, e), self.to_int(b, e)
                elif {a.kind, b.kind} <= {"N", "Z", "R"}:
                    a, b = self.to_real(a, e), self.to_real(b, e)
                else:
                    raise self.bad(e, f"branches of kinds {a.kind}/{b.kind}")
            if a.kind not in ("N", "Z", "R"):
                raise self.bad(e, f"conditional expression of kind {a.kind}")
            return Val(f"(if {c.code} then {a.code} else {b.code})", a.kind)
        if isinstance(e, ast.Tuple):
            vals = [self.ex(x, K) for x in e.elts]
            return Val("(" + ", ".join(v.code for v in vals) + ")", "T:" + ",".join(v.kind for v in vals))
        if isinstance(e, ast.Subscript):
            return self.subscript(e, K)
        if isinstance(e, ast.Attribute):
            return self.attribute(e, K)
        if isinstance(e, ast.Call):
            return self.call(e, K)
        raise self.bad(e, f"expression {type(e).__name__}")

    def binop(self, e: ast.BinOp, K: Dict[str, str]) -> Val:
        a, b = self.ex(e.left, K), self.ex(e.right, K)
        op = e.op
        ka, kb = a.kind, b.kind
        # ---- matrices
        if isinstance(op, ast.MatMult):
            if (ka, kb) == ("MR", "VC"):
                return Val(f"(Np.matvecC {a.code} {b.code})", "VC")
            if (ka, kb) == ("MR", "MR"):
                return Val(f"(Np.matmul {a.code} {b.code})", "MR")
            raise self.bad(e, f"matrix product of kinds {ka} @ {kb}")
        if ka in ("MR", "MN", "COL", "COLN", "ROWN") or kb in ("MR", "MN", "COL", "COLN", "ROWN"):
            if isinstance(op, ast.Mult) and (ka, kb) == ("MR", "VR"):
                return Val(f"(Np.mulRow {a.code} {b.code})", "MR")
            if isinstance(op, ast.Mult) and (ka, kb) == ("VR", "MR"):
                return Val(f"(Np.rowMul {a.code} {b.code})", "MR")
            if isinstance(op, ast.Sub) and (ka, kb) == ("MR", "MR"):
                return Val(f"(Np.sub2 {a.code} {b.code})", "MR")
            if isinstance(op, ast.Sub) and (ka, kb) == ("MR", "COL"):
                return Val(f"(Np.subCol {a.code} {b.code})", "MR")
            if isinstance(op, ast.Add) and (ka, kb) == ("COLN", "ROWN"):
                return Val(f"(Np.outerAdd {a.code} {b.code})", "MN")
            raise self.bad(e, f"array operation {type(op).__name__} on kinds {ka}, {kb}")
        # ---- vectors: elementwise
        if ka in VECTOR or kb in VECTOR or ka == "VJ" or kb == "VJ":
            return self.vec(e, K)
        return self.scalar_binop(e, a, b)

    def scalar_binop(self, e: ast.BinOp, a: Val, b: Val) -> Val:
        op = e.op
        ka, kb = a.kind, b.kind
        sym = {ast.Add: "+", ast.Sub: "-", ast.Mult: "*", ast.Div: "/"}.get(type(op))
        if isinstance(op, ast.Pow):
            if isinstance(e.right, ast.Constant) and e.right.value == 2 and isinstance(e.right.value, int) and ka in ("R", "N", "Z"):
                a = self.to_real(a, e)            # NumPy evaluates x ** 2 on float arrays as x * x
                return Val(f"({a.code} * {a.code})", "R")
            raise self.bad(e, "power other than `** 2` of a real")
        if sym is None:
            raise self.bad(e, f"operator {type(op).__name__}")
        # purely imaginary scalars: 1j * omega, -1j * omega * n, ...
        if "J" in (ka, kb):
            if isinstance(op, ast.Mult) and ka == "J" and kb in ("R", "N", "Z"):
                return Val(f"({a.code} * {self.to_real(b, e).code})", "J")
            if isinstance(op, ast.Mult) and kb == "J" and ka in ("R", "N", "Z"):
                return Val(f"({self.to_real(a, e).code} * {b.code})", "J")
            raise self.bad(e, f"operation {type(op).__name__} on an imaginary value (kinds {ka}, {kb})")
        if "C" in (ka, kb):
            if ka == "C" and kb == "C" and isinstance(op, (ast.Add, ast.Sub, ast.Mult)):
                return Val(f"({a.code} {sym} {b.code})", "C")
            raise self.bad(e, f"complex operation {type(op).__name__} on kinds {ka}, {kb}")
        if ka not in ("N", "Z", "R") or kb not in ("N", "Z", "R"):
            raise self.bad(e, f"operation on kinds {ka}, {kb}")
        if ka == "R" or kb == "R" or isinstance(op, ast.Div):
            a, b = self.to_real(a, e), self.to_real(b, e)
            return Val(f"({a.code} {sym} {b.code})", "R")
        if ka == "N" and kb == "N" and not isinstance(op, ast.Sub):
            return Val(f"({a.code} {sym} {b.code})", "N")
        return Val(f"({self.to_int(a, e).code} {sym} {self.to_int(b, e).code})", "Z")

    def compare(self, e: ast.Compare, K: Dict[str, str]) -> Val:
        if len(e.ops) != 1:
            raise self.bad(e, "chained comparison")
        a, b = self.ex(e.left, K), self.ex(e.comparators[0], K)
        op = e.ops[0]
        if a.kind not in ("N", "Z", "R") or b.kind not in ("N", "Z", "R"):
            raise self.bad(e, f"comparison of kinds {a.kind}, {b.kind}")
        if "R" in (a.kind, b.kind):
            f = {ast.Lt: "RealLike.lt", ast.LtE: "RealLike.le", ast.Gt: "RealLike.gt", ast.GtE: "RealLike.ge",
                 ast.Eq: "RealLike.beq", ast.NotEq: "RealLike.bne"}.get(type(op))
            if f is None:
                raise self.bad(e, "comparison operator")
            return Val(f"({f} {self.to_real(a, e).code} {self.to_real(b, e).code})", "B")
        sym = {ast.Lt: "<", ast.LtE: "≤", ast.Gt: ">", ast.GtE: "≥", ast.Eq: "=", ast.NotEq: "≠"}.get(type(op))
        if sym is None:
            raise self.bad(e, "comparison operator")
        if a.kind == "N" and b.kind == "N":
            return Val(f"(decide ({a.code} {sym} {b.code}))", "B")
        return Val(f"(decide ({self.to_int(a, e).code} {sym} {self.to_int(b, e).code}))", "B")

    def subscript(self, e: ast.Subscript, K: Dict[str, str]) -> Val:
        sl = e.slice
        if isinstance(e.value, ast.Attribute) and e.value.attr == "shape" and isinstance(sl, ast.Constant) and sl.value in (0, 1):
            b = self.ex(e.value.value, K)
            if b.kind in ("MR", "MN"):
                return Val(f"{b.code}.{'n' if sl.value == 0 else 'm'}", "N")
            if b.kind in VECTOR and sl.value == 0:
                return Val(f"{b.code}.n", "N")
            raise self.bad(e, f".shape[{sl.value}] of kind {b.kind}")
        # starts[:, None]  /  v[None, :]
        if isinstance(sl, ast.Tuple) and len(sl.elts) == 2:
            full = lambda s: isinstance(s, ast.Slice) and s.lower is None and s.upper is None and s.step is None
            none = lambda s: isinstance(s, ast.Constant) and s.value is None
            base = self.ex(e.value, K)
            if base.kind == "VN" and full(sl.elts[0]) and none(sl.elts[1]):
                return Val(base.code, "COLN")
            if base.kind == "VN" and none(sl.elts[0]) and full(sl.elts[1]):
                return Val(base.code, "ROWN")
            raise self.bad(e, f"2-D index form on kind {base.kind}")
        if isinstance(sl, ast.Slice):
            base = self.ex(e.value, K)
            if base.kind not in VECTOR or sl.step is not None or sl.lower is None or sl.upper is None:
                raise self.bad(e, "slice form (only `v[lo:hi]` of a vector)")
            lo, hi = self.to_int(self.ex(sl.lower, K), e), self.to_int(self.ex(sl.upper, K), e)
            return Val(f"(Np.slice {base.code} {lo.code} {hi.code})", base.kind)
        base = self.ex(e.value, K)
        idx = self.ex(sl, K)
        if base.kind in ("VR", "VN") and idx.kind == "MN":
            return Val(f"(Np.take2 {base.code} {idx.code})", "MR" if base.kind == "VR" else "MN")
        raise self.bad(e, f"subscript of kind {base.kind} by kind {idx.kind}")

    def attribute(self, e: ast.Attribute, K: Dict[str, str]) -> Val:
        b = self.ex(e.value, K)
        if e.attr == "T" and b.kind in ("MR", "MN"):
            return Val(f"(Np.transpose {b.code})", b.kind)
        if e.attr in ("real", "imag"):
            if b.kind == "C":
                return Val(f"{b.code}.{'re' if e.attr == 'real' else 'im'}", "R")
            if b.kind == "VC":
                return self.vec(e, K)
        raise self.bad(e, f"attribute .{e.attr} of kind {b.kind}")

    def call(self, e: ast.Call, K: Dict[str, str]) -> Val:
        f = e.func
        npn = self.np_name(f)
        kw = self.kwmap(e)
        if isinstance(f, ast.Name) and f.id in ("int", "float") and len(e.args) == 1 and not kw:
            v = self.ex(e.args[0], K)
            if f.id == "float":
                return self.to_real(v, e)                  # float() of a NumPy float64 / int: the same number
            if v.kind in ("N", "Z"):
                return v
            if v.kind == "R":
                return Val(f"(RealLike.trunc {v.code})", "Z")
            raise self.bad(e, f"int() of kind {v.kind}")
        if isinstance(f, ast.Name) and f.id == "len" and len(e.args) == 1 and not kw:
            v = self.ex(e.args[0], K)
            if v.kind in VECTOR:
                return Val(f"{v.code}.n", "N")
            raise self.bad(e, f"len() of kind {v.kind}")
        if isinstance(f, ast.Name) and f.id in ("min", "max") and len(e.args) == 2 and not kw:
            a, b = self.ex(e.args[0], K), self.ex(e.args[1], K)
            if a.kind == "N" and b.kind == "N":
                return Val(f"({f.id} {a.code} {b.code})", "N")
            if {a.kind, b.kind} <= {"N", "Z"}:
                a, b = self.to_int(a, e), self.to_int(b, e)
                return Val(f"(if {a.code} {'≤' if f.id == 'min' else '≥'} {b.code} then {a.code} else {b.code})", "Z")
            raise self.bad(e, f"{f.id}() of kinds {a.kind}, {b.kind}")
        if npn == "arange" and len(e.args) == 1 and set(kw) == {"dtype"}:
            n = self.ex(e.args[0], K)
            if n.kind != "N":
                raise self.bad(e, f"np.arange bound of kind {n.kind}")
            if kw["dtype"] == "np.float64":
                return Val(f"(Np.arangeF {n.code})", "VR")
            if kw["dtype"] == "np.int64":
                return Val(f"(Np.arange {n.code})", "VN")
            raise self.bad(e, "np.arange dtype")
        if npn == "empty" and len(e.args) == 1 and kw == {"dtype": "np.float64"}:
            n = self.ex(e.args[0], K)
            if n.kind != "N":
                raise self.bad(e, f"np.empty length of kind {n.kind}")
            k = self.nalloc
            self.nalloc += 1
            return Val(f"(Np.empty {n.code} (uninit {k}))", "VR")
        if npn == "nan_to_num" and len(e.args) == 1 and kw in ({"copy": "False"}, {"copy": "True"}, {}):
            v = self.ex(e.args[0], K)             # identity over ℝ; a sanitiser of NaN/Inf in Float (inputs are finite)
            if v.kind in ("R", "C", "VR", "VC", "MR"):
                return v
            raise self.bad(e, f"np.nan_to_num of kind {v.kind}")
        if npn == "exp" and len(e.args) == 1 and not kw:
            v = self.ex(e.args[0], K)
            if v.kind == "J":
                return Val(f"(Np.expI {v.code})", "C")
            if v.kind == "VJ":
                return self.vec(e, K)
            if v.kind in ("R", "N", "Z"):
                return Val(f"(RealLike.exp {self.to_real(v, e).code})", "R")
            raise self.bad(e, f"np.exp of kind {v.kind}")
        if npn == "conj" and len(e.args) == 1 and not kw:
            v = self.ex(e.args[0], K)
            if v.kind == "C":
                return Val(f"(Cx.conj {v.code})", "C")
            if v.kind == "VC":
                return self.vec(e, K)
            raise self.bad(e, f"np.conj of kind {v.kind}")
        if npn == "mean" and len(e.args) == 1 and not kw:
            v = self.ex(e.args[0], K)
            if v.kind == "VR":
                return Val(f"(Arr.mean {v.code})", "R")
            raise self.bad(e, f"np.mean of kind {v.kind}")
        if isinstance(f, ast.Attribute) and f.attr == "mean" and not e.args:
            v = self.ex(f.value, K)
            if v.kind == "VR" and not kw:
                return Val(f"(Arr.mean {v.code})", "R")
            if v.kind == "MR" and kw == {"axis": "1", "keepdims": "True"}:
                return Val(f"(Np.rowMean {v.code})", "COL")
            raise self.bad(e, f".mean() form on kind {v.kind}")
        if isinstance(f, ast.Name) and f.id in self.known and not kw:
            pk, rk = self.known[f.id]
            args = [self.ex(a, K) for a in e.args]
            if [a.kind for a in args] != pk:
                raise self.bad(e, f"argument kinds {[a.kind for a in args]} for {f.id}{pk}")
            return Val(f"({f.id} " + " ".join(a.code for a in args) + ")", rk)
        raise self.bad(e, "call")

    # ------------------------------------------------------------------ elementwise vector expressions
    def first_vector(self, e: ast.AST, K: Dict[str, str]) -> str:
        for n in ast.walk(e):
            if isinstance(n, ast.Name) and K.get(n.id) in VECTOR:
                return f"{n.id}.n"
        raise self.bad(e, "vector expression without a named vector operand")

    def pw(self, e: ast.AST, K: Dict[str, str]) -> Val:
        """element `i_` of a vector-valued expression (scalars are themselves: broadcasting)"""
        if isinstance(e, ast.Name):
            k = K.get(e.id)
            if k in VECTOR:
                return Val(f"({e.id}.get i_)", {"VR": "R", "VN": "N", "VC": "C"}[k])
            return self.ex(e, K)
        if isinstance(e, ast.Constant):
            return self.ex(e, K)
        if isinstance(e, ast.UnaryOp) and isinstance(e.op, ast.USub):
            v = self.pw(e.operand, K)
            if v.kind in ("R", "J"):
                return Val(f"(-{v.code})", v.kind)
            raise self.bad(e, f"unary minus on element kind {v.kind}")
        if isinstance(e, ast.BinOp):
            if isinstance(e.op, ast.MatMult):
                raise self.bad(e, "matrix product inside an elementwise expression")
            a, b = self.pw(e.left, K), self.pw(e.right, K)
            return self.scalar_binop(e, a, b)
        if isinstance(e, ast.Attribute) and e.attr in ("real", "imag"):
            v = self.pw(e.value, K)
            if v.kind != "C":
                raise self.bad(e, f".{e.attr} of element kind {v.kind}")
            return Val(f"{v.code}.{'re' if e.attr == 'real' else 'im'}", "R")
        if isinstance(e, ast.Call):
            npn = self.np_name(e.func)
            kw = self.kwmap(e)
            if npn == "exp" and len(e.args) == 1 and not kw:
                v = self.pw(e.args[0], K)
                if v.kind == "J":
                    return Val(f"(Np.expI {v.code})", "C")
                if v.kind == "R":
                    return Val(f"(RealLike.exp {v.code})", "R")
                raise self.bad(e, f"np.exp of element kind {v.kind}")
            if npn == "conj" and len(e.args) == 1 and not kw:
                v = self.pw(e.args[0], K)
                if v.kind != "C":
                    raise self.bad(e, f"np.conj of element kind {v.kind}")
                return Val(f"(Cx.conj {v.code})", "C")
            if npn == "nan_to_num" and len(e.args) == 1 and kw in ({"copy": "False"}, {"copy": "True"}, {}):
                return self.pw(e.args[0], K)
            v = self.ex(e, K)
            if v.kind in SCALAR:
                return v
            raise self.bad(e, f"call of kind {v.kind} inside an elementwise expression")
        v = self.ex(e, K)
        if v.kind in SCALAR:
            return v
        raise self.bad(e, f"{type(e).__name__} of kind {v.kind} inside an elementwise expression")

    def vec(self, e: ast.AST, K: Dict[str, str]) -> Val:
        n = self.first_vector(e, K)
        v = self.pw(e, K)
        if v.kind == "J":
            return Val(f"(⟨{n}, fun i_ => {v.code}⟩ : Arr α)", "VJ")     # only ever consumed by np.exp (re-traversed elementwise)
        kind = {"R": "VR", "C": "VC", "N": "VN"}.get(v.kind)
        if kind is None:
            raise self.bad(e, f"vector of element kind {v.kind}")
        return Val(f"(⟨{n}, fun i_ => {v.code}⟩ : {LT[kind]})", kind)

    # ------------------------------------------------------------------ statements
    def block(self, stmts: List[ast.stmt], K: Dict[str, str], ind: str, final=None) -> str:
        if not stmts:
            if final is None:
                raise Unsupported(f"{self.fn.name}: control reaches the end of the function without a return")
            return ind + final(K)
        s, rest = stmts[0], stmts[1:]
        ln = s.lineno
        if isinstance(s, ast.Expr) and isinstance(s.value, ast.Constant) and isinstance(s.value.value, str):
            return self.block(rest, K, ind, final)                                   # docstring
        if isinstance(s, ast.Return):
            if rest or final is not None:
                raise self.bad(s, "return in an unsupported position")
            v = self.ex(s.value, K)
            if v.kind.startswith("T:"):
                vals = [self.to_real(self.ex(x, K), s) for x in s.value.elts]
                self.ret_kind = "T:" + ",".join("R" for _ in vals)
                return ind + "(" + ", ".join(x.code for x in vals) + ")"
            if v.kind not in LT:
                raise self.bad(s, f"return of kind {v.kind}")
            self.ret_kind = v.kind
            return ind + v.code
        if isinstance(s, ast.If) and not s.orelse and len(s.body) == 1 and isinstance(s.body[0], ast.Raise):
            self.ex(s.test, K)                         # must at least be a well-formed test over known variables
            self.pre.append(f"line {ln}: not ({_u(s.test)})  [else the code raises]")
            return self.block(rest, K, ind, final)
        if isinstance(s, ast.If) and not s.orelse and len(s.body) == 1 and isinstance(s.body[0], ast.Return) and final is None:
            c = self.ex(s.test, K)
            if c.kind != "B":
                raise self.bad(s, "if-condition is not boolean")
            then = self.block(list(s.body), K, ind + "  ", None)
            rk = self.ret_kind
            els = self.block(rest, K, ind + "  ", None)
            if self.ret_kind != rk:
                raise self.bad(s, f"early return of kind {rk} but final return of kind {self.ret_kind}")
            return f"{ind}if {c.code} then\n{then}\n{ind}else\n{els}"
        if isinstance(s, ast.Expr) and isinstance(s.value, ast.Call) and isinstance(s.value.func, ast.Name) \
                and s.value.func.id == "_check_starts_bounds":
            a = s.value.args
            ok = (len(a) == 3 and not s.value.keywords and isinstance(a[0], ast.Subscript) and _u(a[0]).endswith(".shape[0]")
                  and isinstance(a[0].value, ast.Attribute) and isinstance(a[0].value.value, ast.Name) and K.get(a[0].value.value.id) == "VR"
                  and isinstance(a[1], ast.Name) and K.get(a[1].id) == "VN" and isinstance(a[2], ast.Name) and K.get(a[2].id) == "N")
            if not ok:
                raise self.bad(s, "_check_starts_bounds call form")
            self.pre.append(f"line {ln}: every {a[1].id}[j] + {a[2].id} <= len({a[0].value.value.id})  [{_u(s.value)} raises otherwise]")
            return self.block(rest, K, ind, final)
        if isinstance(s, ast.With):
            if not (len(s.items) == 1 and s.items[0].optional_vars is None and isinstance(s.items[0].context_expr, ast.Call)
                    and self.np_name(s.items[0].context_expr.func) == "errstate" and not s.items[0].context_expr.args):
                raise self.bad(s, "with-statement other than np.errstate(...)")
            self.dropped.append(f"line {ln}: with {_u(s.items[0].context_expr)} (floating-point warning state)")
            return self.block(list(s.body) + rest, K, ind, final)
        if isinstance(s, ast.For):
            return self.for_loop(s, rest, K, ind, final)
        if isinstance(s, ast.AugAssign) and isinstance(s.target, ast.Name):
            if K.get(s.target.id) != "MR" or not isinstance(s.op, ast.Sub):
                raise self.bad(s, "augmented assignment other than `matrix -= ...`")
            # `segs -= c` on a matrix that is a fresh gather (never an alias of an input: take2 copies): a rebinding
            fake = ast.Assign(targets=[ast.Name(id=s.target.id, ctx=ast.Store())],
                              value=ast.BinOp(left=ast.Name(id=s.target.id, ctx=ast.Load()), op=s.op, right=s.value))
            ast.copy_location(fake, s)
            ast.fix_missing_locations(fake)
            return self.block([fake] + rest, K, ind, final)
        if isinstance(s, ast.Assign) and len(s.targets) == 1 and isinstance(s.targets[0], ast.Name):
            name = s.targets[0].id
            # x = np.asarray(x, dtype=np.float64, order="C"): the same values
            if isinstance(s.value, ast.Call) and self.np_name(s.value.func) == "asarray":
                a, kw = s.value.args, self.kwmap(s.value)
                want = {"VR": "np.float64", "MR": "np.float64", "VN": "np.int64"}.get(K.get(name))
                if not (len(a) == 1 and isinstance(a[0], ast.Name) and a[0].id == name and want is not None
                        and set(kw) <= {"dtype", "order"} and kw.get("dtype", want) == want and kw.get("order", "'C'") == "'C'"):
                    raise self.bad(s, "np.asarray form (only `v = np.asarray(v, dtype=<its own dtype>, order='C')`)")
                self.dropped.append(f"line {ln}: {_u(s)} (same values)")
                return self.block(rest, K, ind, final)
            v = self.ex(s.value, K)
            if v.kind not in LT:
                raise self.bad(s, f"assignment of a value of kind {v.kind}")
            if name in K and K[name] != v.kind:
                raise self.bad(s, f"variable changes kind {K[name]} -> {v.kind}")
            K = dict(K)
            K[name] = v.kind
            return f"{ind}let {name} : {LT[v.kind]} := {v.code}\n" + self.block(rest, K, ind, final)
        if isinstance(s, ast.Assign) and len(s.targets) == 1 and isinstance(s.targets[0], ast.Subscript):
            t = s.targets[0]
            if not (isinstance(t.value, ast.Name) and K.get(t.value.id) == "VR" and isinstance(t.slice, ast.Slice)
                    and t.slice.step is None and t.slice.lower is not None and t.slice.upper is not None):
                raise self.bad(s, "store form (only `v[lo:hi] = vector`)")
            name = t.value.id
            lo, hi = self.to_int(self.ex(t.slice.lower, K), s), self.to_int(self.ex(t.slice.upper, K), s)
            v = self.ex(s.value, K)
            if v.kind != "VR":
                raise self.bad(s, f"slice store of a value of kind {v.kind}")
            return f"{ind}let {name} : Arr α := Np.setSlice {name} {lo.code} {hi.code} {v.code}\n" + self.block(rest, K, ind, final)
        raise self.bad(s, f"statement {type(s).__name__}")

    def for_loop(self, s: ast.For, rest: List[ast.stmt], K: Dict[str, str], ind: str, final) -> str:
        it = s.iter
        if not (isinstance(s.target, ast.Name) and not s.orelse and isinstance(it, ast.Call) and isinstance(it.func, ast.Name)
                and it.func.id == "range" and len(it.args) == 3 and not it.keywords):
            raise self.bad(s, "loop form (only `for v in range(start, stop, step)`)")
        a, b, c = (self.ex(x, K) for x in it.args)
        if (a.kind, b.kind, c.kind) != ("N", "N", "N"):
            raise self.bad(s, f"range bounds of kinds {a.kind}, {b.kind}, {c.kind}")
        self.pre.append(f"line {s.lineno}: {_u(it.args[2])} >= 1  [range() raises for step 0]")
        var = s.target.id
        stored: List[str] = []
        local: List[str] = []
        for n in ast.walk(ast.Module(body=s.body, type_ignores=[])):
            if isinstance(n, (ast.For, ast.While, ast.If, ast.Return, ast.Break, ast.Continue, ast.With, ast.Try)):
                raise self.bad(n, "control flow inside the chunk loop")
            if isinstance(n, (ast.Assign, ast.AugAssign)):
                for t in (n.targets if isinstance(n, ast.Assign) else [n.target]):
                    if isinstance(t, ast.Subscript) and isinstance(t.value, ast.Name):
                        if t.value.id not in stored:
                            stored.append(t.value.id)
                    elif isinstance(t, ast.Name):
                        if t.id not in local:
                            local.append(t.id)
                    else:
                        raise self.bad(n, "assignment target")
        for n in local + [var]:
            if n in K:
                raise self.bad(s, f"loop body rebinds `{n}`, which exists before the loop (a value carried across iterations)")
            for r in rest:
                for m in ast.walk(r):
                    if isinstance(m, ast.Name) and m.id == n:
                        raise self.bad(m, f"`{n}` is bound inside the loop and used after it")
        if not stored or any(K.get(n) != "VR" for n in stored):
            raise self.bad(s, "loop must store into real arrays allocated before it")
        self.tmp += 1
        st = f"st{self.tmp}"
        ty = " × ".join("Arr α" for _ in stored)
        proj = [st]
        if len(stored) > 1:
            proj = [f"{st}." + "2." * i + "1" for i in range(len(stored) - 1)] + [f"{st}." + "2." * (len(stored) - 2) + "2"]
        init = stored[0] if len(stored) == 1 else "(" + ", ".join(stored) + ")"
        i2 = ind + "    "
        Kb = dict(K)
        Kb[var] = "N"
        out = f"{ind}let {st} : {ty} := forRange (Np.rangeLen {a.code} {b.code} {c.code}) {init} (fun (it_ : Nat) ({st} : {ty}) =>\n"
        for n, p in zip(stored, proj):
            out += f"{i2}let {n} : Arr α := {p}\n"
        out += f"{i2}let {var} : Nat := ({a.code} + (it_ * {c.code}))\n"

        def fin(K2: Dict[str, str]) -> str:
            for n in stored:
                if K2.get(n) != "VR":
                    raise self.bad(s, f"loop array {n} changes kind")
            return init
        out += self.block(list(s.body), Kb, i2, fin) + ")\n"
        for n, p in zip(stored, proj):
            out += f"{ind}let {n} : Arr α := {p}\n"
        return out + self.block(rest, K, ind, final)

    # ------------------------------------------------------------------ whole function
    def translate(self) -> Tuple[str, Tuple[List[str], str]]:
        fn = self.fn
        a = fn.args
        if a.vararg or a.kwarg or a.posonlyargs or a.defaults:
            raise Unsupported(f"{fn.name}: parameter list form")
        params = [p.arg for p in a.args]
        for p, d in zip(a.kwonlyargs, a.kw_defaults):
            if not (isinstance(d, ast.Constant) and isinstance(d.value, int) and not isinstance(d.value, bool) and d.value >= 0):
                raise Unsupported(f"{fn.name}: keyword-only parameter {p.arg} without a natural-number default")
            params.append(p.arg)
            self.defaults[p.arg] = d.value
        K: Dict[str, str] = {}
        decl = []
        for p in params:
            if p not in self.sig:
                raise Unsupported(f"{fn.name}: no kind for parameter {p}")
            K[p] = self.sig[p]
            decl.append(f"({p} : {LT[self.sig[p]]})")
        self.ret_kind = None
        code = self.block(list(fn.body), K, "  ", None)
        if self.ret_kind is None:
            raise Unsupported(f"{fn.name}: no return")
        if self.nalloc:
            decl.append("(uninit : Nat → Nat → α)")
        rk = self.ret_kind
        rty = " × ".join("α" for _ in rk[2:].split(",")) if rk.startswith("T:") else LT[rk]
        doc = f"/-- core.py:{fn.lineno}-{fn.end_lineno} `{fn.name}`"
        if self.nalloc:
            doc += f"\n    `uninit k i`: entry `i` of the uninitialised memory returned by the k-th `np.empty`"
        for t in self.pre:
            doc += "\n    precondition — " + t.replace("-/", "- /")
        for t in self.dropped:
            doc += "\n    dropped (value-irrelevant) — " + t.replace("-/", "- /")
        doc += " -/\n"
        text = ""
        for p, v in self.defaults.items():
            text += f"/-- core.py:{fn.lineno} default of the keyword-only parameter `{p}` of `{fn.name}` -/\ndef {fn.name}{p}_default : Nat := {v}\n\n"
        text += doc + f"def {fn.name} " + " ".join(decl) + f" : {rty} :=\n" + code + "\n"
        return text, ([self.sig[p] for p in params], rk)


DOC = """/-!
  Region NumpyKernels: `_gather_segments` and the six NumPy fallback kernels `_stats_*_np` of speckit/core.py, translated statement by
  statement with whole-array semantics (primitives: SpecKitV/Np/NumpyKernels.lean).  The chunk loop `for j0 in range(0, K, _chunk)` is a
  `forRange` over `Np.rangeLen 0 K _chunk` iterations; `np.empty` is uninitialised memory `uninit`.
  Dropped as value-irrelevant (each occurrence is listed in the docstring of the definition it was dropped from, with its line):
  docstrings; `v = np.asarray(v, dtype=<own dtype>, order="C")`; `with np.errstate(...)` (its body is kept); `float(...)`;
  `np.nan_to_num(·, copy=False)` (identity on finite values: identity over ℝ, the inputs of the differential runs are finite).
  Turned into preconditions: `_check_starts_bounds(...)`, `if <test>: raise ...`, `range(·, ·, step)` with `step ≥ 1`.
-/

"""


def generate(repo: str) -> Tuple[str, List[str]]:
    path = os.path.join(repo, SOURCES[0])
    fns = parse_functions(path)
    out = HEADER.format(src=SOURCES[0], sha=sha_of(path)).replace("/verif/vk/translate.py", "/verif/vk/regions/numpy_kernels.py") \
        .replace("import SpecKitV.Num\n", "import SpecKitV.Num\nimport SpecKitV.Np.NumpyKernels\n")
    out += DOC
    errors: List[str] = []
    known: Dict[str, Tuple[List[str], str]] = {}
    for name in ORDER:
        if name not in fns:
            errors.append(f"{name}: not found in {path}")
            out += f"-- MISSING {name}\ndef {name}_MISSING : Nat := translation_failed_{name}\n\n"
            continue
        try:
            text, info = with_inlining(fns[name], lambda f_: NpTr(f_, SIGS[name], known).translate())
            out += text + "\n"
            known[name] = info
        except Unsupported as ex:
            errors.append(f"{name}: {ex}")
            msg = str(ex).replace("-/", "- /")
            out += f"/- UNSUPPORTED {name}: {msg} -/\ndef {name}_UNSUPPORTED : Nat := translation_failed_{name}\n\n"
    out += "end Gen\n"
    return out, errors
