"""Region NoiseGens — the generator CLASSES of speckit/noise.py as explicit state machines.

Every class becomes a Lean `structure` whose fields are the attributes its `__init__` chain assigns (kinds inferred from the assigned
expressions), every method `m(self, args)` becomes `Cls.m (xi) (self : Cls α) args : result × Cls α` (`__init__` returns the object).
Methods are resolved through the class's bases exactly as Python's single-inheritance MRO does, so `get_sample` /
`_settle_filter_state` of `_base_colored_noise` are emitted once per concrete class with `self.get_series` bound to that class.
`xi : Nat → α` is the stream of standard-normal draws that the seed determines (contract `NpNG.normal`): `np.random.default_rng(seed)`
is accepted only with the constructor's own `seed` parameter (an unseeded `default_rng()` or the global `np.random.*` is Unsupported).

Statements are translated in source order into `let`s; a call that changes object state (`self.get_series(..)`,
`self._whitenoise.get_series(..)`, `rng.normal(..)`) is hoisted in Python's evaluation order and the returned object/cursor is written
back along the attribute path it was reached through.  Tuple assignments store the returned values into the named targets, left to right.

Aliasing: arrays are values in the generated code.  The one in-place effect of the region — `_numba_lfilter_cascade` storing into its
`zi_states` parameter, which IS the caller's `self._zi_states` — is carried out explicitly: after the call the argument's location
receives the returned final value (which parameters are stored into, and where they are returned, is read off the function's AST).

Dropped as value-irrelevant (listed with line numbers in the generated file): docstrings, `if <cond>: raise …` input validation
(preconditions of the non-raising executions the definitions describe), `dtype=np.float64`, `.copy()`.
NOT translated (opaque inputs of `alpha_noise.__init__`, see DESIGN_*): the filter-design arithmetic producing `self._num_spectra`,
`filter_f_min_vals`, `filter_f_max_vals`; `_calc_filter_coeffs` and `_numba_lfilter_cascade` are the already translated
`Gen._calc_filter_coeffs` / `Gen._numba_lfilter_cascade` (Gen/Noise.lean) and are CALLED.
Anything else raises Unsupported -> a stub that fails to build.
"""
from __future__ import annotations

import ast
import os
from typing import Dict, List, Optional, Tuple

from ..translate import HEADER, Unsupported, _lit_float, sha_of

REGION = "NoiseGens"
SOURCES = ["speckit/noise.py"]

CLASSES = ["white_noise", "red_noise", "alpha_noise", "pink_noise"]         # concrete classes, in emission order
METHODS = ["get_series", "get_sample", "_settle_filter_state"]               # besides __init__ (emitted if the MRO has them)

# alpha_noise.__init__: the filter DESIGN arithmetic is outside this region.  A statement `X = <expr>` whose target is one of these names
# and whose expression mentions only the listed names is skipped; the three DESIGN_INPUTS become parameters of the generated __init__.
DESIGN_CLASS = "alpha_noise"
DESIGN_LOCALS = ["log_w_min", "log_w_max", "dp", "i", "log_p_i"]
DESIGN_INPUTS = [("self._num_spectra", "N"), ("filter_f_min_vals", "A"), ("filter_f_max_vals", "A")]
DESIGN_MAY_MENTION = {"np", "int", "f_min", "f_max", "self.alpha", "self._num_spectra", "filter_f_min_vals", "filter_f_max_vals"} | set(DESIGN_LOCALS)

LT = {"R": "α", "N": "Nat", "Z": "Int", "B": "Bool", "A": "Arr α", "A2": "Arr2 α", "RNG": "NpNG.Rng", "U": "Unit"}
UNARY = {"sqrt": "RealLike.sqrt", "exp": "RealLike.exp", "log": "RealLike.log", "log10": "RealLike.log10",
         "cos": "RealLike.cos", "sin": "RealLike.sin", "abs": "RealLike.abs"}


class Val:
    def __init__(self, code: str, kind: str, path: Optional[List[str]] = None):
        self.code, self.kind, self.path = code, kind, path       # path: [root lean variable, attr, attr, …] if this is a storable location


def lean_ty(kind: str) -> str:
    if kind in LT:
        return LT[kind]
    if kind.startswith("OBJ:"):
        return f"{kind[4:]} α"
    if kind.startswith("T:"):
        return " × ".join(("(" + lean_ty(k) + ")") if " " in lean_ty(k) else lean_ty(k) for k in kind[2:].split(","))
    raise Unsupported("no Lean type for kind " + kind)


class ClassInfo:
    def __init__(self, node: ast.ClassDef):
        self.node = node
        self.name = node.name
        self.bases = [b.id for b in node.bases if isinstance(b, ast.Name)]
        if len(self.bases) != len(node.bases) or len(self.bases) > 1:
            raise Unsupported(f"line {node.lineno}: class {node.name}: only single inheritance from a module-level class")
        self.methods: Dict[str, ast.FunctionDef] = {}
        self.props: Dict[str, ast.FunctionDef] = {}
        for m in node.body:
            if isinstance(m, ast.FunctionDef):
                decos = [ast.unparse(d) for d in m.decorator_list]
                if decos == ["property"]:
                    self.props[m.name] = m
                elif not decos:
                    self.methods[m.name] = m
                else:
                    raise Unsupported(f"line {m.lineno}: decorators {decos}")
        self.fields: Optional[List[Tuple[str, str]]] = None      # struct fields once sealed
        self.struct: Optional[str] = None                        # Lean structure name (own or the base's, for an alias class)
        self.extra: List[Tuple[str, str]] = []                   # design inputs appended to __init__'s parameters


class Region:
    def __init__(self, path: str):
        self.path = path
        self.tree = ast.parse(open(path).read())
        self.classes: Dict[str, ClassInfo] = {}
        self.consts: Dict[str, int] = {}
        self.const_lines: Dict[str, int] = {}
        for n in self.tree.body:
            if isinstance(n, ast.ClassDef):
                try:
                    self.classes[n.name] = ClassInfo(n)
                except Unsupported:
                    if n.name in CLASSES or n.name == "_base_colored_noise":
                        raise
            elif isinstance(n, ast.Assign) and len(n.targets) == 1 and isinstance(n.targets[0], ast.Name) \
                    and isinstance(n.value, ast.Constant) and isinstance(n.value.value, int) and not isinstance(n.value.value, bool):
                self.consts[n.targets[0].id] = n.value.value
                self.const_lines[n.targets[0].id] = n.lineno
        self.used_consts: List[str] = []
        self.out: List[str] = []            # emitted definitions, in completion (= dependency) order
        self.done: Dict[Tuple[str, str], "MethodInfo"] = {}
        self.in_progress: set = set()
        self.dropped: List[str] = []
        self.translated: List[str] = []
        self.failed: Dict[str, str] = {}

    # ---- class model
    def mro(self, cls: str) -> List[ClassInfo]:
        out = []
        while cls is not None:
            if cls not in self.classes:
                raise Unsupported(f"base class {cls} is not a class of noise.py")
            ci = self.classes[cls]
            out.append(ci)
            cls = ci.bases[0] if ci.bases else None
        return out

    def find_method(self, cls: str, name: str) -> Optional[Tuple[ClassInfo, ast.FunctionDef]]:
        for ci in self.mro(cls):
            if name in ci.methods:
                return ci, ci.methods[name]
        return None

    def find_prop(self, cls: str, name: str) -> Optional[ast.FunctionDef]:
        for ci in self.mro(cls):
            if name in ci.props:
                return ci.props[name]
        return None

    def struct_of(self, cls: str) -> str:
        ci = self.classes[cls]
        if ci.struct is None:
            self.method(cls, "__init__")
        if ci.struct is None:
            raise Unsupported(f"class {cls}: no structure (its __init__ is being translated)")
        return ci.struct

    def fields_of(self, cls: str) -> Dict[str, str]:
        st = self.struct_of(cls)
        return dict(self.classes[st].fields or [])

    def inplace_params(self, fname: str, node) -> List[Tuple[int, int]]:
        """parameters of the module-level function `fname` that its body stores into (`p[...] = …`), i.e. arrays modified in place
        for the caller, each with the position of that parameter in the returned tuple (its final value)"""
        fn = next((n for n in self.tree.body if isinstance(n, ast.FunctionDef) and n.name == fname), None)
        if fn is None:
            raise Unsupported(f"line {node.lineno}: function {fname} not found")
        params = [a.arg for a in fn.args.args]
        rebound = {t.id for n in ast.walk(fn) if isinstance(n, (ast.Assign, ast.AugAssign, ast.AnnAssign))
                   for t in ast.walk(n.targets[0] if isinstance(n, ast.Assign) else n.target)
                   if isinstance(t, ast.Name) and isinstance(t.ctx, ast.Store)}
        stored = []
        for n in ast.walk(fn):
            if isinstance(n, ast.Subscript) and isinstance(n.ctx, ast.Store) and isinstance(n.value, ast.Name) and n.value.id in params:
                if n.value.id in rebound:
                    raise Unsupported(f"line {n.lineno}: {fname} rebinds and stores into parameter {n.value.id}")
                if n.value.id not in stored:
                    stored.append(n.value.id)
        rets = [n for n in ast.walk(fn) if isinstance(n, ast.Return)]
        if len(rets) != 1 or not isinstance(rets[0].value, ast.Tuple) or len(rets[0].value.elts) != 2:
            raise Unsupported(f"line {fn.lineno}: {fname} does not end in one `return (x, y)`")
        names = [e.id if isinstance(e, ast.Name) else None for e in rets[0].value.elts]
        out = []
        for pn in stored:
            if pn not in names:
                raise Unsupported(f"line {fn.lineno}: {fname} modifies {pn} in place but does not return it")
            out.append((params.index(pn), names.index(pn)))
        return out

    def const(self, name: str) -> str:
        if name not in self.used_consts:
            self.used_consts.append(name)
        return name

    # ---- on-demand, memoised method translation
    def method(self, cls: str, name: str) -> "MethodInfo":
        key = (cls, name)
        if cls in self.failed:
            raise Unsupported(f"class {cls} is not translated ({self.failed[cls]})")
        if key in self.done:
            return self.done[key]
        if key in self.in_progress:
            raise Unsupported(f"{cls}.{name}: recursive method call")
        found = self.find_method(cls, name)
        if found is None:
            raise Unsupported(f"{cls} has no method {name}")
        self.in_progress.add(key)
        try:
            info = MethodTr(self, cls, name, found[0], found[1]).run()
        finally:
            self.in_progress.discard(key)
        self.done[key] = info
        return info


class MethodInfo:
    def __init__(self, lean_name: str, params: List[Tuple[str, str]], ret: str, defaults: Dict[str, ast.AST]):
        self.lean_name, self.params, self.ret, self.defaults = lean_name, params, ret, defaults


def ann_kind(arg: ast.arg, fn: ast.FunctionDef) -> str:
    a = ast.unparse(arg.annotation) if arg.annotation is not None else None
    if arg.arg == "seed" and a == "Optional[int]":
        return "SEED"
    if a == "float":
        return "R"
    if a == "int":
        return "N"          # a size: Generator.normal raises for a negative one (precondition of the non-raising executions)
    if a == "bool":
        return "B"
    raise Unsupported(f"line {fn.lineno}: parameter {arg.arg}: annotation {a!r}")


class MethodTr:
    """one method of one concrete class -> one Lean definition"""

    def __init__(self, R: Region, cls: str, name: str, owner: ClassInfo, fn: ast.FunctionDef):
        self.R, self.cls, self.name, self.owner, self.fn = R, cls, name, owner, fn
        self.is_init = name == "__init__"
        self.tmp = 0
        self.env: Dict[str, str] = {}                 # Python local -> kind (the Lean variable has the same name)
        self.self_obj: Optional[Val] = None           # what `self` denotes (None: an object under construction, fields in self.init_fields)
        self.init_fields: List[Tuple[str, str]] = []  # while unsealed: (attribute, kind); Lean variable `self_<attribute>`
        self.sealed = not self.is_init
        self.ret_kind: Optional[str] = None
        self.lines: List[str] = []
        self.ind = "  "
        self.own_cls = owner.name                     # class whose body is being read (changes while a base __init__ is inlined)

    # ------------------------------------------------------------------ helpers
    def fresh(self, p: str = "r") -> str:
        self.tmp += 1
        return f"{p}{self.tmp}_"

    def emit(self, s: str):
        self.lines.append(self.ind + s)

    def unsup(self, node: ast.AST, msg: str):
        raise Unsupported(f"line {getattr(node, 'lineno', '?')}: {self.cls}.{self.name}: {msg}")

    def to_real(self, v: Val, node=None) -> Val:
        if v.kind == "R":
            return v
        if v.kind == "N":
            return Val(f"(RealLike.ofNat {v.code})", "R")
        if v.kind == "Z":
            return Val(f"(RealLike.ofInt {v.code})", "R")
        self.unsup(node, f"a value of kind {v.kind} used as a real")

    def to_nat(self, v: Val, node=None) -> Val:
        if v.kind == "N":
            return v
        if v.kind == "Z":
            return Val(f"(Int.toNat {v.code})", "N")      # a negative size raises in NumPy: precondition
        self.unsup(node, f"a value of kind {v.kind} used as a size")

    def self_code(self) -> str:
        return "self"

    # ------------------------------------------------------------------ locations (attribute paths)
    def path_code(self, path: List[str]) -> str:
        return ".".join(path)

    def store(self, path: List[str], code: str, kind: str, node=None):
        """write `code` into the location `path` = [root variable, attr, …]: nested `{ x with a := … }`"""
        root = path[0]
        if len(path) == 1:
            ty = lean_ty(self.env[root]) if root in self.env and root != "self" else None
            self.emit(f"let {root}{' : ' + ty if ty else ''} := {code}")
            return
        upd = code
        for k in range(len(path) - 1, 0, -1):
            base = self.path_code(path[:k])
            upd = f"{{ {base} with {path[k]} := {upd} }}"
        if root == "self":
            self.emit(f"let self : {self.R.struct_of(self.cls)} α := {upd}")
        else:
            self.emit(f"let {root} := {upd}")

    # ------------------------------------------------------------------ expressions
    def ex(self, e: ast.AST) -> Val:
        if isinstance(e, ast.Constant):
            v = e.value
            if isinstance(v, bool):
                return Val("true" if v else "false", "B")
            if isinstance(v, int):
                return Val(str(v), "N") if v >= 0 else Val(f"(-({-v} : Int))", "Z")
            if isinstance(v, float):
                return Val(_lit_float(v), "R")
            self.unsup(e, f"constant {v!r}")
        if isinstance(e, ast.Name):
            if e.id == "self":
                if self.self_obj is None:
                    self.unsup(e, "`self` used as a value before all attributes are assigned")
                return self.self_obj
            if e.id in self.env:
                k = self.env[e.id]
                return Val(e.id, k, [e.id] if k.startswith("OBJ:") or k == "RNG" else None)
            if e.id in self.R.consts:
                return Val(self.R.const(e.id), "N" if self.R.consts[e.id] >= 0 else "Z")
            self.unsup(e, f"unknown name {e.id}")
        if isinstance(e, ast.Attribute):
            return self.attribute(e)
        if isinstance(e, ast.UnaryOp) and isinstance(e.op, ast.USub):
            v = self.ex(e.operand)
            if v.kind == "R":
                return Val(f"(-{v.code})", "R")
            if v.kind in ("N", "Z"):
                return Val(f"(-({v.code} : Int))", "Z")
            if v.kind == "A":
                a = self.bind(v)
                return Val(f"(⟨{a}.n, fun i_ => (-({a}.get i_))⟩ : Arr α)", "A")
            self.unsup(e, "unary minus on " + v.kind)
        if isinstance(e, ast.UnaryOp) and isinstance(e.op, ast.Not):
            v = self.ex(e.operand)
            if v.kind != "B":
                self.unsup(e, "not on " + v.kind)
            return Val(f"(!{v.code})", "B")
        if isinstance(e, ast.BinOp):
            return self.binop(e)
        if isinstance(e, ast.Compare):
            return self.compare(e)
        if isinstance(e, ast.BoolOp):
            vals = [self.ex(v) for v in e.values]
            if any(v.kind != "B" for v in vals):
                self.unsup(e, "and/or on non-booleans")
            return Val("(" + (" && " if isinstance(e.op, ast.And) else " || ").join(v.code for v in vals) + ")", "B")
        if isinstance(e, ast.Subscript):
            return self.subscript(e)
        if isinstance(e, ast.Call):
            return self.call(e)
        self.unsup(e, f"expression {type(e).__name__}")

    def bind(self, v: Val, kind_ty: Optional[str] = None) -> str:
        """name a compound value so that it is evaluated once and can be mentioned several times"""
        if v.code.replace("_", "").replace(".", "").isalnum():
            return v.code
        n = self.fresh("t")
        self.emit(f"let {n} : {lean_ty(v.kind)} := {v.code}")
        return n

    def binop(self, e: ast.BinOp) -> Val:
        a, b = self.ex(e.left), self.ex(e.right)          # Python evaluates the left operand first
        sym = {ast.Add: "+", ast.Sub: "-", ast.Mult: "*", ast.Div: "/"}.get(type(e.op))
        if sym is None:
            self.unsup(e, f"operator {type(e.op).__name__}")
        if a.kind == "A" or b.kind == "A":
            if a.kind == "A" and b.kind == "A":
                x, y = self.bind(a), self.bind(b)
                return Val(f"(⟨{x}.n, fun i_ => ({x}.get i_ {sym} {y}.get i_)⟩ : Arr α)", "A")   # equal lengths: NumPy would raise otherwise
            if a.kind == "A":
                x, c = self.bind(a), self.to_real(b, e)
                return Val(f"(⟨{x}.n, fun i_ => ({x}.get i_ {sym} {c.code})⟩ : Arr α)", "A")
            x, c = self.bind(b), self.to_real(a, e)
            return Val(f"(⟨{x}.n, fun i_ => ({c.code} {sym} {x}.get i_)⟩ : Arr α)", "A")
        if a.kind == "R" or b.kind == "R" or isinstance(e.op, ast.Div):
            a, b = self.to_real(a, e), self.to_real(b, e)
            return Val(f"({a.code} {sym} {b.code})", "R")
        if a.kind == "N" and b.kind == "N" and not isinstance(e.op, ast.Sub):
            return Val(f"({a.code} {sym} {b.code})", "N")
        if a.kind in ("N", "Z") and b.kind in ("N", "Z"):
            return Val(f"(({a.code} : Int) {sym} ({b.code} : Int))", "Z")
        self.unsup(e, f"operands of kinds {a.kind}, {b.kind}")

    def compare(self, e: ast.Compare) -> Val:
        if len(e.ops) != 1:
            self.unsup(e, "chained comparison")
        a, b = self.ex(e.left), self.ex(e.comparators[0])
        op = type(e.ops[0])
        if a.kind == "R" or b.kind == "R":
            f = {ast.Lt: "RealLike.lt", ast.LtE: "RealLike.le", ast.Gt: "RealLike.gt", ast.GtE: "RealLike.ge",
                 ast.Eq: "RealLike.beq", ast.NotEq: "RealLike.bne"}.get(op)
            if f is None:
                self.unsup(e, "comparison operator")
            return Val(f"({f} {self.to_real(a, e).code} {self.to_real(b, e).code})", "B")
        sym = {ast.Lt: "<", ast.LtE: "≤", ast.Gt: ">", ast.GtE: "≥", ast.Eq: "=", ast.NotEq: "≠"}.get(op)
        if sym is None or a.kind not in ("N", "Z") or b.kind not in ("N", "Z"):
            self.unsup(e, f"comparison of {a.kind} with {b.kind}")
        if a.kind == "N" and b.kind == "N":
            return Val(f"(decide ({a.code} {sym} {b.code}))", "B")
        return Val(f"(decide (({a.code} : Int) {sym} ({b.code} : Int)))", "B")

    def attribute(self, e: ast.Attribute) -> Val:
        if isinstance(e.value, ast.Name) and e.value.id == "np" and e.attr == "pi":
            return Val("RealLike.pi", "R")
        if isinstance(e.value, ast.Name) and e.value.id == "self" and self.self_obj is None:
            for f, k in self.init_fields:                 # object under construction: its attributes are the variables self_<attr>
                if f == e.attr:
                    return Val("self_" + f, k, ["self_" + f] if k.startswith("OBJ:") or k == "RNG" else None)
            p = self.R.find_prop(self.cls, e.attr)
            if p is not None:
                return self.prop_value(p, None)
            self.unsup(e, f"attribute self.{e.attr} read before it is assigned")
        if e.attr == "T" and isinstance(e.value, ast.Call) and ast.unparse(e.value.func) == "np.vstack":
            c = e.value
            if not (len(c.args) == 1 and isinstance(c.args[0], ast.List) and len(c.args[0].elts) == 2 and not c.keywords):
                self.unsup(e, "np.vstack form (expected np.vstack([u, v]).T)")
            u, v = self.ex(c.args[0].elts[0]), self.ex(c.args[0].elts[1])
            if u.kind != "A" or v.kind != "A":
                self.unsup(e, "np.vstack of non-vectors")
            return Val(f"(NpNG.vstack2T {self.bind(u)} {self.bind(v)} : Arr2 α)", "A2")
        base = self.ex(e.value)
        if base.kind == "A" and e.attr == "size":
            return Val(f"{base.code}.n", "N")
        if base.kind == "A2" and e.attr == "T":
            self.unsup(e, ".T outside np.vstack([u, v]).T")
        if base.kind.startswith("OBJ:"):
            cls = base.kind[4:]
            fields = self.R.fields_of(cls)
            if e.attr in fields:
                k = fields[e.attr]
                return Val(f"{base.code}.{e.attr}", k, (base.path + [e.attr]) if base.path else None)
            p = self.R.find_prop(cls, e.attr)
            if p is not None:
                return self.prop_value(p, base)
            self.unsup(e, f"{cls} object has no attribute/property {e.attr}")
        self.unsup(e, f"attribute .{e.attr} of a value of kind {base.kind}")

    def prop_value(self, p: ast.FunctionDef, obj: Optional[Val]) -> Val:
        body = [s for s in p.body if not (isinstance(s, ast.Expr) and isinstance(s.value, ast.Constant))]
        if not (len(body) == 1 and isinstance(body[0], ast.Return) and body[0].value is not None):
            self.unsup(p, f"property {p.name}: body is not a single `return <expr>`")
        saved = (self.self_obj, self.env)
        if obj is not None:
            self.self_obj = obj
        self.env = {}
        try:
            v = self.ex(body[0].value)
        finally:
            self.self_obj, self.env = saved
        return Val(v.code, v.kind, None)

    def int_const(self, e: ast.AST) -> Optional[int]:
        if isinstance(e, ast.Constant) and isinstance(e.value, int) and not isinstance(e.value, bool):
            return e.value
        if isinstance(e, ast.UnaryOp) and isinstance(e.op, ast.USub) and isinstance(e.operand, ast.Constant) and isinstance(e.operand.value, int):
            return -e.operand.value
        return None

    def subscript(self, e: ast.Subscript) -> Val:
        base = self.ex(e.value)
        if base.kind != "A":
            self.unsup(e, f"subscript of a value of kind {base.kind}")
        a = self.bind(base)
        if isinstance(e.slice, ast.Slice):
            if e.slice.step is not None:
                self.unsup(e, "slice with a step")
            def bound(b):
                if b is None:
                    return "none"
                v = self.ex(b)
                if v.kind not in ("N", "Z"):
                    self.unsup(e, "non-integer slice bound")
                return f"(some ({v.code} : Int))"
            return Val(f"(NpNG.pySlice {a} {bound(e.slice.lower)} {bound(e.slice.upper)})", "A")
        c = self.int_const(e.slice)
        if c is not None and c < 0:
            return Val(f"({a}.get (Np.pyIndex {a}.n ({c} : Int)))", "R")
        idx = self.ex(e.slice)
        if idx.kind == "N":
            return Val(f"({a}.get {idx.code})", "R")
        if idx.kind == "Z":
            return Val(f"({a}.get (Np.pyIndex {a}.n {idx.code}))", "R")
        self.unsup(e, "index of kind " + idx.kind)

    # ------------------------------------------------------------------ calls
    def bind_args(self, call: ast.Call, names: List[str], defaults: Dict[str, ast.AST], what: str) -> Dict[str, ast.AST]:
        if len(call.args) > len(names) or any(isinstance(a, ast.Starred) for a in call.args):
            self.unsup(call, f"{what}: positional arguments")
        got: Dict[str, ast.AST] = dict(zip(names, call.args))
        for kw in call.keywords:
            if kw.arg is None or kw.arg not in names or kw.arg in got:
                self.unsup(call, f"{what}: keyword {kw.arg}")
            got[kw.arg] = kw.value
        for n in names:
            if n not in got:
                if n not in defaults:
                    self.unsup(call, f"{what}: missing argument {n}")
                got[n] = defaults[n]
        return got

    def strip_dtype(self, call: ast.Call) -> List[ast.keyword]:
        kws = []
        for kw in call.keywords:
            if kw.arg == "dtype" and ast.unparse(kw.value) in ("np.float64", "float"):
                continue
            kws.append(kw)
        return kws

    def call(self, e: ast.Call) -> Val:
        fu = ast.unparse(e.func)
        f = e.func
        # --- NumPy scalar functions
        if isinstance(f, ast.Attribute) and isinstance(f.value, ast.Name) and f.value.id == "np":
            n = f.attr
            if n in UNARY and len(e.args) == 1 and not e.keywords:
                v = self.ex(e.args[0])
                if v.kind == "A":
                    a = self.bind(v)
                    return Val(f"(⟨{a}.n, fun i_ => {UNARY[n]} ({a}.get i_)⟩ : Arr α)", "A")
                return Val(f"({UNARY[n]} {self.to_real(v, e).code})", "R")
            if n == "power" and len(e.args) == 2 and not e.keywords:
                a, b = self.to_real(self.ex(e.args[0]), e), self.to_real(self.ex(e.args[1]), e)
                return Val(f"(RealLike.pow {a.code} {b.code})", "R")
            if n == "ceil" and len(e.args) == 1 and not e.keywords:
                return Val(f"(RealLike.ceil ({self.to_real(self.ex(e.args[0]), e).code} : α))", "CEIL")   # a float holding an integer: only int(…) may consume it
            if n == "array" and len(e.args) == 1 and isinstance(e.args[0], ast.List) and not self.strip_dtype(e):
                elts = [self.to_real(self.ex(x), e) for x in e.args[0].elts]
                if not elts:
                    return Val("(NpNG.emptyArr : Arr α)", "A")
                return Val("(NpNG.arrayOfList [" + ", ".join(v.code for v in elts) + "] : Arr α)", "A")
            if n == "empty" and len(e.args) == 1 and self.int_const(e.args[0]) == 0 and not self.strip_dtype(e):
                return Val("(NpNG.emptyArr : Arr α)", "A")
            if n == "zeros" and len(e.args) == 1 and isinstance(e.args[0], ast.Tuple) and len(e.args[0].elts) == 2 and not self.strip_dtype(e):
                r, c = (self.to_nat(self.ex(x), e) for x in e.args[0].elts)
                return Val(f"(NpNG.zeros2 {r.code} {c.code} : Arr2 α)", "A2")
            if n == "ones_like" and len(e.args) == 1 and not e.keywords:
                v = self.ex(e.args[0])
                if v.kind != "A":
                    self.unsup(e, "np.ones_like of " + v.kind)
                a = self.bind(v)
                return Val(f"(⟨{a}.n, fun i_ => RealLike.one⟩ : Arr α)", "A")
            self.unsup(e, f"call {fu}")
        # --- np.vstack([u, v]).T  and  .copy()
        if isinstance(f, ast.Attribute) and f.attr == "copy" and not e.args and not e.keywords:
            v = self.ex(f.value)
            if v.kind not in ("A", "A2"):
                self.unsup(e, ".copy() of " + v.kind)
            return Val(v.code, v.kind)            # arrays are values: a copy is the same value
        if fu == "int" and len(e.args) == 1 and not e.keywords:
            v = self.ex(e.args[0])
            if v.kind == "CEIL":
                return Val(v.code, "Z")
            if v.kind in ("N", "Z"):
                return v
            if v.kind == "R":
                return Val(f"(RealLike.trunc ({v.code} : α))", "Z")
            self.unsup(e, "int() of " + v.kind)
        if fu == "np.random.default_rng":
            if len(e.args) == 1 and not e.keywords and isinstance(e.args[0], ast.Name) and self.env.get(e.args[0].id) == "SEED":
                return Val("NpNG.default_rng", "RNG")
            self.unsup(e, "np.random.default_rng must be called with the constructor's `seed` parameter (same seed => same stream)")
        if fu in ("signal.lfilter", "lfilter"):
            kws = {k.arg: k.value for k in e.keywords}
            if len(e.args) != 3 or set(kws) != {"zi"}:
                self.unsup(e, "lfilter form (expected lfilter(b, a, x, zi=zi))")
            vals = [self.ex(a) for a in e.args] + [self.ex(kws["zi"])]
            if any(v.kind != "A" for v in vals):
                self.unsup(e, "lfilter arguments must be arrays")
            return Val("(NpNG.lfilter " + " ".join(self.bind(v) for v in vals) + ")", "T:A,A")
        if fu == "signal.lfilter_zi":
            if len(e.args) != 2 or e.keywords:
                self.unsup(e, "lfilter_zi form")
            vals = [self.ex(a) for a in e.args]
            if any(v.kind != "A" for v in vals):
                self.unsup(e, "lfilter_zi arguments must be arrays")
            return Val("(NpNG.lfilter_zi " + " ".join(self.bind(v) for v in vals) + ")", "A")
        if fu == "_numba_lfilter_cascade":
            if len(e.args) != 4 or e.keywords:
                self.unsup(e, "_numba_lfilter_cascade form")
            vals = [self.ex(a) for a in e.args]
            if [v.kind for v in vals] != ["A", "A2", "A2", "A2"]:
                self.unsup(e, "_numba_lfilter_cascade argument kinds " + ",".join(v.kind for v in vals))
            c = self.fresh("c")
            self.emit(f"let {c} := (_numba_lfilter_cascade " + " ".join(self.bind(v) for v in vals) + ")")
            # Numba receives the arrays by reference: a parameter the function stores into is changed IN PLACE in the caller's object
            for k, ret_idx in self.R.inplace_params("_numba_lfilter_cascade", e):
                if vals[k].path is None:
                    a = e.args[k]
                    if isinstance(a, ast.Call) and isinstance(a.func, ast.Attribute) and a.func.attr == "copy" and not a.args:
                        continue      # a fresh copy is modified, nobody else sees it
                    self.unsup(e, f"argument {k + 1} of _numba_lfilter_cascade is modified in place but is not a variable or attribute")
                proj = f"{c}." + ".".join(["2"] * ret_idx + (["1"] if ret_idx < 1 else []))
                self.store(vals[k].path, proj, vals[k].kind, e)
            return Val(c, "T:A,A2")
        if fu == "super().__init__":
            self.unsup(e, "super().__init__ outside the first statements of __init__")
        # --- constructor of a generator class
        if isinstance(f, ast.Name) and f.id in self.R.classes:
            info = self.R.method(f.id, "__init__")
            names = [p for p, _ in info.params if p not in dict(self.R.classes[f.id].extra)]
            if self.R.classes[f.id].extra:
                self.unsup(e, f"constructing a {f.id} needs its filter-design inputs")
            got = self.bind_args(e, names, info.defaults, f.id)
            codes = [self.arg_code(got[p], k, e) for p, k in info.params]
            return Val(f"({info.lean_name} xi " + " ".join(c for c in codes if c) + ")", "OBJ:" + f.id)
        # --- method of an object / of a Generator
        if isinstance(f, ast.Attribute):
            if isinstance(f.value, ast.Name) and f.value.id == "self" and f.attr == "_calc_filter_coeffs":
                return self.calc_filter_coeffs(e)
            if isinstance(f.value, ast.Name) and f.value.id == "self" and self.self_obj is None:
                self.seal(e)
            obj = self.ex(f.value)
            if obj.kind == "RNG":
                return self.rng_call(e, obj, f.attr)
            if obj.kind.startswith("OBJ:"):
                return self.method_call(e, obj, f.attr)
        self.unsup(e, f"call {fu}")

    def arg_code(self, a: ast.AST, kind: str, node) -> str:
        if kind == "SEED":
            if not (isinstance(a, ast.Name) and self.env.get(a.id) == "SEED"):
                self.unsup(node, "a `seed` argument must be this constructor's own `seed` parameter")
            return ""
        v = self.ex(a)
        if kind == "R":
            v = self.to_real(v, node)
        elif kind == "N":
            v = self.to_nat(v, node)
        elif v.kind != kind:
            self.unsup(node, f"argument of kind {v.kind} where {kind} is expected")
        return v.code

    def rng_call(self, e: ast.Call, obj: Val, meth: str) -> Val:
        if meth != "normal":
            self.unsup(e, f"Generator.{meth}")
        if obj.path is None:
            self.unsup(e, "Generator that is not stored in a variable or attribute")
        got = self.bind_args(e, ["loc", "scale", "size"], {"loc": ast.Constant(value=0.0), "scale": ast.Constant(value=1.0),
                                                             "size": ast.Constant(value=None)}, "Generator.normal")
        loc, scale = self.to_real(self.ex(got["loc"]), e), self.to_real(self.ex(got["scale"]), e)
        r = self.fresh()
        if isinstance(got["size"], ast.Constant) and got["size"].value is None:
            self.emit(f"let {r} := NpNG.normal1 xi {obj.code} {loc.code} {scale.code}")
            kind = "R"
        else:
            size = self.to_nat(self.ex(got["size"]), e)
            self.emit(f"let {r} := NpNG.normal xi {obj.code} {loc.code} {scale.code} {size.code}")
            kind = "A"
        self.store(obj.path, f"{r}.2", "RNG", e)
        return Val(f"{r}.1", kind)

    def method_call(self, e: ast.Call, obj: Val, meth: str) -> Val:
        cls = obj.kind[4:]
        if obj.path is None:
            self.unsup(e, "method call on an object that is not stored in a variable or attribute")
        info = self.R.method(cls, meth)
        names = [p for p, _ in info.params]
        got = self.bind_args(e, names, info.defaults, f"{cls}.{meth}")
        args = " ".join(self.arg_code(got[p], k, e) for p, k in info.params)
        r = self.fresh()
        self.emit(f"let {r} := {info.lean_name} xi {obj.code}{' ' + args if args else ''}")
        self.store(obj.path, f"{r}.2", obj.kind, e)
        return Val(f"{r}.1", info.ret)

    def calc_filter_coeffs(self, e: ast.Call) -> Val:
        """`self._calc_filter_coeffs(fmin_vector, fmax_vector)`: the method is elementwise in its two arguments and is translated
        (for one element, `self.fs` as third parameter) as Gen._calc_filter_coeffs in Gen/Noise.lean; here it is applied index by index."""
        found = self.R.find_method(self.cls, "_calc_filter_coeffs")
        if found is None or len(e.args) != 2 or e.keywords:
            self.unsup(e, "_calc_filter_coeffs form")
        selfs = {ast.unparse(n) for n in ast.walk(found[1]) if isinstance(n, ast.Attribute) and isinstance(n.value, ast.Name) and n.value.id == "self"}
        if selfs != {"self.fs"}:
            self.unsup(e, f"_calc_filter_coeffs reads {sorted(selfs)} of the object (expected only self.fs)")
        u, v = self.ex(e.args[0]), self.ex(e.args[1])
        if u.kind != "A" or v.kind != "A":
            self.unsup(e, "_calc_filter_coeffs arguments must be vectors")
        fs = self.ex(ast.Attribute(value=ast.Name(id="self", ctx=ast.Load()), attr="fs", ctx=ast.Load(), lineno=e.lineno))
        a, b = self.bind(u), self.bind(v)
        c = self.fresh("cf")
        self.emit(f"let {c} : Nat → α × α × α := fun i_ => _calc_filter_coeffs ({a}.get i_) ({b}.get i_) {fs.code}")
        return Val(f"((⟨{a}.n, fun i_ => ({c} i_).1⟩ : Arr α), (⟨{a}.n, fun i_ => ({c} i_).2.1⟩ : Arr α), (⟨{a}.n, fun i_ => ({c} i_).2.2⟩ : Arr α))", "T:A,A,A")

    # ------------------------------------------------------------------ statements
    def seal(self, node):
        """all attributes assigned so far become the object's structure; from here on `self` is a value"""
        if self.sealed:
            return
        ci = self.R.classes[self.cls]
        if ci.fields is not None:
            self.unsup(node, "structure sealed twice")
        ci.fields = list(self.init_fields)
        ci.struct = self.cls
        txt = f"/-- attributes assigned by `{self.cls}.__init__` (base classes first), in order of first assignment -/\nstructure {self.cls} (α : Type) where\n"
        txt += "".join(f"  {f} : {lean_ty(k)}\n" for f, k in ci.fields)
        self.R.out.append(txt)
        self.emit(f"let self : {self.cls} α := {{ " + ", ".join(f"{f} := self_{f}" for f, _ in ci.fields) + " }")
        self.self_obj = Val("self", "OBJ:" + self.cls, ["self"])
        self.sealed = True

    def assign_target(self, t: ast.AST, v: Val, node):
        if isinstance(t, ast.Name):
            if t.id == "_":
                return
            if t.id == "self" or t.id in self.R.consts or t.id in self.R.classes:
                self.unsup(node, f"assignment to {t.id}")
            if v.kind in ("CEIL", "SEED") or v.kind.startswith("T:"):
                self.unsup(node, f"a value of kind {v.kind} stored in a variable")
            if t.id in self.env and self.env[t.id] != v.kind:
                self.unsup(node, f"variable {t.id} changes kind from {self.env[t.id]} to {v.kind}")
            self.env[t.id] = v.kind
            self.emit(f"let {t.id} : {lean_ty(v.kind)} := {v.code}")
            return
        if isinstance(t, ast.Attribute) and isinstance(t.value, ast.Name) and t.value.id == "self":
            if v.kind in ("CEIL", "SEED", "U") or v.kind.startswith("T:"):
                self.unsup(node, f"a value of kind {v.kind} stored in an attribute")
            if not self.sealed:
                old = dict(self.init_fields).get(t.attr)
                if old is not None and old != v.kind:
                    self.unsup(node, f"attribute {t.attr} changes kind from {old} to {v.kind}")
                if old is None:
                    self.init_fields.append((t.attr, v.kind))
                self.emit(f"let self_{t.attr} : {lean_ty(v.kind)} := {v.code}")
                return
            fields = self.R.fields_of(self.cls)
            if t.attr not in fields:
                self.unsup(node, f"attribute self.{t.attr} is not one of the attributes __init__ assigns before its first method call")
            if fields[t.attr] != v.kind:
                self.unsup(node, f"attribute {t.attr} of kind {fields[t.attr]} assigned a value of kind {v.kind}")
            self.store(["self", t.attr], v.code, v.kind, node)
            return
        self.unsup(node, f"assignment target {ast.unparse(t)}")

    def assign(self, targets: List[ast.AST], value: ast.AST, node):
        if len(targets) != 1:
            self.unsup(node, "chained assignment")
        t = targets[0]
        v = self.ex(value)
        if isinstance(t, ast.Tuple):
            if not v.kind.startswith("T:"):
                self.unsup(node, "tuple assignment from a value of kind " + v.kind)
            kinds = v.kind[2:].split(",")
            if len(kinds) != len(t.elts):
                self.unsup(node, "tuple assignment arity")
            r = self.fresh("t")
            self.emit(f"let {r} := {v.code}")
            for i, (tt, k) in enumerate(zip(t.elts, kinds)):          # targets are assigned left to right
                proj = f"{r}." + ".".join(["2"] * i + (["1"] if i < len(kinds) - 1 else []))
                self.assign_target(tt, Val(proj, k), node)
            return
        self.assign_target(t, v, node)

    def is_design_stmt(self, s: ast.stmt) -> bool:
        if self.own_cls != DESIGN_CLASS or not self.is_init or not isinstance(s, ast.Assign) or len(s.targets) != 1:
            return False
        tgt = ast.unparse(s.targets[0])
        if tgt not in DESIGN_LOCALS and tgt not in [n for n, _ in DESIGN_INPUTS]:
            return False
        mentioned = set()
        for n in ast.walk(s.value):
            if isinstance(n, ast.Attribute) and isinstance(n.value, ast.Name) and n.value.id == "self":
                mentioned.add("self." + n.attr)
            elif isinstance(n, ast.Name) and n.id != "self":
                mentioned.add(n.id)
        if not mentioned <= DESIGN_MAY_MENTION:
            self.unsup(s, f"filter-design statement mentions {sorted(mentioned - DESIGN_MAY_MENTION)}")
        return True

    def terminates(self, stmts: List[ast.stmt]) -> bool:
        if not stmts:
            return False
        last = stmts[-1]
        if isinstance(last, ast.Return):
            return True
        if isinstance(last, ast.If) and last.orelse:
            return self.terminates(last.body) and self.terminates(last.orelse)
        return False

    def sub_block(self, stmts: List[ast.stmt], fin) -> str:
        """translate `stmts` as a nested block (own line buffer, deeper indentation, variable kinds restored afterwards)"""
        saved = (self.lines, self.ind, dict(self.env), self.self_obj)
        self.lines, self.ind = [], saved[1] + "    "
        try:
            self.block(stmts, fin)
            return "\n".join(self.lines)
        finally:
            self.lines, self.ind, self.env, self.self_obj = saved

    def fallthrough(self) -> str:
        if self.is_init:
            self.seal(self.fn)
            return "self"
        if self.ret_kind is None:
            self.ret_kind = "U"
        if self.ret_kind != "U":
            self.unsup(self.fn, "a path without `return` in a method that returns a value")
        return "((), self)"

    def block(self, stmts: List[ast.stmt], fin):
        for idx, s in enumerate(stmts):
            rest = stmts[idx + 1:]
            if isinstance(s, ast.Expr) and isinstance(s.value, ast.Constant) and isinstance(s.value.value, str):
                continue
            if isinstance(s, ast.If) and len(s.body) == 1 and isinstance(s.body[0], ast.Raise) and not s.orelse:
                self.R.dropped.append(f"noise.py:{s.lineno} `if {ast.unparse(s.test)}: raise …` ({self.own_cls}.{self.fn.name if self.own_cls == self.owner.name else '__init__'})")
                continue
            if self.is_design_stmt(s):
                self.R.dropped.append(f"noise.py:{s.lineno} filter-design statement `{ast.unparse(s.targets[0])} = …` (opaque input of {DESIGN_CLASS}.__init__)")
                continue
            if isinstance(s, ast.Assign):
                self.assign(s.targets, s.value, s)
                continue
            if isinstance(s, ast.AnnAssign) and s.value is not None:
                self.assign([s.target], s.value, s)
                continue
            if isinstance(s, ast.Expr) and isinstance(s.value, ast.Call):
                if self.is_init and ast.unparse(s.value.func) == "super().__init__":
                    self.inline_super(s.value)
                    continue
                v = self.ex(s.value)            # executed for its effect on the object state; the value is discarded
                continue
            if isinstance(s, ast.Return):
                if rest:
                    self.unsup(s, "statements after return")
                if self.is_init:
                    self.unsup(s, "return in __init__")
                if s.value is None:
                    v = Val("()", "U")
                else:
                    v = self.ex(s.value)
                if v.kind in ("CEIL", "SEED"):
                    self.unsup(s, "returned value of kind " + v.kind)
                if self.ret_kind is None:
                    self.ret_kind = v.kind
                if self.ret_kind != v.kind:
                    self.unsup(s, f"returns of different kinds {self.ret_kind}, {v.kind}")
                self.emit(f"({v.code}, self)")
                return
            if isinstance(s, ast.If):
                if not self.sealed:
                    self.seal(s)
                c = self.ex(s.test)
                if c.kind != "B":
                    self.unsup(s, "condition of kind " + c.kind)
                if self.terminates(s.body) and not s.orelse:
                    # if c: …; return x      <rest>      ==>   if c then … else <rest>
                    then_code = self.sub_block(s.body, fin)
                    else_code = self.sub_block(rest, fin)
                    self.emit(f"if {c.code} then\n{then_code}\n{self.ind}else\n{else_code}")
                    return
                if self.terminates(s.body) or self.terminates(s.orelse):
                    self.unsup(s, "if/else where only one side returns")
                # join: the object and the locals assigned in a branch (they must exist before the statement)
                assigned = sorted({t.id for b in (s.body, s.orelse) for n in b for t in ast.walk(n)
                                   if isinstance(t, ast.Name) and isinstance(t.ctx, ast.Store) and t.id != "_"})
                later = {t.id for n in rest for t in ast.walk(n) if isinstance(t, ast.Name) and isinstance(t.ctx, ast.Load)}
                assigned = [a for a in assigned if a in later]       # a variable that is dead after the statement is not carried out of it
                for a in assigned:
                    if a not in self.env:
                        self.unsup(s, f"variable {a} first assigned inside an if and used after it")
                names = ["self"] + assigned
                tup = "(" + ", ".join(names) + ")" if len(names) > 1 else "self"
                j = self.fresh("j")
                then_code = self.sub_block(s.body, lambda: tup)
                else_code = self.sub_block(s.orelse, lambda: tup)
                self.emit(f"let {j} :=\n{self.ind}  if {c.code} then\n{then_code}\n{self.ind}  else\n{else_code}")
                if len(names) == 1:
                    self.emit(f"let self : {self.R.struct_of(self.cls)} α := {j}")
                else:
                    for i, nme in enumerate(names):
                        proj = f"{j}." + ".".join(["2"] * i + (["1"] if i < len(names) - 1 else []))
                        self.emit(f"let {nme} := {proj}")
                continue
            if isinstance(s, ast.For):
                if not self.sealed:
                    self.seal(s)
                if s.orelse or not (isinstance(s.iter, ast.Call) and ast.unparse(s.iter.func) == "range" and len(s.iter.args) == 1 and not s.iter.keywords):
                    self.unsup(s, "for loop other than `for v in range(n)`")
                if not isinstance(s.target, ast.Name):
                    self.unsup(s, "loop target")
                assigned = {t.id for n in s.body for t in ast.walk(n) if isinstance(t, ast.Name) and isinstance(t.ctx, ast.Store) and t.id != "_"}
                if assigned or self.terminates(s.body) or any(isinstance(n, (ast.Break, ast.Continue, ast.Return)) for b in s.body for n in ast.walk(b)):
                    self.unsup(s, f"loop body assigns {sorted(assigned)} / leaves the loop early: only the object may be carried")
                n = self.to_nat(self.ex(s.iter.args[0]), s)
                lv = s.target.id if s.target.id != "_" else "i_"
                saved_env = dict(self.env)
                if s.target.id != "_":
                    self.env[s.target.id] = "N"
                body = self.sub_block(s.body, lambda: "self")
                self.env = saved_env
                self.emit(f"let self : {self.R.struct_of(self.cls)} α := forRange {n.code} self (fun ({lv} : Nat) (self : {self.R.struct_of(self.cls)} α) =>\n{body})")
                continue
            self.unsup(s, f"statement {type(s).__name__}")
        self.emit(fin())

    def inline_super(self, call: ast.Call):
        """`super().__init__(…)`: the base class's __init__ body runs on the object under construction"""
        if self.sealed:
            self.unsup(call, "super().__init__ after the first method call")
        cur = self.R.classes[self.own_cls]
        if not cur.bases:
            self.unsup(call, "super().__init__ in a class without base")
        found = self.R.find_method(cur.bases[0], "__init__")
        if found is None:
            self.unsup(call, "base class has no __init__")
        bci, bfn = found
        params = [a for a in bfn.args.args if a.arg != "self"]
        defaults = dict(zip([a.arg for a in params][len(params) - len(bfn.args.defaults):], bfn.args.defaults))
        got = self.bind_args(call, [a.arg for a in params], defaults, f"{bci.name}.__init__")
        saved_env, saved_own = self.env, self.own_cls
        new_env: Dict[str, str] = {}
        for a in params:
            k = ann_kind(a, bfn)
            if k == "SEED":
                if not (isinstance(got[a.arg], ast.Name) and self.env.get(got[a.arg].id) == "SEED"):
                    self.unsup(call, "a `seed` argument must be this constructor's own `seed` parameter")
                new_env[a.arg] = "SEED"
                continue
            code = self.arg_code(got[a.arg], k, call)
            if a.arg in self.env:
                self.unsup(call, f"parameter {a.arg} of the inlined base __init__ shadows a variable")
            self.emit(f"let {a.arg} : {lean_ty(k)} := {code}")
            new_env[a.arg] = k
        self.env, self.own_cls = new_env, bci.name
        try:
            body = [s for s in bfn.body]
            self.block_no_fin(body)
        finally:
            self.env, self.own_cls = saved_env, saved_own

    def block_no_fin(self, stmts: List[ast.stmt]):
        marker = "\0"
        self.block(stmts, lambda: marker)
        if self.lines and self.lines[-1].strip() == marker:
            self.lines.pop()
        else:
            self.unsup(self.fn, "inlined base __init__ does not fall through")

    # ------------------------------------------------------------------ driver
    def run(self) -> MethodInfo:
        fn, R = self.fn, self.R
        args = fn.args
        if args.vararg or args.kwarg or args.kwonlyargs or args.posonlyargs or not args.args or args.args[0].arg != "self":
            self.unsup(fn, "parameter list")
        params = args.args[1:]
        defaults = dict(zip([a.arg for a in params][len(params) - len(args.defaults):], args.defaults))
        sig: List[Tuple[str, str]] = []
        for a in params:
            k = ann_kind(a, fn)
            self.env[a.arg] = k
            sig.append((a.arg, k))
        ci = R.classes[self.cls]
        lean_name = f"{self.cls}.{self.name}"
        body = [s for s in fn.body if not (isinstance(s, ast.Expr) and isinstance(s.value, ast.Constant) and isinstance(s.value.value, str))]
        # an alias class: __init__ is exactly `super().__init__(…)` and assigns nothing itself -> same structure as its base
        if self.is_init and len(body) == 1 and isinstance(body[0], ast.Expr) and isinstance(body[0].value, ast.Call) \
                and ast.unparse(body[0].value.func) == "super().__init__" and ci.bases and self.owner.name == self.cls:
            base = ci.bases[0]
            binfo = R.method(base, "__init__")
            bextra = R.classes[base].extra
            ci.extra = list(bextra)
            for n, k in bextra:
                self.env[n] = k
            names = [p for p, _ in binfo.params if p not in dict(bextra)]
            got = self.bind_args(body[0].value, names, binfo.defaults, f"{base}.__init__")
            for n, _ in bextra:
                got[n] = ast.Name(id=n, ctx=ast.Load())
            codes = [self.arg_code(got[p], k, body[0].value) for p, k in binfo.params]
            if self.lines:
                self.unsup(fn, "effectful argument in super().__init__(…)")
            ci.struct = R.struct_of(base)
            full_sig = sig + list(bextra)
            decl = " ".join(f"({p} : {lean_ty(k)})" for p, k in full_sig if k != "SEED")
            R.out.append(f"/-- `{self.cls}` assigns no attribute of its own: an object of this class is a `{ci.struct}` -/\nabbrev {self.cls} (α : Type) := {ci.struct} α\n")
            R.out.append(f"/-- noise.py:{fn.lineno}-{fn.end_lineno} `{self.cls}.__init__` -/\ndef {lean_name} (xi : Nat → α) {decl} : {self.cls} α :=\n"
                         f"  {binfo.lean_name} xi " + " ".join(c for c in codes if c) + "\n")
            R.translated.append(f"{self.cls}.__init__ noise.py:{fn.lineno}-{fn.end_lineno}")
            return MethodInfo(lean_name, full_sig, "OBJ:" + self.cls, defaults)
        if self.is_init:
            if self.owner.name != self.cls:          # inherited __init__ without own one: not needed for noise.py
                self.unsup(fn, "class without its own __init__")
            if self.cls == DESIGN_CLASS:
                ci.extra = []
                for n, k in DESIGN_INPUTS:
                    if n.startswith("self."):
                        self.init_fields.append((n[5:], k))
                        ci.extra.append(("self_" + n[5:], k))
                    else:
                        self.env[n] = k
                        ci.extra.append((n, k))
            self.block(body, self.fallthrough)
            ret = "OBJ:" + self.cls
            full_sig = sig + list(ci.extra)
            rty = f"{self.cls} α"
        else:
            R.struct_of(self.cls)
            self.self_obj = Val("self", "OBJ:" + self.cls, ["self"])
            self.block(body, self.fallthrough)
            ret = self.ret_kind or "U"
            full_sig = sig
            rty = f"{lean_ty(ret)} × {R.struct_of(self.cls)} α" if " " not in lean_ty(ret) else f"({lean_ty(ret)}) × {R.struct_of(self.cls)} α"
        decl = " ".join(f"({p} : {lean_ty(k)})" for p, k in full_sig if k != "SEED")
        selfdecl = "" if self.is_init else f" (self : {R.struct_of(self.cls)} α)"
        where = f"noise.py:{fn.lineno}-{fn.end_lineno} `{self.owner.name}.{self.name}`" + ("" if self.owner.name == self.cls else f" as inherited by `{self.cls}`")
        R.out.append(f"/-- {where} -/\ndef {lean_name} (xi : Nat → α){selfdecl}{' ' + decl if decl else ''} : {rty} :=\n" + "\n".join(self.lines) + "\n")
        R.translated.append(f"{self.cls}.{self.name} <- {self.owner.name}.{self.name} noise.py:{fn.lineno}-{fn.end_lineno}")
        return MethodInfo(lean_name, full_sig, ret, defaults)


def generate(repo: str) -> Tuple[str, List[str]]:
    path = os.path.join(repo, SOURCES[0])
    head = HEADER.format(src=SOURCES[0], sha=sha_of(path)).replace("/verif/vk/translate.py", "/verif/vk/regions/noise_gens.py")
    head = head.replace("import SpecKitV.Num\n", "import SpecKitV.Num\nimport SpecKitV.Gen.Noise\nimport SpecKitV.Np.NoiseGens\n")
    errors: List[str] = []
    try:
        R = Region(path)
    except (Unsupported, SyntaxError) as ex:
        msg = str(ex).replace("-/", "- /")
        return head + f"/- UNSUPPORTED region: {msg} -/\ndef region_NoiseGens_UNSUPPORTED : Nat := translation_failed_NoiseGens\n\nend Gen\n", [f"region: {ex}"]
    failed = R.failed
    for cls in CLASSES:
        n_out, n_tr = len(R.out), len(R.translated)
        names = ["__init__"] + METHODS
        try:
            if cls not in R.classes:
                raise Unsupported(f"class {cls} not found")
            for ci in R.mro(cls):
                if ci.name in failed:
                    raise Unsupported(f"base class {ci.name} is not translated ({failed[ci.name]})")
            for m in names:
                if m != "__init__" and R.classes[cls].struct not in (None, cls) and not any(x in R.classes[cls].methods for x in METHODS):
                    continue          # an alias class that overrides none of the methods: they ARE the base class's definitions
                if m != "__init__" and R.find_method(cls, m) is None:
                    if m == "_settle_filter_state" and cls == "white_noise":
                        continue
                    raise Unsupported(f"{cls} has no method {m}")
                R.method(cls, m)
        except Unsupported as ex:
            # the class is translated as a whole or not at all: discard everything emitted for it, one failing stub per method
            del R.out[n_out:]
            del R.translated[n_tr:]
            for key in [k for k in R.done if k[0] == cls]:
                del R.done[key]
            if cls in R.classes:
                R.classes[cls].fields, R.classes[cls].struct = None, None
            failed[cls] = str(ex)
            errors.append(f"{cls}: {ex}")
            msg = str(ex).replace("-/", "- /")
            R.out.append(f"/- UNSUPPORTED {cls}: {msg} -/\ndef {cls}_UNSUPPORTED : Nat := translation_failed_{cls}\n")
    consts = ""
    for c in R.used_consts:
        consts += f"/-- noise.py:{R.const_lines[c]} `{c} = {R.consts[c]}` -/\ndef {c} : {'Nat' if R.consts[c] >= 0 else 'Int'} := {R.consts[c]}\n\n"
    doc = "/-!\nTranslated (method <- defining class, source lines):\n" + "".join(f"  {t}\n" for t in R.translated)
    doc += "Dropped as value-irrelevant / outside the region:\n" + "".join(f"  {d}\n" for d in sorted(set(R.dropped))) + "-/\n\n"
    return head + doc.replace("-/\n\n", "-/\n\n", 1) + consts + "\n".join(R.out) + "\nend Gen\n", errors
