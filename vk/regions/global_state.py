"""Region GlobalState — state that outlives a call, per source file (mine; reasoning-only: nothing here is executed by the driver).

Every property of the list quantifies over call HISTORIES at least implicitly: a plan is a function of its arguments, a spectrum a function of the record and
the options, a noise stream a function of parameters and seed.  Five stored changes broke exactly that through state placed OUTSIDE the objects the models
track: a class-level basis cache (C01g), a class-level `config` dict shared by all analyzers (C12g), a module-level table of settled filter states (C17g),
`functools.lru_cache` on the schedulers returning one mutable dict (C03g), a class-level `_cache` default behind `__getstate__` (C20g); a sixth changed a
decorator flag (`parallel=True` on the reducer, C14e).  The hand models and the translated regions describe instance state (`_plan_cache`, `_cache`, `_zi`,
`_buffer`) and function bodies; they say nothing about whether the MODULE has state.  This region closes that: from the AST of every library file it lists

    * module-level and class-level bindings of mutable containers (dict / list / set literals and comprehensions, dict()/list()/set()/defaultdict/…,
      NumPy array constructors),
    * every decorator of every function and method, verbatim (memoisers — lru_cache, cache, cached_property — and the JIT flags parallel / fastmath / cache),
    * mutable default arguments, `global` declarations, stores to class attributes from inside functions (`Cls.x = …`, `cls.x`, `type(self).x`), `setattr`,

as sorted lists of strings `Gen.globalState_<file>`.  `Props/GlobalStateGen.lean` states that each list EQUALS the audited list of the pinned source (the
library has no module- or class-level mutable state beyond constant tables, and exactly the stated decorators); `rfl` re-checks it against the current source
on every run.  A new cache, shared dict, memoiser or decorator flag changes the generated list and breaks the obligation of every property anchored in that
file — the failing-input search then runs the property's history / twin-instance streams intensively.  A new CONSTANT table (harmless) also changes the
list: that is reported as `no-failing-input-found`, per DESIGN §2.7.
"""
from __future__ import annotations

import ast
import os
from typing import List, Tuple

from ..translate import sha_of

REGION = "GlobalState"
FILES = ["core", "core_cuda", "analysis", "flattop", "schedulers", "utils", "noise", "dsp", "systems", "__init__"]
SOURCES = [f"speckit/{f}.py" for f in FILES]

MUT_CALLS = {"dict", "list", "set", "defaultdict", "OrderedDict", "deque", "Counter", "bytearray", "WeakValueDictionary", "WeakKeyDictionary"}
NP_CTORS = {"zeros", "empty", "ones", "array", "arange", "full", "zeros_like", "empty_like", "ones_like", "linspace"}


def _mutable(v) -> bool:
    if isinstance(v, (ast.Dict, ast.List, ast.Set, ast.ListComp, ast.DictComp, ast.SetComp)):
        return True
    if isinstance(v, ast.Call):
        f = v.func
        n = f.id if isinstance(f, ast.Name) else (f.attr if isinstance(f, ast.Attribute) else "")
        return n in MUT_CALLS or n in NP_CTORS
    return False


def scan(path: str) -> List[str]:
    t = ast.parse(open(path).read())
    out = []
    classes = {n.name for n in ast.walk(t) if isinstance(n, ast.ClassDef)}

    def level(body, where):
        for st in body:
            if isinstance(st, (ast.Assign, ast.AnnAssign)):
                v = st.value
                tg = st.targets if isinstance(st, ast.Assign) else [st.target]
                if v is not None and _mutable(v):
                    for g in tg:
                        out.append(f"{where}:{ast.unparse(g)}:mutable-{type(v).__name__}")
            if isinstance(st, ast.ClassDef):
                level(st.body, where + "." + st.name)
            if isinstance(st, (ast.If, ast.Try, ast.With)):
                for fld in ("body", "orelse", "finalbody"):
                    level(getattr(st, fld, []) or [], where)
                for h in getattr(st, "handlers", []) or []:
                    level(h.body, where)

    level(t.body, "module")
    for n in ast.walk(t):
        if isinstance(n, (ast.FunctionDef, ast.AsyncFunctionDef)):
            for d in n.decorator_list:
                out.append(f"func:{n.name}:decorator-{ast.unparse(d)}")
            a = n.args
            pairs = list(zip(a.args[len(a.args) - len(a.defaults):], a.defaults)) + [(k, d) for k, d in zip(a.kwonlyargs, a.kw_defaults) if d is not None]
            for arg, dflt in pairs:
                if _mutable(dflt):
                    out.append(f"func:{n.name}:mutable-default-{arg.arg}")
            for m in ast.walk(n):
                if isinstance(m, ast.Global):
                    out.append(f"func:{n.name}:global-{','.join(m.names)}")
                if isinstance(m, (ast.Assign, ast.AugAssign, ast.AnnAssign)):
                    tg = m.targets if isinstance(m, ast.Assign) else [m.target]
                    for g in tg:
                        b = g
                        while isinstance(b, ast.Subscript):
                            b = b.value
                        if isinstance(b, ast.Attribute):
                            base = ast.unparse(b.value)
                            if base in classes or base in ("cls", "type(self)", "self.__class__"):
                                out.append(f"func:{n.name}:class-attr-store-{ast.unparse(b)}")
                if isinstance(m, ast.Call) and isinstance(m.func, ast.Name) and m.func.id == "setattr":
                    out.append(f"func:{n.name}:setattr")
        if isinstance(n, ast.ClassDef):
            for d in n.decorator_list:
                out.append(f"class:{n.name}:decorator-{ast.unparse(d)}")
    return sorted(set(out))


def _lean_str(s: str) -> str:
    return '"' + s.replace("\\", "\\\\").replace('"', '\\"') + '"'


def generate(repo: str) -> Tuple[str, List[str]]:
    out = "/-\n  GENERATED by /verif/vk/regions/global_state.py from " + ", ".join(SOURCES) + ".\n"
    errors: List[str] = []
    body = ""
    for f in FILES:
        path = os.path.join(repo, "speckit", f + ".py")
        name = "globalState_" + f.strip("_")
        try:
            items = scan(path)
            out += f"  {f}.py sha256 {sha_of(path)}\n"
            body += f"/-- state that outlives a call, and every decorator, in speckit/{f}.py -/\ndef {name} : List String := [" + ", ".join(_lean_str(s) for s in items) + "]\n\n"
        except Exception as ex:  # missing / unparsable file: the obligation must fail, never be skipped
            errors.append(f"{f}.py: {ex!r}")
            body += f"def {name} : List String := translation_failed_globalState_{f.strip('_')}\n\n"
    out += "  Do not edit: regenerated from /repo's current source on every check run.\n-/\n\nnamespace Gen\n\n" + body + "end Gen\n"
    return out, errors
