"""C14 — results do not depend on thread scheduling or on call history.

Sub-claims and where each is checked (all comparisons are bit-for-bit: both sides run the SAME code on the SAME inputs,
only the schedule / the call history / the access order differs):
  threads    same analysis under numba.set_num_threads(t) x numba.parallel_chunksize(c)      -> XX, YY, XY, M2 identical
  kernel     the six speckit.core._stats_* Numba kernels on one K~2000-segment bin under the same sweep
  history    op sequences over {plan, compute, compute_single_bin(args)} on ONE analyzer: every output equals the output of
             the same op on a FRESH analyzer built from identical arguments; earlier outputs are not changed by later calls;
             the cached plan is returned unchanged
  attrs      all attribute names of a result, accessed in a permutation / the reversed permutation / another permutation /
             alone first / after to_dataframe(): same value; second access: unchanged; nothing returned earlier, no base
             array and no cached plan array is modified by a later access
  isolation  analysis A, then B (one option changed), then A again in this process; B then A in a clean process
  leak       a cached plan must not leak into other analyses: single bins requested AT THE PLAN'S OWN segment lengths (always some of
             the bins whose scheduled starts differ from the single-bin segmentation rule), at other frequencies with those lengths and
             at lengths not in the plan, by L= and by fres=, before any plan exists / after plan() / after compute() (any order, with
             and without a band, four schedulers + custom callables, auto/numpy/numba backends): raw fields (D included) and every
             derived attribute identical in all stages and identical to an analyzer that never planned; conversely plan()/compute()
             after single-bin calls = plan()/compute() of a fresh analyzer, repeated compute() unchanged
"""
from __future__ import annotations

import copy
import hashlib
import json
import logging
import os
import subprocess
import sys
import time
import warnings
from typing import Any, Dict, List, Optional, Tuple

import numpy as np

from .. import common as C
from . import _an

PROP = "C14"
# obligations of the properties this one is downstream of are obligations of this check too (vk.runner.collect_obligations)
UPSTREAM = ["C05"]
GEN_REGIONS = ["CoreKernels", "Attrs", "ConfigGlue", "ResultQueries", "KernelHeap", "GlobalState", "ResultPurity"]
THEOREMS = {
    # the lazy attribute cache PROTOCOL of SpectrumResult.__getattr__ as translated each run (region ResultQueries) is the model lazyGet/lazyRun:
    # access-order independence and "cached values are returned unchanged" are theorems about the translated code
    "SpecKitV.Props.ResultQueriesGen": ["gen_getattr_eq_model", "gen_getattr_run_eq_model", "gen_lazy_cache_sound", "gen_lazy_run_empty", "gen_lazy_order_independent", "gen_lazy_run_dynamic", "gen_getattr_formula_first"],
    # no NumPy kernel writes into the record it is handed (so a later call on the same analyzer sees the same data)
    "SpecKitV.Props.KernelHeapGen": ["np_kernels_write_no_caller_buffer", "cRun_sub_aRun", "np_kernels_abstract_clean"],
    "SpecKitV.Props.C14": ["Par.prange_any_schedule", "Par.prange_schedules_agree", "Par.prange_frame"],
    "SpecKitV.Lemmas.AnalyzerGlue": [
        "Model.planStep_fresh_ok", "Model.history_independent", "Model.history_independent_list", "Model.plan_cached_unchanged",
        "Model.lazyGet_sound", "Model.lazyRun_sound", "Model.lazyRun_empty", "Model.lazy_order_independent", "Model.lazy_order_perm",
        "Model.lazyGet_cached", "Model.coreLoop_eq_map"],
    # the decision and state logic of SpectrumAnalyzer as TRANSLATED from analysis.py each run (Gen/ConfigGlue.lean) = the hand model / specification
    "SpecKitV.Props.ConfigGlueGen": [
        "ConfigGlue.gen_cg_plan_eq_model", "ConfigGlue.gen_plan_cached_unchanged", "ConfigGlue.gen_step_eq_model", "ConfigGlue.gen_run_eq_model",
        "ConfigGlue.gen_history_independent_list", "ConfigGlue.gen_history_independent", "ConfigGlue.gen_history_dependent_after_failure",
        "ConfigGlue.gen_sched_eq_spec", "ConfigGlue.gen_sched_new_ltf", "ConfigGlue.gen_sched_callable",
        "ConfigGlue.gen_request_eq_spec", "ConfigGlue.gen_request_L_exact", "ConfigGlue.gen_request_fres", "ConfigGlue.gen_request_fres_not_exact",
        "ConfigGlue.gen_window_eq_spec", "ConfigGlue.kaiser_rov_range", "ConfigGlue.kaiser_alpha_ge_half", "ConfigGlue.gen_window_kaiser",
        "ConfigGlue.gen_window_explicit_olap", "ConfigGlue.gen_window_explicit_olap_ok", "ConfigGlue.gen_window_final_olap_range_partial",
        "ConfigGlue.gen_window_final_olap_negative"],
    # no state outlives a call in the files this property is anchored in (no module/class-level containers, memoisers, mutable defaults) and the
    # decorators are exactly the audited ones (region GlobalState, re-scanned from the current source each run)
    "SpecKitV.Props.GlobalStateGen": ["GlobalStateGen.gen_globalState_core", "GlobalStateGen.gen_globalState_analysis", "GlobalStateGen.gen_globalState_init"],
    # no method of a result writes in place an array its cache holds (region ResultPurity: buffer effects of every SpectrumResult method, regenerated
    # each run) — the quantities of this property are read off that cache, in any order, possibly after plot() / get_measurement() / to_dataframe()
    "SpecKitV.Props.ResultPurityGen": ["gen_result_methods_write_no_cached_array", "gen_result_methods_pure", "gen_session_pure", "cRun_clean_of_clean"],
}
CONTRACTS = [
    "Numba's prange executes every iteration of the loop body at least once, each as the sequential body with its own private scalars "
    "(parfor semantics); the premise 'every prange loop is a map loop' (stores only at [j], nothing carried, no read of a written array) "
    "is certified by the translator on every run: vk/translate.py raises Unsupported otherwise and region CoreKernels fails",
    "_reduce_stats_nb (np.mean reductions) runs after the parallel loop, in one thread (it is a separate non-parallel njit function)",
    # region ConfigGlue (lean/SpecKitV/Np/ConfigGlue.lean): the Python-object vocabulary of the translated glue, each a stated contract
    "CG.PyVal.float? = Python float(v): None raises, bool/int/float convert, a str is parsed by a PARAMETER (the harness supplies CPython's answer)",
    "CG.PyVal.eqStr = `v == 'literal'` (only a str equals a string literal); CG.PyObj = isinstance(x, str) / callable(x) as constructor tests",
    "CG.WinFn / CG.SchedId = callables compared BY IDENTITY (numpy.kaiser, scipy.signal.windows.kaiser, numpy.hanning, the four schedulers, "
    "anything else `custom id`); CG.SchedId.name = f.__name__ (a `def f` has __name__ 'f')",
    "CG.dictHas / dictGet? / dictHasOpt / dictGetOpt? = `k in d`, `d[k]` on insertion-ordered dicts with string keys (integer keys of olap_dict are "
    "never hit by a str); CG.is_function_in_dict / get_key_for_function = the two three-line helpers of utils.py",
    "CG.strLower = str.lower() on ASCII strings; CG.isfinite x = (x - x == 0) = np.isfinite(x) (false exactly for ±inf, NaN)",
    "CG.SchedKw = the keyword arguments of a scheduler call (a structure: **kwargs are order-free); CG.SchedFn.call = the scheduler as a function "
    "of its keyword arguments returning a plan or raising; the Jdes search is a function parameter (instantiated in the driver by the TRANSLATED "
    "utils.find_Jdes_binary_search on the recorded bin counts)",
    "CG.runSteps / `step i`: statement number i of the tail of plan() after the scheduler call (validation, dtype normalisation, band mask, final "
    "check) is an OPAQUE function of the plan object that may raise; the translator checks on the AST that none of them touches _plan_cache, "
    "writes self / self.config, reads config['Jdes'], returns, or rebinds the plan object (so the cached object keeps its identity)",
    "plan objects are non-empty dicts (truthy): hypothesis hT of the ConfigGlue theorems, used only if the source tests the cache by truthiness",
]
ASSUMPTIONS = [
    "the hardware memory model, LLVM code generation (fastmath vectorisation, false sharing) and the Numba threading layer are NOT modelled: "
    "Par.prange_* are statements about sequences of single-index writes; that a real parallel execution is such a sequence is the contract above, "
    "supported only by the measured thread-count x chunk-size sweep on this machine",
    "the analyzer / lazy-attribute state machines (Model.AState, Model.lazyGet) are abstract hand models with no driver op; they are tied to the code "
    "by running the real objects against the model's prediction (history_independent_list: output = output on a fresh analyzer; "
    "lazyRun_empty: value = eval name whatever the access order), bit-for-bit",
    "history independence is proved (and checked) for histories without failing calls; after a call raised, later calls are not compared",
    "the comparison with a clean interpreter (isolation) assumes the same Numba cache / CPU in the child process",
    "CUDA kernels are outside this property's runs (no device); their grid/thread-index map premise belongs to C01",
]
RULE = ("threads: (order in -1..2) x (auto|cross) analyses with many segments per bin (N=20000, high overlap) x thread counts {1,2,3,ncpu/2,ncpu} x "
        "chunk sizes {0,1,5,64}; non-trivial = some bin has K >= 2*threads. history: random option sets (4 schedulers, band, force_target_nf, "
        "backend, layouts, degenerate records) x random op sequences (length <= 12) over plan/compute/single-bin; distinct by "
        "(scheduler, order, cross, force, band, op-kind sequence); non-trivial = at least two successful ops on the shared analyzer. "
        "attrs: results from compute / single-bin / constructed edge bins x random permutations; distinct by (source, mode, bins, permutation); "
        "non-trivial = at least two names with array values. isolation: distinct by the option that differs between A and B. "
        "leak: (6 schedulers incl. two custom callables) x (auto|numpy|numba) x records of 2000..20000 samples x phase lists over plan/compute x band or none; "
        "single-bin probes = the plan's own (f_j, L_j) [bins whose scheduled starts differ from round(k*(N-L)/(K-1)) first], other frequencies at plan "
        "lengths, lengths not in the plan, by L= and fres=; distinct by (scheduler, backend, order, cross, band, differing-bin probed, phases); "
        "non-trivial = a probe at a plan length evaluated in at least two stages")

RAW = ["f", "r", "b", "L", "K", "navg", "D", "O", "XX", "YY", "XY", "S12", "S2", "M2"]
STAT = ["XX", "YY", "XY", "M2", "S12", "S2"]
PLAN_KEYS = ["f", "r", "b", "L", "K", "navg", "D", "O", "nf"]
KERNELS = ["_stats_win_only_auto", "_stats_win_only_csd", "_stats_detrend0_auto", "_stats_detrend0_csd", "_stats_poly_auto", "_stats_poly_csd"]
NO_DRIVER_ATTR = {"cf_rad_unwrapped", "cf_deg_unwrapped"}     # cross-bin attributes: not in the per-bin generated table
CHECKS = ("threads", "kernel", "history", "attrs", "isolation", "leak")
LIBERR = (Exception, SystemExit)      # ltf_plan calls sys.exit(-1) when it produces no frequency: an error outcome like any other here


# ------------------------------------------------------------------------------------------------ bit-level signatures
class quiet:
    """no warnings / log lines from the library while a case runs (restored afterwards)"""

    def __enter__(self):
        self.w = warnings.catch_warnings()
        self.w.__enter__()
        warnings.simplefilter("ignore")
        self.e = np.errstate(all="ignore")
        self.e.__enter__()
        self.lv = logging.root.manager.disable
        logging.disable(logging.CRITICAL)
        return self

    def __exit__(self, *a):
        logging.disable(self.lv)
        self.e.__exit__(*a)
        self.w.__exit__(*a)


def sig(v: Any):
    """bit pattern of a value (dtype, shape, bytes): distinguishes -0.0 from 0.0 and NaN payloads, equal iff identical"""
    if v is None:
        return ("none",)
    if isinstance(v, np.ndarray):
        if v.dtype == object:
            return ("objarr", v.shape, tuple(sig(e) for e in v.reshape(-1)))
        a = np.ascontiguousarray(v)
        return ("arr", a.dtype.str, v.shape, a.tobytes())
    if isinstance(v, (list, tuple)):
        return ("seq", tuple(sig(e) for e in v))
    if isinstance(v, dict):
        return ("dict", tuple((str(k), sig(v[k])) for k in sorted(v, key=str)))
    if isinstance(v, (bool, np.bool_)):
        return ("bool", bool(v))
    if isinstance(v, (int, np.integer)):
        return ("int", int(v))
    if isinstance(v, (float, np.floating)):
        return ("f", C.f2h(float(v)))
    if isinstance(v, (complex, np.complexfloating)):
        return ("c", C.f2h(complex(v).real), C.f2h(complex(v).imag))
    return ("repr", repr(v))


def digest(s) -> str:
    return hashlib.sha256(repr(s).encode()).hexdigest()[:24]


def diff(a: Any, b: Any) -> str:
    """one line saying where two values differ"""
    try:
        if a is None or b is None:
            return f"{'None' if a is None else type(a).__name__} vs {'None' if b is None else type(b).__name__}"
        if isinstance(a, np.ndarray) and isinstance(b, np.ndarray) and a.dtype != object and b.dtype != object:
            if a.shape != b.shape or a.dtype != b.dtype:
                return f"shape/dtype {a.shape}{a.dtype} vs {b.shape}{b.dtype}"
            fa, fb = a.reshape(-1), b.reshape(-1)
            for i in range(fa.size):
                if sig(fa[i:i + 1]) != sig(fb[i:i + 1]):
                    n = sum(1 for k in range(fa.size) if sig(fa[k:k + 1]) != sig(fb[k:k + 1])) if fa.size <= 5000 else -1
                    return f"[{i}]: {fa[i]!r} vs {fb[i]!r} ({n} of {fa.size} elements differ)"
            return "no element differs (flags only)"
        if isinstance(a, (list, tuple, np.ndarray)) and isinstance(b, (list, tuple, np.ndarray)):
            if len(a) != len(b):
                return f"length {len(a)} vs {len(b)}"
            for i in range(len(a)):
                if sig(a[i]) != sig(b[i]):
                    return f"element {i}: " + diff(np.asarray(a[i]), np.asarray(b[i]))
        return f"{a!r} vs {b!r}"[:160]
    except Exception as ex:  # a description must never break the check
        return f"(differs; no description: {ex!r})"


# ------------------------------------------------------------------------------------------------ cases
def mk_data(p: Dict[str, Any]) -> np.ndarray:
    rng = np.random.default_rng([int(p["dseed"]), 14])
    N = int(p["N"])
    x1 = _an.record(rng, N, p.get("kind", "noise"))
    if not p["cross"]:
        return x1
    x2 = 0.6 * np.roll(x1, 3) + 0.8 * _an.record(rng, N, p.get("kind2", "noise"))
    d = np.vstack([x1, x2])
    return d if p.get("layout", "2xN") == "2xN" else np.ascontiguousarray(d.T)


def channels(p):
    d = mk_data(p)
    if not p["cross"]:
        return d, None
    d = d if p.get("layout", "2xN") == "2xN" else d.T
    return np.ascontiguousarray(d[0]), np.ascontiguousarray(d[1])


def _sched_floor(**kw):
    """a user-supplied scheduler: the bins of ltf_plan, segment starts by FLOOR of k*shift (a valid plan whose starts differ from the
    single-bin rule wherever k*shift has a fractional part >= 1/2)"""
    from speckit import schedulers as S
    out = S.ltf_plan(**kw)
    N = int(kw["N"])
    D = []
    for L, K in zip(out["L"], out["K"]):
        L, K = int(L), int(K)
        D.append(np.zeros(1, dtype=np.int64) if K <= 1 else np.floor(np.arange(K) * ((N - L) / (K - 1))).astype(np.int64))
    out["D"] = D
    return out


def _sched_irregular(**kw):
    """a user-supplied scheduler: the bins of vectorized_ltf_plan with one segment more per bin (where the record allows), segment starts
    irregular (sorted, in range, a fixed function of (N, L, K)): neither K nor D is what the single-bin rule gives for that length"""
    from speckit import schedulers as S
    out = S.vectorized_ltf_plan(**kw)
    N = int(kw["N"])
    D, Ks = [], []
    for L, K in zip(out["L"], out["K"]):
        L, K = int(L), int(K)
        K = K + 1 if L < N else K
        r = np.random.default_rng([N, L, K, 1416])
        D.append(np.sort(r.integers(0, N - L + 1, size=K)).astype(np.int64))
        Ks.append(K)
    out["D"] = list(D)
    out["K"] = np.asarray(Ks, dtype=np.int64)
    out["navg"] = np.asarray(Ks, dtype=np.int64)
    return out


CUSTOM_SCHEDS = {"custom:floor": _sched_floor, "custom:irregular": _sched_irregular}


def mk_analyzer(p: Dict[str, Any]):
    o = dict(p["opts"])
    if o.get("band") is not None:
        o["band"] = (float(o["band"][0]), float(o["band"][1]))
    if isinstance(o.get("scheduler"), str) and o["scheduler"] in CUSTOM_SCHEDS:      # payloads are JSON: a custom callable is named by a token
        o["scheduler"] = CUSTOM_SCHEDS[o["scheduler"]]
    return _an.analyzer(mk_data(p), float(p["fs"]), **o)


def gen_case(rng: np.random.Generator, edge: bool = False, nmax: int = 3000) -> Dict[str, Any]:
    if edge:
        N = int(rng.choice([3, 4, 5, 8, 16, 33]))
    else:
        N = int(rng.choice([int(rng.integers(150, 900)), int(rng.integers(900, nmax))]))
    fs = float(rng.choice([1.0, 2.0, 100.0, float(rng.uniform(0.5, 1e3))]))
    cross = bool(rng.integers(0, 2))
    o = _an.options(rng, N)
    if rng.random() < 0.15:
        o["olap"] = "default"
    if rng.random() < 0.25:
        o["force_target_nf"] = True
    if rng.random() < 0.3 and not edge:
        o["band"] = [fs * float(rng.uniform(0.004, 0.08)), fs * float(rng.uniform(0.15, 0.5))]
    if rng.random() < 0.25:
        o["backend"] = str(rng.choice(["numpy", "numba"]))
    kinds = ["zero", "const"] if (edge and rng.random() < 0.6) else ["noise", "offset", "drift", "red", "tone"]
    p = {"dseed": int(rng.integers(0, 2 ** 31 - 1)), "N": N, "fs": fs, "cross": cross, "kind": str(rng.choice(kinds)),
         "kind2": str(rng.choice(kinds)), "layout": str(rng.choice(["2xN", "Nx2"])), "opts": o}
    if p["opts"].get("force_target_nf"):
        p["N"] = int(rng.integers(150, 500))                 # the Jdes search calls the scheduler ~20 times per fresh analyzer
        if p["opts"]["scheduler"] == "vectorized_ltf" and rng.random() < 0.85:     # ... and its lookup grid has 10*Jdes points (seconds per plan)
            p["opts"]["scheduler"] = str(rng.choice(["ltf", "lpsd", "new_ltf"]))
        if rng.random() < 0.9:
            force_target(p, int(rng.integers(100, 300)))
    return p


def force_target(p: Dict[str, Any], J: int) -> None:
    """force_target_nf with a bin count that some Jdes in the search range [100, 1e6] really produces (the search wants an exact match)"""
    q = copy.deepcopy(p)
    q["opts"].pop("force_target_nf", None)
    q["opts"].pop("band", None)
    q["opts"]["Jdes"] = int(J)
    p["opts"]["force_target_nf"] = True
    with quiet():
        try:
            p["opts"]["Jdes"] = int(len(mk_analyzer(q).plan()["f"]))
        except LIBERR:
            p["opts"]["Jdes"] = int(J)


def gen_ops(rng: np.random.Generator, p: Dict[str, Any], n: int) -> List[List[Any]]:
    N, fs = int(p["N"]), float(p["fs"])
    ops: List[List[Any]] = []
    for _ in range(n):
        k = int(rng.integers(0, 5))
        if k <= 1:
            ops.append(["plan"])
        elif k == 2:
            ops.append(["compute"])
        else:
            L = int(rng.choice([N, max(1, N // 2), int(rng.integers(1, N + 1)), int(rng.integers(max(1, N // 30), max(2, N // 3)))]))
            L = max(1, min(N, L))
            freq = float(rng.choice([0.0, fs * int(rng.integers(0, L // 2 + 1)) / L, float(rng.uniform(0, fs / 2))]))
            if rng.random() < 0.5:
                ops.append(["single", freq, "L", L])
            else:
                ops.append(["single", freq, "fres", fs / L])
    return ops


def run_op(an, op: List[Any]):
    with quiet():
        try:
            if op[0] == "plan":
                return ("ok", "plan", an.plan())
            if op[0] == "compute":
                return ("ok", "result", an.compute())
            if op[0] == "single":
                kw = {"L": int(op[3])} if op[2] == "L" else {"fres": float(op[3])}
                return ("ok", "result", an.compute_single_bin(float(op[1]), **kw))
            raise ValueError(f"unknown op {op!r}")
        except LIBERR as ex:
            return ("err", type(ex).__name__, str(ex)[:160])


def fresh_op(p: Dict[str, Any], op: List[Any]):
    """the op on a newly constructed analyzer (constructor failures are an error outcome too)"""
    with quiet():
        try:
            an = mk_analyzer(p)
        except LIBERR as ex:
            return ("err", type(ex).__name__, "constructor: " + str(ex)[:140])
    return run_op(an, op)


def out_vals(o) -> Dict[str, Any]:
    """the compared fields of an op output (live objects)"""
    if o[0] != "ok":
        return {}
    if o[1] == "plan":
        return {k: o[2].get(k) for k in PLAN_KEYS}
    with quiet():
        return {k: getattr(o[2], k) for k in RAW}


def out_sigs(o) -> Dict[str, Any]:
    return {k: sig(v) for k, v in out_vals(o).items()}


# ------------------------------------------------------------------------------------------------ (1) thread schedules
def max_threads() -> int:
    import numba
    return int(numba.config.NUMBA_NUM_THREADS)


def thread_counts() -> List[int]:
    m = max_threads()
    return sorted({t for t in (1, 2, 3, m // 2, m) if 1 <= t <= m})


_CHUNK_NOTE: List[str] = []


def with_schedule(t: int, c: Optional[int], fn):
    """run fn() with t worker threads and parallel chunk size c (None = leave the default); settings restored afterwards"""
    import numba
    old = numba.get_num_threads()
    numba.set_num_threads(int(t))
    try:
        if c is None:
            return fn()
        try:
            cm = numba.parallel_chunksize(int(c))
        except Exception as ex:  # not available in this Numba
            if not _CHUNK_NOTE:
                _CHUNK_NOTE.append(f"numba.parallel_chunksize unsupported ({ex!r}): chunk sizes not varied")
            return fn()
        with cm:
            return fn()
    finally:
        numba.set_num_threads(old)


def settings_of(p) -> List[Tuple[int, Optional[int]]]:
    m = max_threads()
    ts = [int(t) for t in p["threads"] if 1 <= int(t) <= m] or [1]
    return [(t, c) for t in ts for c in p["chunks"]]


def check_threads(p: Dict[str, Any]) -> Tuple[List[Dict[str, Any]], Dict[str, Any]]:
    bad: List[Dict[str, Any]] = []

    def once():
        return fresh_op(p, ["compute"])
    base = with_schedule(1, 0, once)
    info = {"ok": base[0] == "ok", "settings": 0, "maxK": 0}
    if base[0] != "ok":
        return bad, info
    bv, bs = out_vals(base), out_sigs(base)
    info["maxK"] = int(np.max(bv["K"])) if len(bv["K"]) else 0
    info["nf"] = int(len(bv["f"]))
    sets = settings_of(p)
    sets = sets + [sets[-1]] * int(p.get("repeat_last", 1))          # the widest setting again (intermittent races)
    for (t, c) in sets:
        r = with_schedule(t, c, once)
        info["settings"] += 1
        if r[0] != "ok":
            bad.append({"field": "raises", "threads": t, "chunk": c, "detail": f"{r[1]}: {r[2]} with {t} threads, fine with 1"})
            continue
        rv, rs = out_vals(r), out_sigs(r)
        for k in STAT + ["f", "L", "K", "D"]:
            if rs[k] != bs[k]:
                bad.append({"field": k, "threads": t, "chunk": c, "detail": diff(bv[k], rv[k])})
    return bad, info


def kernel_inputs(p):
    from speckit.core import _build_Q
    rng = np.random.default_rng([int(p["dseed"]), 141])
    N, L, K = int(p["N"]), int(p["L"]), int(p["K"])
    x1 = rng.standard_normal(N) + float(p.get("offset", 0.0))
    x2 = 0.5 * np.roll(x1, 2) + rng.standard_normal(N)
    mode = p.get("starts", "sorted")
    st = rng.integers(0, N - L + 1, size=K)
    starts = (np.sort(st) if mode == "sorted" else st).astype(np.int64)
    w = np.hanning(L + 2)[1:-1] + 0.01
    name = p["kernel"]
    args = [x1] + ([x2] if "csd" in name else []) + [starts, L, w, float(p["omega"])]
    if "poly" in name:
        args.append(_build_Q(L, int(p.get("order", 2))))
    return args


def check_kernel(p: Dict[str, Any]) -> Tuple[List[Dict[str, Any]], Dict[str, Any]]:
    from speckit import core
    fn = getattr(core, p["kernel"])
    args = kernel_inputs(p)

    def once():
        return tuple(C.f2h(float(v)) for v in fn(*args))
    base = with_schedule(1, 0, once)
    bad = []
    sets = settings_of(p)
    sets = sets + [sets[-1]] * int(p.get("repeat_last", 1))
    for (t, c) in sets:
        r = with_schedule(t, c, once)
        for i, nm in enumerate(["MXX", "MYY", "mu_r", "mu_i", "M2"]):
            if r[i] != base[i]:
                bad.append({"field": nm, "threads": t, "chunk": c,
                            "detail": f"{C.h2f(base[i])!r} with 1 thread vs {C.h2f(r[i])!r} with {t} threads, chunk {c}"})
    return bad, {"settings": len(sets), "K": int(p["K"])}


# ------------------------------------------------------------------------------------------------ (2)(3) call history
def check_history(p: Dict[str, Any]) -> Tuple[List[Dict[str, Any]], Dict[str, Any]]:
    """every op on the shared analyzer vs the same op on a fresh analyzer; earlier outputs unchanged by later ops"""
    bad: List[Dict[str, Any]] = []
    info: Dict[str, Any] = {"ok_ops": 0, "stopped": False, "ctor": True, "plan_same_object": 0, "plan_new_object": 0}
    with quiet():
        try:
            an = mk_analyzer(p)
        except LIBERR as ex:
            info["ctor"] = False
            try:
                mk_analyzer(p)
                bad.append({"step": -1, "op": ["ctor"], "field": "raises", "detail": f"constructor raised {ex!r} once and not the second time"})
            except LIBERR:
                pass
            return bad, info
    kept = []
    plan_obj = None
    for k, op in enumerate(p["ops"]):
        u = run_op(an, op)
        with quiet():
            try:
                fr = mk_analyzer(p)
            except LIBERR as ex:
                bad.append({"step": k, "op": op, "field": "raises", "detail": f"constructing a second analyzer from the same arguments raised {ex!r}"})
                break
        f = run_op(fr, op)
        if u[0] != f[0]:
            bad.append({"step": k, "op": op, "field": "raises",
                        "detail": f"shared analyzer: {u[0]} {u[1] if u[0] == 'err' else ''} {u[2] if u[0] == 'err' else ''}; "
                                  f"fresh analyzer: {f[0]} {f[1] if f[0] == 'err' else ''} {f[2] if f[0] == 'err' else ''}"})
            break
        if u[0] == "err":
            if u[1] != f[1]:
                bad.append({"step": k, "op": op, "field": "raises", "detail": f"shared analyzer raised {u[1]}, fresh analyzer {f[1]}"})
            info["stopped"] = True          # theorem and property speak about histories of successful calls
            break
        info["ok_ops"] += 1
        uv, fv = out_vals(u), out_vals(f)
        us = {kk: sig(v) for kk, v in uv.items()}
        for kk in uv:
            if us[kk] != sig(fv[kk]):
                bad.append({"step": k, "op": op, "field": kk, "detail": diff(fv[kk], uv[kk])})
        kept.append((k, op, u, us))
        if op[0] == "plan":
            if plan_obj is None:
                plan_obj = u[2]
            elif plan_obj is u[2]:
                info["plan_same_object"] += 1
            else:
                info["plan_new_object"] += 1
        if len(bad) >= 6:
            break
    for (k, op, u, us) in kept:                        # nothing handed out earlier may have been changed by a later call
        now = out_sigs(u)
        for kk in us:
            if now[kk] != us[kk]:
                bad.append({"step": k, "op": op, "field": kk, "detail": "the output returned at this step was modified in place by a later call",
                            "mutated": True})
    return bad, info


# ------------------------------------------------------------------------------------------------ (6) a cached plan must not leak
LEAK_SKIP = {"compute_t"}          # wall-clock time of the call: not a number of the analysis


def res_fields(res) -> Dict[str, Any]:
    """raw fields (D included) and every derived attribute of a result: name -> ('ok', value) | ('err', exception type)"""
    names = RAW + [n for n in attr_names(res) if n not in RAW and n not in LEAK_SKIP]
    out: Dict[str, Any] = {}
    with quiet():
        for n in names:
            try:
                out[n] = ("ok", getattr(res, n))
            except LIBERR as ex:
                out[n] = ("err", type(ex).__name__)
    return out


def own_starts(N: int, L: int, K: int) -> np.ndarray:
    """the single-bin segmentation rule for K segments of length L (written here independently of the library; used to SELECT bins only)"""
    if K <= 1:
        return np.zeros(1, dtype=np.int64)
    return np.round(np.arange(K) * ((N - L) / (K - 1))).astype(np.int64)


def leak_plan_info(p: Dict[str, Any]):
    """the plan of an independent analyzer with the same options but WITHOUT a band: (plan, indices of the bins whose scheduled starts differ
    from the single-bin rule) — the analyzer under test starts with a clean history"""
    q = copy.deepcopy(p)
    q["opts"].pop("band", None)
    with quiet():
        try:
            pl = mk_analyzer(q).plan()
        except LIBERR:
            return None, []
    N = int(p["N"])
    differing = [j for j in range(len(pl["L"]))
                 if not np.array_equal(np.asarray(pl["D"][j], dtype=np.int64), own_starts(N, int(pl["L"][j]), int(pl["K"][j])))]
    return pl, differing


def leak_probes(p: Dict[str, Any], pl, differing: List[int]) -> List[List[Any]]:
    """single-bin requests: the plan's own (f_j, L_j) for bins with differing starts (always, when there are any) and for other bins, by L= and
    by fres=; another frequency at a plan length; lengths that no scheduled bin uses"""
    rng = np.random.default_rng([int(p["pseed"]), 146])
    N, fs = int(p["N"]), float(p["fs"])
    nf = len(pl["L"])
    n_d, n_s, n_o = int(p.get("n_diff", 3)), int(p.get("n_same", 2)), int(p.get("n_other", 2))
    dset = set(differing)
    same = [j for j in range(nf) if j not in dset]
    pick_d = [differing[i] for i in rng.permutation(len(differing))[:n_d]] if n_d >= 0 else list(differing)
    pick_s = [same[i] for i in rng.permutation(len(same))[:n_s]]
    probes: List[List[Any]] = []
    for j in pick_d + pick_s:
        f, L = float(pl["f"][j]), int(pl["L"][j])
        probes.append(["single", f, "L", L])
        probes.append(["single", f, "fres", fs / L])
    for j in (pick_d[:1] + pick_s[:1]):                         # a plan length at a frequency that is not the plan's (cache keyed on L alone)
        L = int(pl["L"][j])
        i = int(rng.integers(0, nf))
        f = float(pl["f"][i]) if i != j else fs * int(rng.integers(0, L // 2 + 1)) / L
        probes.append(["single", f, "L", L])
    used = set(int(v) for v in pl["L"])
    lo = max(2, N // 40)
    for _ in range(n_o):                                        # lengths not in the plan (next to a plan length, and anywhere)
        for _try in range(20):
            L = int(rng.integers(lo, N + 1)) if rng.random() < 0.5 else int(np.clip(int(rng.choice(list(used))) + int(rng.choice([-1, 1])), 1, N))
            if L not in used:
                break
        else:
            continue
        probes.append(["single", fs * int(rng.integers(0, L // 2 + 1)) / L, "L" if rng.random() < 0.5 else "fres", L])
        if probes[-1][2] == "fres":
            probes[-1][3] = fs / L
    return probes


def check_leak(p: Dict[str, Any]) -> Tuple[List[Dict[str, Any]], Dict[str, Any]]:
    """one analyzer: the probes before any plan exists, then after each of p['phases'] (plan / compute); every probe result, raw and derived,
    equals the result of the same request on a fresh analyzer (same options) that never planned — hence all stages equal each other;
    plan()/compute() after single-bin calls equal plan()/compute() of a fresh analyzer; repeated compute() and the cached plan unchanged;
    nothing handed out earlier is modified later"""
    bad: List[Dict[str, Any]] = []
    info: Dict[str, Any] = {"ok": False, "differing": 0, "probes": 0, "at_plan_L": 0, "stages": 0, "evals": 0, "probed_differing": 0}
    pl, differing = leak_plan_info(p)
    if pl is None:
        return bad, info
    info["differing"] = len(differing)
    probes = leak_probes(p, pl, differing)
    info["probes"] = len(probes)
    usedL = set(int(v) for v in pl["L"])
    diffL = set(int(pl["L"][j]) for j in differing)

    def probe_L(op):
        return int(op[3]) if op[2] == "L" else int(round(float(p["fs"]) / float(op[3])))
    info["at_plan_L"] = sum(1 for op in probes if probe_L(op) in usedL)
    info["probed_differing"] = sum(1 for op in probes if probe_L(op) in diffL)
    # reference: each request on its own new analyzer that never planned
    ref: List[Any] = []
    for op in probes:
        r = fresh_op(p, op)
        ref.append((r, res_fields(r[2]) if r[0] == "ok" else None))
    ref_plan = fresh_op(p, ["plan"])
    ref_comp = fresh_op(p, ["compute"]) if "compute" in p["phases"] else ("err", "not run", "")
    ref_comp_f = res_fields(ref_comp[2]) if ref_comp[0] == "ok" else None
    with quiet():
        try:
            an = mk_analyzer(p)
        except LIBERR:
            return bad, info
    info["ok"] = True
    kept: List[Any] = []

    def cmp_fields(stage, op, got, want, against):
        for n in want:
            if n not in got or gsig(got[n]) != gsig(want[n]):
                g = got.get(n, ("err", "missing"))
                bad.append({"stage": stage, "op": op, "field": n,
                            "detail": f"{against}: " + diff(want[n][1] if want[n][0] == "ok" else want[n], g[1] if g[0] == "ok" else g)})
                if len(bad) >= 8:
                    return

    def run_probes(stage):
        info["stages"] += 1
        for op, (r0, f0) in zip(probes, ref):
            if len(bad) >= 8:
                return
            u = run_op(an, op)
            info["evals"] += 1
            if u[0] != r0[0] or (u[0] == "err" and u[1] != r0[1]):
                bad.append({"stage": stage, "op": op, "field": "raises", "detail": f"this analyzer: {u[:2] if u[0] == 'err' else 'ok'}; an analyzer that never planned: {r0[:2] if r0[0] == 'err' else 'ok'}"})
                continue
            if u[0] != "ok":
                continue
            fu = res_fields(u[2])
            cmp_fields(stage, op, fu, f0, "on an analyzer that never planned vs here")
            kept.append((stage, op, u[2], {n: gsig(v) for n, v in fu.items()}))

    run_probes("before any plan")
    plan_first = None
    comp_first = None
    for k, ph in enumerate(p["phases"]):
        if len(bad) >= 8:
            break
        stage = "after " + "+".join(p["phases"][:k + 1])
        u = run_op(an, [ph])
        want = ref_plan if ph == "plan" else ref_comp
        if u[0] != want[0] or (u[0] == "err" and u[1] != want[1]):
            bad.append({"stage": stage, "op": [ph], "field": "raises", "detail": f"after single-bin calls: {u[:2] if u[0] == 'err' else 'ok'}; fresh analyzer: {want[:2] if want[0] == 'err' else 'ok'}"})
            break
        if u[0] != "ok":
            break                                             # histories without failing calls
        if ph == "plan":
            sv = out_sigs(u)
            for kk, s0 in out_sigs(ref_plan).items():
                if sv[kk] != s0:
                    bad.append({"stage": stage, "op": [ph], "field": "plan." + kk,
                                "detail": "plan() after single-bin calls vs plan() of a fresh analyzer: " + diff(out_vals(ref_plan)[kk], out_vals(u)[kk])})
            if plan_first is None:
                plan_first = (u, sv)
            elif sv != plan_first[1]:
                bad.append({"stage": stage, "op": [ph], "field": "plan", "detail": "the cached plan is not returned unchanged"})
        else:
            fu = res_fields(u[2])
            cmp_fields(stage, [ph], fu, ref_comp_f, "compute() of a fresh analyzer vs compute() after single-bin calls")
            su = {n: gsig(v) for n, v in fu.items()}
            if comp_first is None:
                comp_first = su
            elif su != comp_first:
                n = next(n for n in su if su[n] != comp_first.get(n))
                bad.append({"stage": stage, "op": [ph], "field": n, "detail": "repeated compute() with single-bin calls in between differs from the first"})
            kept.append((stage, [ph], u[2], su))
        run_probes(stage)
    if plan_first is not None and out_sigs(plan_first[0]) != plan_first[1]:
        bad.append({"stage": "end", "op": ["plan"], "field": "plan", "detail": "the cached plan was modified in place by a later call", "mutated": True})
    for (stage, op, res, s0) in kept:                          # nothing handed out earlier may have been changed by a later call
        for n in RAW:
            if gsig(get_attr(res, n)) != s0[n]:
                bad.append({"stage": stage, "op": op, "field": n, "detail": "the result returned at this stage was modified in place by a later call", "mutated": True})
                break
    return bad, info


LEAK_SCHEDS = ["ltf", "lpsd", "vectorized_ltf", "new_ltf", "custom:floor", "custom:irregular"]
LEAK_BACKENDS = [None, "numpy", "numba", None, "numba", None, "numba", None, None, "numba", None, "numpy"]   # NumPy kernels: 2 in 12 (slow)
LEAK_PHASES = [["plan", "compute"], ["compute"], ["plan"], ["compute", "plan", "compute"], ["plan", "plan", "compute", "compute"]]


def gen_leak(rng: np.random.Generator, i: int) -> Dict[str, Any]:
    """records of 2000..20000 samples, many bins; for the schedulers with their own rounding rule the options are redrawn (a few times) until
    some scheduled bin has starts that differ from the single-bin rule"""
    sched = LEAK_SCHEDS[i % len(LEAK_SCHEDS)]
    p: Dict[str, Any] = {}
    for _try in range(5):
        N = int(rng.choice([int(rng.integers(2000, 6000)), int(rng.integers(6000, 20001)), 20000, 8192]))
        fs = float(rng.choice([1.0, 2.0, 100.0, float(rng.uniform(0.5, 1e3))]))
        win = str(rng.choice(["hann", "kaiser"]))
        o: Dict[str, Any] = {"order": int(rng.choice([-1, 0, 1, 2])), "olap": float(rng.choice([0.5, 0.75, 0.0, float(rng.uniform(0.1, 0.9))])),
                             "Jdes": int(rng.integers(20, 100)), "Kdes": int(rng.choice([5, 10, 20, 50])), "bmin": float(rng.choice([1.0, 2.0])),
                             "Lmin": int(rng.choice([1, 8])), "scheduler": sched, "win": win}
        if win == "kaiser":
            o["psll"] = float(rng.choice([60.0, 120.0, 200.0]))
        if rng.random() < 0.12:
            o["olap"] = "default"
        bk = LEAK_BACKENDS[(i + i // 12) % 12]                    # rotates against the scheduler (i % 6) from one dozen cases to the next
        if bk is not None:
            o["backend"] = bk
        if bk == "numpy" and N > 5000:                           # the NumPy kernels take ~10x the time of the compiled ones
            N = int(rng.integers(2000, 5000))
        p = {"check": "leak", "dseed": int(rng.integers(0, 2 ** 31 - 1)), "N": N, "fs": fs, "cross": bool(rng.integers(0, 2)),
             "kind": str(rng.choice(["noise", "red", "offset", "tone"])), "kind2": "noise", "layout": str(rng.choice(["2xN", "Nx2"])),
             "opts": o, "pseed": int(rng.integers(0, 2 ** 31 - 1)), "phases": LEAK_PHASES[int(rng.integers(0, len(LEAK_PHASES)))],
             "n_diff": 3, "n_same": 2, "n_other": 2}
        if bk == "numpy":                                        # ... so: fewer probes, at most one full analysis on the analyzer under test
            p.update({"n_diff": 2, "n_same": 1, "n_other": 1, "phases": LEAK_PHASES[int(rng.integers(0, 3))]})
            o["Jdes"] = min(int(o["Jdes"]), 40)
        pl, differing = leak_plan_info(p)
        if pl is not None and (differing or sched in ("vectorized_ltf", "new_ltf")):
            break
    if (i + i // len(LEAK_SCHEDS)) % 3 == 2 and pl is not None and len(pl["f"]) >= 3:     # a plan with a band: the cached plan holds a SUBSET of the scheduled bins
        f = np.sort(np.asarray(pl["f"], dtype=float))
        a, b = sorted(int(v) for v in rng.integers(0, len(f), size=2))
        p["opts"]["band"] = [float(f[a]) * (1 - 1e-9), float(f[b]) * (1 + 1e-9)]
    return p


# ------------------------------------------------------------------------------------------------ (4) attribute access order
def attr_names(res) -> List[str]:
    """every dynamic name the result advertises (dir) minus ordinary members, plus the documented alias G"""
    names = set(dir(res)) - set(object.__dir__(res))
    names.add("G")
    return sorted(n for n in names if not n.startswith("_"))


def get_attr(res, name):
    with quiet():
        try:
            return ("ok", getattr(res, name))
        except LIBERR as ex:
            return ("err", type(ex).__name__)


def gsig(g):
    return ("err", g[1]) if g[0] == "err" else sig(g[1])


def make_result(p: Dict[str, Any]):
    src = p["source"]
    if src == "fake":
        rng = np.random.default_rng([int(p["dseed"]), 142])
        bins = [_an.gen_bin(rng, bool(p["cross"]), edge=(i % 3 == 2)) for i in range(int(p["nbins"]))]
        return _an.fake_result(bins, bool(p["cross"]), float(p["fs"])), None
    try:
        an = mk_analyzer(p)
    except LIBERR:
        return None, None
    r = run_op(an, ["compute"] if src == "compute" else p["single_op"])
    if r[0] != "ok":
        return None, an
    return r[2], an


def clone(res, pristine):
    return type(res)(copy.deepcopy(pristine), res._config, res.iscsd, res.fs)


def check_attrs(p: Dict[str, Any]) -> Tuple[List[Dict[str, Any]], Dict[str, Any]]:
    bad: List[Dict[str, Any]] = []
    info: Dict[str, Any] = {"ok": False, "arrays": 0, "same_object": 0, "new_object": 0, "names": 0}
    with quiet():
        res, an = make_result(p)
    if res is None:
        return bad, info
    info["ok"] = True
    pristine = copy.deepcopy(dict(res._data))                 # before ANY attribute access
    base0 = {k: sig(v) for k, v in pristine.items()}
    plan0 = None
    if an is not None:
        with quiet():
            try:
                plan0 = {k: sig(an.plan().get(k)) for k in PLAN_KEYS}
            except LIBERR:
                plan0 = None
    raw0 = None if (an is None or plan0 is None or p["source"] != "compute") else out_sigs(("ok", "result", clone(res, pristine)))
    names = attr_names(res)
    info["names"] = len(names)
    rng = np.random.default_rng([int(p["pseed"]), 143])
    perm1 = [names[i] for i in rng.permutation(len(names))]
    perm2 = [names[i] for i in rng.permutation(len(names))]
    perm3 = [names[i] for i in rng.permutation(len(names))]
    A = res
    first: Dict[str, Any] = {}
    objs: Dict[str, Any] = {}
    vals0: Dict[str, Any] = {}                                 # copies of the first values (for messages only)
    for n in perm1:
        g = get_attr(A, n)
        objs[n] = g
        first[n] = gsig(g)
        vals0[n] = copy.deepcopy(g[1]) if g[0] == "ok" else g
        if g[0] == "ok" and isinstance(g[1], np.ndarray):
            info["arrays"] += 1

    def compare(other, order, how):
        for n in order:
            g = get_attr(other, n)
            if gsig(g) != first[n]:
                bad.append({"name": n, "how": how, "detail": diff(vals0[n], g[1] if g[0] == "ok" else g)})
    compare(clone(res, pristine), list(reversed(perm1)), "reversed access order")
    compare(clone(res, pristine), perm2, "another access order")
    k_alone = int(p.get("alone", 8))
    for n in (names if k_alone < 0 else [names[i] for i in rng.permutation(len(names))[:k_alone]]):
        compare(clone(res, pristine), [n], "accessed alone first")
    D = clone(res, pristine)
    with quiet():
        try:
            D.to_dataframe()
            if not D.iscsd:
                D.get_rms()
            D.get_measurement(float(np.mean(D.f)), "Gxx")
        except LIBERR:
            pass                                              # export failures belong to C20
    compare(D, perm2, "after to_dataframe()/get_rms()/get_measurement()")
    for n in perm3:                                           # cached attribute returned unchanged
        g = get_attr(A, n)
        if gsig(g) != first[n]:
            bad.append({"name": n, "how": "second access", "detail": diff(vals0[n], g[1] if g[0] == "ok" else g)})
        if g[0] == "ok" and isinstance(g[1], np.ndarray):
            info["same_object" if g[1] is objs[n][1] else "new_object"] += 1
    for n in names:                                           # what was handed out first is still what it was
        if gsig(objs[n]) != first[n]:
            bad.append({"name": n, "how": "value returned at first access was modified in place by a later access",
                        "detail": diff(vals0[n], objs[n][1] if objs[n][0] == "ok" else objs[n]), "mutated": True})
    for k in base0:
        if k in A._data and sig(A._data[k]) != base0[k]:
            bad.append({"name": k, "how": "base array modified in place by attribute access", "detail": diff(pristine[k], A._data[k]), "mutated": True})
    if an is not None and plan0 is not None:
        pl = an.plan()
        for k in PLAN_KEYS:
            if sig(pl.get(k)) != plan0[k]:
                bad.append({"name": "plan." + k, "how": "cached plan of the analyzer modified by attribute access on its result", "detail": "", "mutated": True})
        if raw0 is not None:
            r2 = run_op(an, ["compute"])
            s2 = out_sigs(r2)
            for k in RAW:
                if s2.get(k) != raw0[k]:
                    bad.append({"name": k, "how": "compute() after attribute access on an earlier result differs from the earlier result",
                                "detail": diff(pristine.get(k), out_vals(r2).get(k))})
    return bad, info


# ------------------------------------------------------------------------------------------------ (5) isolation
def iso_ops(p):
    return p.get("op", ["compute"])


def check_isolation(p: Dict[str, Any], child: Optional[List[Dict[str, str]]] = None) -> Tuple[List[Dict[str, Any]], Dict[str, Any]]:
    """A, B, A in this process (+ reference evaluation of A's second result and of B); optionally digests of [B, A] from a clean process"""
    bad: List[Dict[str, Any]] = []
    info: Dict[str, Any] = {"ok": False, "ref_fields": 0}
    a1 = fresh_op(p["A"], iso_ops(p))
    b = fresh_op(p["B"], iso_ops(p))
    a2 = fresh_op(p["A"], iso_ops(p))
    if a1[0] != a2[0] or (a1[0] == "err" and a1[1] != a2[1]):
        bad.append({"field": "raises", "detail": f"A first {a1[:2]}, A after B {a2[:2]}"})
        return bad, info
    if a1[0] != "ok":
        return bad, info
    info["ok"] = True
    v1, v2 = out_vals(a1), out_vals(a2)
    for k in RAW:
        if sig(v1[k]) != sig(v2[k]):
            bad.append({"field": k, "detail": "A before vs after B: " + diff(v1[k], v2[k])})
    rngb = np.random.default_rng([int(p.get("bseed", 0)), 144])
    for tag, case, r in (("A(second run)", p["A"], a2), ("B", p["B"], b)):
        if r[0] != "ok":
            continue
        o = case["opts"]
        x1, x2 = channels(case)
        nf = len(r[2].f)
        bins = sorted(set(int(i) for i in rngb.integers(0, nf, size=min(nf, int(p.get("ref_bins", 4))))))
        with quiet():
            for (j, field, obs, exp, tol) in _an.check_result_against_ref(r[2], x1, x2, int(o["order"]), o["win"], o.get("psll"), float(case["fs"]), bins=bins):
                bad.append({"field": field, "ref": True,
                            "detail": f"{tag} bin {j}: {field} = {obs!r} but the definition on its own plan gives {exp!r} (tol {tol:.3g})"})
        info["ref_fields"] += 6 * len(bins)
    if child is not None and len(child) == 2:
        for tag, case, r, dg in (("B", p["B"], b, child[0]), ("A", p["A"], a2, child[1])):
            mine = digest_out(r)
            for k in sorted(k for k in (set(mine) | set(dg)) if not k.startswith("val:")):
                if mine.get(k) != dg.get(k):
                    # the property is about ONE process (threads, repetition, interleaving, access order). Across processes the plan and every
                    # NumPy-computed field must still be identical; a kernel statistic may differ at rounding level (differently compiled code)
                    if k in STAT and r[0] == "ok" and ("val:" + k) in dg:
                        try:
                            with quiet():
                                a_m = np.ascontiguousarray(getattr(r[2], k))
                            if rounding_level(case, r[2], k, a_m, _decode_val(dg["val:" + k])):
                                info["cross_process_rounding"] = info.get("cross_process_rounding", 0) + 1
                                continue
                        except Exception:
                            pass
                    bad.append({"field": k, "clean_process": True,
                                "detail": f"{tag}: {k} in this process (after other analyses) differs from the value in a clean interpreter "
                                          f"by more than the rounding budget of the kernels"})
        info["child"] = True
    return bad, info


def digest_out(r, values: bool = False) -> Dict[str, str]:
    if r[0] != "ok":
        return {"raises": r[1]}
    d = {k: digest(s) for k, s in out_sigs(r).items()}
    if values and r[1] != "plan":
        # the kernel statistics themselves (hex of the raw bytes): two PROCESSES may run differently compiled kernels (a Numba function compiled
        # in memory is inlined differently from one loaded from the on-disk cache), so across processes these are compared up to rounding
        with quiet():
            for k in STAT:
                a = np.ascontiguousarray(getattr(r[2], k))
                d["val:" + k] = f"{a.dtype.str}|{','.join(str(n) for n in a.shape)}|{a.tobytes().hex()}"
    return d


def _decode_val(s: str) -> np.ndarray:
    dt, shp, hx = s.split("|")
    shape = tuple(int(n) for n in shp.split(",") if n)
    return np.frombuffer(bytes.fromhex(hx), dtype=np.dtype(dt)).reshape(shape)


def rounding_level(case, res, field: str, mine: np.ndarray, other: np.ndarray) -> bool:
    """is the difference between two evaluations of a kernel statistic within twice the forward rounding budget of the recurrence (the budget
    every reference comparison in this framework uses, _an.bin_tol) at every bin?  Window sums: relative 1e-12."""
    if mine.shape != other.shape or mine.dtype != other.dtype:
        return False
    if not (np.all(np.isfinite(mine) == np.isfinite(other))):
        return False
    if field in ("S12", "S2"):
        return bool(np.all(np.abs(mine - other) <= 1e-12 * np.maximum(np.abs(mine), np.abs(other)) + 1e-300))
    o = case["opts"]
    x1, x2 = channels(case)
    fs = float(case["fs"])
    idx = {"XX": 0, "YY": 1, "XY": 2, "M2": 3}[field]
    for j in range(len(res.f)):
        if mine.reshape(-1)[j] == other.reshape(-1)[j]:
            continue
        L = int(res.L[j])
        w = _an.window(o["win"], L, o.get("psll"))
        om = 2 * np.pi * float(res.f[j]) / fs
        D = [int(d) for d in res.D[j]]
        a = max(float(np.abs(x1[d:d + L] * w).sum()) for d in D) + 1e-300
        b = a if x2 is None else max(float(np.abs(x2[d:d + L] * w).sum()) for d in D) + 1e-300
        tol = _an.bin_tol(L, om, a, b, int(o["order"]))[idx]
        if not abs(complex(mine.reshape(-1)[j]) - complex(other.reshape(-1)[j])) <= 2 * tol:
            return False
    return True


def _worker():
    """child process: compute the given (case, op) jobs in order in a clean interpreter; print field digests"""
    req = json.load(sys.stdin)
    if req.get("root"):
        sys.path.insert(0, req["root"])
    out = []
    for j in req["jobs"]:
        try:
            out.append(digest_out(fresh_op(j["case"], j["op"]), values=True))
        except LIBERR as ex:
            out.append({"raises": type(ex).__name__})
    sys.stdout.write(json.dumps(out) + "\n")
    sys.stdout.flush()


def spawn_child(jobs: List[Dict[str, Any]]):
    import speckit
    root = os.path.dirname(os.path.dirname(os.path.abspath(speckit.__file__)))
    env = dict(os.environ)
    env["PYTHONPATH"] = C.VERIF + os.pathsep + env.get("PYTHONPATH", "")
    p = subprocess.Popen([sys.executable, "-W", "ignore", "-c", "import vk.props.C14 as m; m._worker()"], cwd=C.VERIF, env=env,
                         stdin=subprocess.PIPE, stdout=subprocess.PIPE, stderr=subprocess.DEVNULL, text=True)
    p.stdin.write(json.dumps(C.jsonable({"root": root, "jobs": jobs})))
    p.stdin.close()
    return p


def reap_child(p, timeout: float) -> Optional[List[Dict[str, str]]]:
    try:
        p.wait(timeout=max(1.0, timeout))
        line = p.stdout.read().strip().splitlines()
        return json.loads(line[-1]) if line else None
    except Exception:
        try:
            p.kill()
        except Exception:
            pass
        return None


ISO_VARIANTS = ["psll", "win", "order", "olap", "Jdes", "Kdes", "bmin", "Lmin", "scheduler", "band", "data", "fs"]


def gen_isolation(rng: np.random.Generator, which: str, single: bool = False) -> Dict[str, Any]:
    N = int(rng.integers(300, 1400))
    fs = float(rng.choice([1.0, 2.0, 50.0]))
    A = {"dseed": int(rng.integers(0, 2 ** 31 - 1)), "N": N, "fs": fs, "cross": bool(rng.integers(0, 2)), "kind": str(rng.choice(["noise", "red", "offset"])),
         "kind2": "noise", "layout": "2xN",
         "opts": {"order": int(rng.choice([-1, 0, 1, 2])), "olap": float(rng.choice([0.5, 0.75])), "Jdes": int(rng.integers(8, 20)),
                  "Kdes": int(rng.choice([5, 20])), "bmin": 1.0, "Lmin": 1, "scheduler": str(rng.choice(_an.SCHEDS)), "win": "kaiser", "psll": 100.0}}
    B = copy.deepcopy(A)
    o = B["opts"]
    if which == "psll":
        o["psll"] = 200.0 if rng.random() < 0.5 else 45.0
    elif which == "win":
        o["win"] = "hann"
        o.pop("psll", None)
    elif which == "order":
        o["order"] = int((A["opts"]["order"] + 2) % 4 - 1)
    elif which == "olap":
        o["olap"] = 0.3
    elif which == "Jdes":
        o["Jdes"] = A["opts"]["Jdes"] + 7
    elif which == "Kdes":
        o["Kdes"] = 2
    elif which == "bmin":
        o["bmin"] = 3.5
    elif which == "Lmin":
        o["Lmin"] = max(8, N // 40)
    elif which == "scheduler":
        o["scheduler"] = _an.SCHEDS[(_an.SCHEDS.index(A["opts"]["scheduler"]) + 1) % 4]
    elif which == "band":
        o["band"] = [fs * 0.02, fs * 0.3]
    elif which == "data":
        B["dseed"] = A["dseed"] + 1
    elif which == "fs":
        B["fs"] = fs * 3.0
    p = {"check": "isolation", "which": which, "A": A, "B": B, "bseed": int(rng.integers(0, 2 ** 31 - 1)), "ref_bins": 4}
    if single:
        L = int(rng.integers(N // 10, N // 2))
        p["op"] = ["single", fs * int(rng.integers(1, L // 2)) / L, "L", L]
    return p


# ------------------------------------------------------------------------------------------------ payload dispatch
def describe(p: Dict[str, Any], b: Dict[str, Any]) -> str:
    c = p["check"]
    if c == "threads":
        o = p["opts"]
        return (f"compute() with {b['threads']} threads / chunk size {b['chunk']} differs from 1 thread in {b['field']}: {b['detail']} "
                f"(N={p['N']} {'cross' if p['cross'] else 'auto'} order={o.get('order')} scheduler={o.get('scheduler')})")
    if c == "kernel":
        return f"speckit.core.{p['kernel']} (K={p['K']}, L={p['L']}): {b['field']} {b['detail']}"
    if c == "history":
        return (f"call history changes a result: step {b['step']} {b['op']} of {[o[0] for o in p['ops']]} on one analyzer, field {b['field']}: "
                f"{b['detail']} (N={p['N']} scheduler={p['opts'].get('scheduler')} force_target_nf={p['opts'].get('force_target_nf', False)} band={p['opts'].get('band')})")
    if c == "attrs":
        return (f"attribute {b['name']} of a {'cross' if p['cross'] else 'auto'} result ({p['source']}): {b['how']}"
                + (f": {b['detail']}" if b.get("detail") else ""))
    if c == "isolation":
        return f"analyses in one process influence each other (B differs from A in {p['which']}): {b['field']}: {b['detail']}"
    if c == "leak":
        o = p["opts"]
        return (f"the analyzer's call history / cached plan changes a result: {b['op']} {b['stage']} (phases {p['phases']}), field {b['field']}: {b['detail']} "
                f"(N={p['N']} fs={p['fs']!r} {'cross' if p['cross'] else 'auto'} scheduler={o.get('scheduler')} order={o.get('order')} olap={o.get('olap')!r} "
                f"Jdes={o.get('Jdes')} Kdes={o.get('Kdes')} win={o.get('win')} backend={o.get('backend', 'auto')} band={o.get('band')})")
    return str(b)


def signature(p: Dict[str, Any], b: Dict[str, Any]) -> Dict[str, Any]:
    s = {"check": p["check"], "field": b.get("field", b.get("name"))}
    if p["check"] == "history":
        s["op"] = b["op"][0]
        s["mutated"] = bool(b.get("mutated", False))
    if p["check"] == "attrs":
        s["how"] = b["how"][:40]
    if p["check"] == "isolation":
        s["which"] = p["which"]
        s["ref"] = bool(b.get("ref", False))
    if p["check"] == "kernel":
        s["kernel"] = p["kernel"]
    if p["check"] == "leak":
        s["op"] = b["op"][0]
        s["planned"] = b["stage"] != "before any plan"
        s["mutated"] = bool(b.get("mutated", False))
    return s


def run_payload(P: C.Part, p: Dict[str, Any], as_corr: bool = False, child=None) -> Dict[str, Any]:
    c = p["check"]
    if c == "threads":
        bad, info = check_threads(p)
        P.cases += max(1, info["settings"])
        o = p["opts"]
        for (t, cc) in settings_of(p):
            if info.get("maxK", 0) >= 2 * t and info["ok"]:
                P.nontrivial.add(("threads", o.get("order"), p["cross"], o.get("scheduler"), t, cc))
        P.hit("threads:" + ("cross" if p["cross"] else "auto") + f":order{o.get('order')}")
        P.hit("threads:maxK>=100" if info.get("maxK", 0) >= 100 else "threads:maxK<100")
    elif c == "kernel":
        bad, info = check_kernel(p)
        P.cases += info["settings"]
        for (t, cc) in settings_of(p):
            P.nontrivial.add(("kernel", p["kernel"], t, cc, p["K"] >= 2 * t))
        P.hit("kernel:" + p["kernel"])
    elif c == "history":
        bad, info = check_history(p)
        P.cases += max(1, info["ok_ops"])
        o = p["opts"]
        kinds = tuple(x[0][0] for x in p["ops"])
        if info["ok_ops"] >= 2:
            P.nontrivial.add(("history", o.get("scheduler"), o.get("order"), p["cross"], bool(o.get("force_target_nf")), o.get("band") is not None, kinds))
        P.hit("history:" + str(o.get("scheduler")))
        P.hit("history:force_target_nf" if o.get("force_target_nf") else "history:plain")
        if o.get("band") is not None:
            P.hit("history:band")
        if not info["ctor"]:
            P.hit("history:constructor-raises")
        if info["stopped"]:
            P.hit("history:stopped-at-failing-call")
        P.hit("history:plan() same object again", info["plan_same_object"])
        P.hit("history:plan() new equal object", info["plan_new_object"])
        P.hit("history:ops", info["ok_ops"])
    elif c == "attrs":
        bad, info = check_attrs(p)
        P.cases += max(1, info["names"]) * 5
        if info["ok"] and info["arrays"] >= 2:
            P.nontrivial.add(("attrs", p["source"], p["cross"], p.get("nbins", p.get("N")), p["pseed"]))
        P.hit("attrs:" + p["source"] + (":cross" if p["cross"] else ":auto"))
        P.hit("attrs:second access same object", info["same_object"])
        P.hit("attrs:second access new equal object", info["new_object"])
    elif c == "isolation":
        bad, info = check_isolation(p, child)
        P.cases += 3
        if info["ok"]:
            P.nontrivial.add(("isolation", p["which"], "single" if "op" in p else "full", bool(info.get("child"))))
        P.hit("isolation:" + p["which"])
        if info.get("cross_process_rounding"):
            P.unstable += int(info["cross_process_rounding"])
            P.hit("isolation:cross-process difference at rounding level (differently compiled kernels)", int(info["cross_process_rounding"]))
        if info.get("child"):
            P.hit("isolation:clean-process comparison")
    elif c == "leak":
        bad, info = check_leak(p)
        P.cases += max(1, info["evals"])
        o = p["opts"]
        if info["ok"] and info["at_plan_L"] >= 1 and info["stages"] >= 2:
            P.nontrivial.add(("leak", o.get("scheduler"), o.get("backend", "auto"), o.get("order"), p["cross"], o.get("band") is not None,
                              info["probed_differing"] > 0, tuple(p["phases"])))
        P.hit("leak:" + str(o.get("scheduler")) + (":band" if o.get("band") is not None else ""))
        P.hit("leak:backend " + str(o.get("backend", "auto")))
        P.hit("leak:probes at a plan length whose scheduled starts differ from the single-bin rule", info["probed_differing"])
        P.hit("leak:probes at other plan lengths", info["at_plan_L"] - info["probed_differing"])
        P.hit("leak:probes at lengths not in the plan", info["probes"] - info["at_plan_L"])
        P.hit("leak:plans with differing bins" if info["differing"] else "leak:plans whose starts all follow the single-bin rule")
    else:
        raise ValueError(f"unknown check {c!r}")
    for b in bad[:4]:
        if as_corr:
            P.disagreements.append({"op": c, "what": describe(p, b), "mismatch": {k: v for k, v in b.items()}, "oracle_payload": p})
        else:
            P.violations.append(C.Violation(what=describe(p, b), signature=signature(p, b), replay={"check": c, "payload": p, "mismatch": b}))
    return info


# ------------------------------------------------------------------------------------------------ fixed corpus
def sweep_case(order: int, cross: bool, dseed: int, scheduler: str = "vectorized_ltf", N: int = 20000, threads=None, chunks=None) -> Dict[str, Any]:
    return {"check": "threads", "dseed": dseed, "N": N, "fs": 2.0, "cross": cross, "kind": "red" if order >= 0 else "noise", "kind2": "noise",
            "layout": "2xN", "threads": threads if threads is not None else thread_counts(), "chunks": chunks if chunks is not None else [0, 1, 5, 64],
            "repeat_last": 1,
            "opts": {"order": order, "olap": 0.9, "Jdes": 30, "Kdes": 50, "bmin": 1.0, "Lmin": 1, "scheduler": scheduler, "win": "kaiser", "psll": 200.0}}


def corpus() -> List[Dict[str, Any]]:
    """design-phase support runs (DESIGN §3: 1,2,3,7,16 threads x chunk sizes 0,1,5 were bit-identical) + the fixed call patterns of the property text"""
    out = [sweep_case(0, True, 1401, threads=[1, 2, 3, 7, 16], chunks=[0, 1, 5]),
           sweep_case(2, False, 1402, threads=[1, 2, 3, 7, 16], chunks=[0, 1, 5])]
    base = {"dseed": 1410, "N": 1200, "fs": 2.0, "cross": True, "kind": "red", "kind2": "noise", "layout": "Nx2"}
    pattern = [["compute"], ["single", 0.25, "L", 200], ["compute"], ["plan"], ["single", 0.1, "fres", 0.01], ["plan"], ["compute"], ["single", 0.25, "L", 200]]
    for k, extra in enumerate([{}, {"force": 120}, {"band": [0.02, 0.6]}, {"force": 150, "band": [0.01, 0.9], "scheduler": "ltf"},
                               {"scheduler": "new_ltf", "order": 2}, {"scheduler": "lpsd", "order": -1, "backend": "numpy"},
                               {"force": 200, "scheduler": "new_ltf", "order": 0}]):
        o = {"order": 1, "olap": 0.6, "Jdes": 12, "Kdes": 8, "bmin": 1.0, "Lmin": 1, "scheduler": "vectorized_ltf", "win": "kaiser", "psll": 120.0}
        extra = dict(extra)
        J = extra.pop("force", None)
        o.update(extra)
        c = dict(base, check="history", opts=o, ops=pattern, dseed=1410 + k, cross=(k % 2 == 0), N=1200 if J is None else 400)
        if J is not None:
            force_target(c, J)
            if o["scheduler"] == "vectorized_ltf":
                c["ops"] = [["single", 0.25, "L", 200], ["plan"], ["single", 0.1, "fres", 0.01], ["compute"]]
        out.append(c)
    # wave-7 miss C14g (single bins sharing the cached plan's starts): the configuration in which 15 of 69 scheduled bins have starts that
    # differ from the single-bin rule, for both schedulers with accumulated half-up rounding
    for k, (sched, phases) in enumerate([("ltf", ["compute"]), ("lpsd", ["plan", "compute"])]):
        out.append({"check": "leak", "dseed": 1430 + k, "N": 20000, "fs": 100.0, "cross": bool(k), "kind": "red", "kind2": "noise", "layout": "2xN",
                    "opts": {"order": 0, "Jdes": 100, "Kdes": 20, "scheduler": sched, "win": "hann"}, "pseed": 1440 + k, "phases": phases,
                    "n_diff": 4, "n_same": 2, "n_other": 2})
    d = os.path.join(C.CORPUS_DIR, PROP)
    if os.path.isdir(d):
        for fn in sorted(os.listdir(d)):
            if fn.endswith(".json"):
                try:
                    j = json.load(open(os.path.join(d, fn)))
                    out.extend(x for x in (j if isinstance(j, list) else [j]) if isinstance(x, dict) and x.get("check") in CHECKS)
                except Exception:
                    pass
    return out


def gen_attrs(rng: np.random.Generator, i: int, thorough: bool) -> Dict[str, Any]:
    src = ["compute", "single", "fake", "compute", "fake", "single"][i % 6]
    p = {"check": "attrs", "source": src, "pseed": int(rng.integers(0, 2 ** 31 - 1)), "alone": (-1 if (thorough and i % 4 == 0) else 8)}
    if src == "fake":
        p.update({"dseed": int(rng.integers(0, 2 ** 31 - 1)), "cross": bool((i // 2) % 2), "nbins": int(rng.choice([1, 2, 7, 40])),
                  "fs": float(rng.choice([1.0, 250.0]))})
        return p
    c = gen_case(rng, edge=(i % 7 == 6), nmax=1500)
    c["cross"] = bool((i // 2) % 2) if i % 7 != 6 else c["cross"]
    c["opts"].pop("force_target_nf", None)
    c["opts"]["Jdes"] = min(int(c["opts"]["Jdes"]), 14)
    p.update(c)
    if src == "single":
        N, fs = c["N"], c["fs"]
        L = max(1, int(rng.integers(max(1, N // 20), N + 1)))
        p["single_op"] = ["single", fs * int(rng.integers(0, L // 2 + 1)) / L, "L", L]
    return p


# ------------------------------------------------------------------------------------------------ region ConfigGlue: generated vs real
# The decision / state logic of SpectrumAnalyzer TRANSLATED from the current source (Gen/ConfigGlue.lean, driver ops cgwin / cgsched / cgreq /
# cgrun) against the real class.  Both sides follow the same source, so a disagreement is a translator (or contract) error.
CG_EXC = {"ValueError", "TypeError", "RuntimeError", "KeyError"}


def _hx(s: str) -> str:
    return s.encode("ascii").hex()


def _pv(v) -> str:
    if v is None:
        return "n"
    if isinstance(v, (bool, np.bool_)):
        return "b:1" if v else "b:0"
    if isinstance(v, (int, np.integer)):
        return f"i:{int(v)}"
    if isinstance(v, (float, np.floating)):
        return "r:" + C.f2h(float(v))
    if isinstance(v, str):
        return "s:" + _hx(v)
    raise TypeError(f"no wire form for {v!r}")


def _exc_name(ex) -> str:
    n = type(ex).__name__
    return n if n in CG_EXC else "Other"


def _cg_fn(x):
    pass


def _cg_fn2(x):
    pass


def cg_window_cases(rng):
    """all combinations win x psll x olap (+ two states of the tables win_dict / olap_dict)"""
    import scipy.signal.windows as sw

    custom = lambda n: np.ones(n)      # noqa: E731
    wins = [("kaiser", "s:" + _hx("kaiser")), ("Kaiser", "s:" + _hx("Kaiser")), ("KAISER", "s:" + _hx("KAISER")), ("hann", "s:" + _hx("hann")),
            ("Hanning", "s:" + _hx("Hanning")), ("HANN", "s:" + _hx("HANN")), ("boxcar", "s:" + _hx("boxcar")), ("HFT70", "s:" + _hx("HFT70")),
            ("hft70", "s:" + _hx("hft70")), ("", "s:"), (np.kaiser, "f:npk"), (sw.kaiser, "f:spk"), (np.hanning, "f:han"), (np.blackman, "f:c1"),
            (custom, "f:c2"), (_cg_fn, "f:c3"), (_cg_fn2, "f:c4"), (5, "o"), (None, "o"), (3.5, "o")]
    pslls = [None, 200, 60.0, 5, 13.0, float(rng.uniform(20, 250))]
    olaps = ["default", 0.0, 0.5, float(np.nextafter(1.0, 0.0)), 1.0, -0.1, -0.0, 1, 0, True, False, "0.3", "abc", "Default", None,
             float("nan"), float("inf"), float(rng.uniform(0, 1)), float(rng.uniform(-2, 3)), 2 ** 60]
    return wins, pslls, olaps


def cg_window_run(ctx, P: C.Part, rng) -> None:
    import speckit.analysis as A
    wins, pslls, olaps = cg_window_cases(rng)
    data = np.linspace(0.0, 1.0, 16)
    saved_w, saved_o = dict(A.win_dict), dict(A.olap_dict)
    ids = {id(np.kaiser): "npk", id(np.hanning): "han", id(np.blackman): "c1", id(_cg_fn): "c3", id(_cg_fn2): "c4"}
    import scipy.signal.windows as sw
    ids[id(sw.kaiser)] = "spk"
    try:
        for table in (0, 1):
            A.win_dict.clear()
            A.olap_dict.clear()
            A.olap_dict.update(saved_o)
            A.win_dict.update(saved_w)
            if table == 1:            # populated tables: names found in win_dict, a lower-case key in olap_dict, a registered callable
                A.win_dict.update({"HFT70": _cg_fn, "hft70": _cg_fn2, "boxcar": np.blackman})
                A.olap_dict.update({"hft70": 0.722, "boxcar": 0.0})
            wd = [(k, ids.get(id(v), "c9")) for k, v in A.win_dict.items() if isinstance(k, str)]
            od = [(k, float(v)) for k, v in A.olap_dict.items() if isinstance(k, str)]
            wd_tok = f"{len(wd)}" + "".join(f" {_hx(k)} {v}" for k, v in wd)
            od_tok = f"{len(od)}" + "".join(f" {_hx(k)} {C.f2h(v)}" for k, v in od)
            for (win, wtok) in wins:
                if table == 0 and wtok in ("f:c3", "f:c4"):
                    pass
                for psll in pslls:
                    for olap in olaps:
                        if isinstance(olap, str):
                            try:
                                parse = "r:" + C.f2h(float(olap))
                            except ValueError:
                                parse = "n"
                        else:
                            parse = "n"
                        if callable(win) and id(win) not in ids:
                            ids[id(win)] = "c2"
                        with quiet():
                            try:
                                an = A.SpectrumAnalyzer(data, 2.0, win=win, psll=psll, olap=olap)
                                c = an.config
                                wf = ids.get(id(c["win_func"]), "c9")
                                al = "none" if c["alpha"] is None else "r:" + C.f2h(float(c["alpha"]))
                                nm = "none" if c["win_name"] is None else "s:" + _hx(c["win_name"])
                                real = f"ok {wf} {al} r:{C.f2h(float(c['final_olap']))} {nm}"
                            except LIBERR as ex:
                                real = "err " + _exc_name(ex)
                        try:
                            line = f"cgwin {wtok} {'n' if psll is None else 'r:' + C.f2h(float(psll))} {_pv(olap)} {wd_tok} {od_tok} {parse}"
                        except (TypeError, OverflowError):
                            continue
                        gen = ctx.driver.ask(line)
                        P.cases += 1
                        P.hit("configglue:window:" + (real.split()[1] if real.startswith("err") else "ok:" + real.split()[1]))
                        if gen != real:
                            P.disagreements.append({"op": "cgwin", "what": f"generated _process_window_config gives {gen!r}, the real constructor {real!r} "
                                                    f"for win={win!r} psll={psll!r} olap={olap!r} (tables {'populated' if table else 'as shipped'})",
                                                    "case": {"win": repr(win), "psll": repr(psll), "olap": repr(olap), "table": table, "line": line}})
                            if len(P.disagreements) > 12:
                                return
    finally:
        A.win_dict.clear()
        A.win_dict.update(saved_w)
        A.olap_dict.clear()
        A.olap_dict.update(saved_o)


def cg_sched_run(ctx, P: C.Part, rng) -> None:
    import functools
    import speckit.analysis as A
    from speckit import schedulers as S

    def my_sched(**kw):
        return S.ltf_plan(**kw)
    part = functools.partial(S.ltf_plan)           # a callable without __name__
    opts = [(s_, "s:" + _hx(s_)) for s_ in ("lpsd", "ltf", "vectorized_ltf", "new_ltf", "LTF", "new_ltf_plan", "foo", "")]
    opts += [(S.lpsd_plan, "f:lpsd_plan"), (S.ltf_plan, "f:ltf_plan"), (S.vectorized_ltf_plan, "f:vectorized_ltf_plan"), (S.new_ltf_plan, "f:new_ltf_plan"),
             (my_sched, f"f:c:{_hx('my_sched')}:1"), (part, "f:c:-:2"), (7, "o"), (None, "o"), (2.5, "o")]
    data = np.linspace(0.0, 1.0, 16)
    names = {id(S.lpsd_plan): "lpsd_plan", id(S.ltf_plan): "ltf_plan", id(S.vectorized_ltf_plan): "vectorized_ltf_plan", id(S.new_ltf_plan): "new_ltf_plan",
             id(my_sched): f"c:{_hx('my_sched')}:1", id(part): "c:-:2"}
    for (sc, tok) in opts:
        with quiet():
            try:
                an = A.SpectrumAnalyzer(data, 2.0, scheduler=sc)
                real = f"ok {names.get(id(an.config['scheduler_func']), '?')} {_hx(an.config['scheduler_name'])}"
            except LIBERR as ex:
                real = "err " + _exc_name(ex)
        gen = ctx.driver.ask("cgsched " + tok)
        P.cases += 1
        P.hit("configglue:scheduler:" + ("err" if real.startswith("err") else "ok"))
        if gen != real:
            P.disagreements.append({"op": "cgsched", "what": f"generated _process_scheduler_config gives {gen!r}, the real constructor {real!r} for scheduler={sc!r}",
                                    "case": {"scheduler": repr(sc)}})


def cg_request_run(ctx, P: C.Part, rng) -> None:
    import speckit.analysis as A
    for i in range(ctx.scale(60, 400)):
        N = int(rng.choice([8, 33, 64, int(rng.integers(20, 300))]))
        fs = float(rng.choice([1.0, 2.0, 100.0, float(rng.uniform(0.5, 1e3))]))
        data = np.random.default_rng(int(rng.integers(0, 2 ** 31))).standard_normal(N)
        with quiet():
            an = A.SpectrumAnalyzer(data, fs, win="hann", olap=0.5, order=0, backend="numpy")
        kind = int(rng.integers(0, 12))
        L = fres = None
        if kind == 0:
            L = int(rng.integers(1, N + 1))
        elif kind == 1:
            L = int(rng.choice([0, -3, N + 1, N, 1, 10 * N]))
        elif kind == 2:
            L = float(rng.uniform(0.2, N + 1.5))                      # int() truncates
        elif kind == 3:
            fres = fs / int(rng.integers(1, N + 1))
        elif kind == 4:
            fres = float(rng.uniform(fs / (N + 2), fs * 1.5))         # non-integer fs/fres, some clamped / too long
        elif kind == 5:
            fres = fs / (int(rng.integers(0, N)) + 0.5)               # ties: round half to even
        elif kind == 6:
            fres = float(rng.choice([2.0 * fs, 3.0 * fs, fs * (2.0 + 1e-12), fs / 0.49, 1e300, fs * 1.0000001]))   # fres > fs
        elif kind == 7:
            fres = float(rng.choice([0.0, -1.0, float("nan"), float("inf"), -float("inf"), 1e-300]))
        elif kind == 8:
            L, fres = int(rng.integers(1, N + 1)), fs / 4
        elif kind == 9:
            pass                                                       # neither
        elif kind == 10:
            fres = fs / (N + float(rng.choice([0.4, 0.5, 0.6, 1.0])))   # just around the `segL > nx` rejection
        else:
            L = float(rng.choice([0.9, 1.0, N + 0.9, -0.5, 1e6]))
        freq = fs / 8.0
        kw = {}
        if L is not None:
            kw["L"] = L
        if fres is not None:
            kw["fres"] = fres
        with quiet():
            try:
                r = an.compute_single_bin(freq, **kw)
                real = f"ok {int(r.L[0])} {C.f2h(float(r.r[0]))}"
            except LIBERR as ex:
                real = "err " + _exc_name(ex)
        gen = ctx.driver.ask(f"cgreq {C.f2h(fs)} {N} {'n' if L is None else 'r:' + C.f2h(float(L))} {'n' if fres is None else 'r:' + C.f2h(float(fres))}")
        P.cases += 1
        P.hit("configglue:request:" + ("L" if L is not None and fres is None else "fres" if fres is not None and L is None else "both/neither")
              + (":err" if real.startswith("err") else ":ok"))
        if gen != real:
            P.disagreements.append({"op": "cgreq", "what": f"generated single-bin request resolution gives {gen!r}, the real compute_single_bin {real!r} "
                                    f"for N={N} fs={fs!r} L={L!r} fres={fres!r}", "case": {"N": N, "fs": fs, "L": L, "fres": fres}})


class _RecSched:
    """the real scheduler behind a recorder: every call (keyword arguments, bin count or raise) is logged and the returned dict is tagged
    with the number of the call that produced it"""

    def __init__(self, real, name: Optional[str]):
        self.real = real
        self.calls: List[Dict[str, Any]] = []
        if name is not None:
            self.__name__ = name

    def __call__(self, **kw):
        rec = {"kw": dict(kw), "nf": None}
        self.calls.append(rec)
        out = self.real(**kw)
        rec["nf"] = int(out["nf"])
        out["_cg_call"] = len(self.calls) - 1
        return out


def _kw_key(kw: Dict[str, Any]) -> Tuple[str, ...]:
    return tuple("-" if k not in kw else _pv(kw[k]) for k in ("N", "fs", "olap", "bmin", "Lmin", "Kdes", "num_patch_pts", "Jdes"))


def _plan_frame_line(ex) -> Tuple[Optional[int], bool, bool]:
    """(line of plan() where the exception surfaced, raised below a scheduler call?, inside find_Jdes_binary_search?)"""
    tb = ex.__traceback__
    line, in_sched, in_search = None, False, False
    while tb is not None:
        co = tb.tb_frame.f_code
        if co.co_name == "plan" and co.co_filename.endswith("analysis.py"):
            line = tb.tb_lineno
        if co.co_name == "__call__" and co.co_filename.endswith("C14.py"):
            in_sched = True
        if co.co_name == "find_Jdes_binary_search":
            in_search = True
        tb = tb.tb_next
    return line, in_sched, in_search


def cg_plan_case(ctx, P: C.Part, p: Dict[str, Any], ops: List[str], steps: Dict[str, Any]) -> Optional[Dict[str, Any]]:
    """one analyzer (recording scheduler) driven through `ops`; the generated transformer driven through the same ops on the recorded table"""
    from speckit import schedulers as S
    real_fn = {"ltf": S.ltf_plan, "lpsd": S.lpsd_plan, "vectorized_ltf": S.vectorized_ltf_plan, "new_ltf": S.new_ltf_plan}[p["opts"]["scheduler"]]
    rec = _RecSched(real_fn, p.get("sched_name", real_fn.__name__))
    q = copy.deepcopy(p)
    q["opts"]["scheduler"] = rec
    with quiet():
        try:
            an = mk_analyzer(q)
        except LIBERR:
            return None
    cfg0 = dict(an.config)
    j0 = int(cfg0["Jdes"])
    N = int(p["N"])
    fails: Dict[Tuple[str, ...], Tuple[int, str]] = {}
    real_out: List[str] = []
    skip = None
    for o in ops:
        ncalls = len(rec.calls)
        with quiet():
            try:
                if o == "p":
                    r = an.plan()
                    res = "N" if r is None else f"P:{r.get('_cg_call')}"
                elif o == "c":
                    r = an.compute()
                    t = r._data.get("_cg_call")
                    res = f"C:{t}:{t}"
                else:
                    an.compute_single_bin(float(p["fs"]) / 8.0, L=max(1, N // 4))
                    res = "S"
            except LIBERR as ex:
                line, in_sched, in_search = _plan_frame_line(ex)
                if in_search and in_sched:
                    skip = "scheduler raised inside the Jdes search"
                    break
                if in_sched:
                    res = "E:Other"
                else:
                    res = "E:" + _exc_name(ex)
                    idx = next((i for i, (lo, hi) in enumerate(steps["steps"]) if line is not None and lo <= line <= hi), None)
                    if idx is not None and len(rec.calls) > 0:
                        fails[_kw_key(rec.calls[-1]["kw"])] = (idx, _exc_name(ex))
        cache = an._plan_cache
        real_out.append((res, int(an.config["Jdes"]), "-" if cache is None else str(cache.get("_cg_call"))))
    if skip:
        P.hit("configglue:plan:skipped (" + skip + ")")
        return None
    # table of distinct calls (first occurrence = canonical number)
    canon: Dict[Tuple[str, ...], int] = {}
    rows: List[str] = []
    call_canon: List[int] = []
    for c_ in rec.calls:
        k = _kw_key(c_["kw"])
        if k not in canon:
            canon[k] = len(rows)
            f = fails.get(k)
            rows.append(" ".join(k) + " " + ("raise" if c_["nf"] is None else str(c_["nf"])) + (f" {f[0]} {f[1]}" if f else " -1 -"))
        call_canon.append(canon[k])

    def cz(t: str) -> str:
        return t if t in ("None", "-") else str(call_canon[int(t)])
    want = []
    for (res, jd, cache) in real_out:
        if res.startswith("P:"):
            res = "P:" + cz(res[2:])
        elif res.startswith("C:"):
            a = cz(res.split(":")[1])
            res = f"C:{a}:{a}"
        want.append(f"{res},{jd},{cz(cache)}")
    name = getattr(rec, "__name__", None)
    npp = cfg0.get("num_patch_pts")
    line = (f"cgrun {int(an.nx)} {C.f2h(an.fs)} {_pv(cfg0['olap'])} {C.f2h(cfg0['bmin'])} {cfg0['Lmin']} {cfg0['Kdes']} {'n' if npp is None else int(npp)} "
            f"{cfg0['order']} {C.f2h(float(cfg0['final_olap']))} {1 if cfg0['force_target_nf'] else 0} {0 if cfg0['band'] is None else 1} "
            f"{'-' if name is None else _hx(name)} {j0} {len(rows)} " + " ".join(rows) + f" {len(ops)} " + " ".join(ops))
    gen = ctx.driver.ask(line).split()
    # the generated side also reports how many tail statements ran on a plan object: all of them (minus the band statement without a band)
    full = steps["nsteps"] - (0 if cfg0["band"] is not None else 1)
    got = []
    done_ok = True
    for g in gen:
        parts = g.split(",")
        if len(parts) != 3:
            got.append(g)
            continue
        r0, jd, ca = parts
        if r0.startswith("P:"):
            done_ok &= r0.split(":")[2] == str(full)
            r0 = "P:" + r0.split(":")[1]
        if ca != "-":
            ca = ca.split(":")[0]
        got.append(f"{r0},{jd},{ca}")
    P.cases += len(ops)
    if got != want or not done_ok:
        return {"op": "cgrun", "what": f"generated plan()/compute() transformer gives {got} (all tail statements ran on returned plans: {done_ok}), the real analyzer {want} "
                f"for ops {ops} (scheduler {p['opts']['scheduler']}, force_target_nf={cfg0['force_target_nf']}, band={cfg0['band']}, Jdes={j0})",
                "case": {"N": N, "fs": p["fs"], "opts": {k: (v if not callable(v) else repr(v)) for k, v in p["opts"].items()}, "ops": ops, "line": line[:2000]}}
    return {"ok": True, "real": want, "calls": len(rec.calls)}


def cg_plan_run(ctx, P: C.Part, rng) -> None:
    from vk.regions import config_glue as CGT
    try:
        steps = CGT.tail_step_ranges(C.REPO)
    except Exception as ex:      # the translator rejected plan(): reported as a broken region already
        P.notes.append(f"configglue: plan() differential not run ({ex})"[:200])
        return
    t_end = time.time() + (60.0 if ctx.thorough else 9.0)
    n = 0
    for i in range(ctx.scale(40, 300)):
        if time.time() > t_end:
            P.notes.append("time budget reached (configglue plan differential)")
            break
        N = int(rng.integers(150, 420))
        fs = float(rng.choice([1.0, 2.0, 100.0]))
        o = _an.options(rng, N)
        force = bool(rng.random() < 0.55)
        if o["scheduler"] == "vectorized_ltf" and force:
            o["scheduler"] = str(rng.choice(["ltf", "lpsd", "new_ltf"]))
        c = {"dseed": int(rng.integers(0, 2 ** 31 - 1)), "N": N, "fs": fs, "cross": False, "kind": "noise", "kind2": "noise", "layout": "2xN", "opts": o}
        if rng.random() < 0.2:
            o["olap"] = "default"
        if rng.random() < 0.5:
            o["num_patch_pts"] = int(rng.choice([5, 20, 50])) if rng.random() < 0.8 else None
        if force:
            if rng.random() < 0.8:
                force_target(c, int(rng.integers(100, 300)))          # a bin count the scheduler really produces
            else:
                o["force_target_nf"] = True
                o["Jdes"] = int(rng.choice([1, 3, 10 ** 5]))            # (probably) unreachable: the search returns None
        u = rng.random()
        if u < 0.25:
            o["band"] = [fs * 0.02, fs * 0.3]
        elif u < 0.5:
            o["band"] = [fs * 10.0, fs * 20.0]                          # empty: plan() raises in the band statement AFTER the config write
        elif u < 0.55:
            o["band"] = [fs * 0.3, fs * 0.02]                           # invalid
        if rng.random() < 0.15:
            o["Lmin"] = int(N // 3)                                     # validation failures for plans with short segments
        if rng.random() < 0.12:
            c["sched_name"] = str(rng.choice(["new_ltf_plan", "custom", "lpsd_plan"]))   # the name test is by __name__, whatever the callable does
        ops = [str(rng.choice(["p", "p", "c", "s"])) for _ in range(int(rng.integers(2, 6)))]
        r = cg_plan_case(ctx, P, c, ops, steps)
        if r is None:
            continue
        n += 1
        P.hit("configglue:plan:" + o["scheduler"] + (":force" if o.get("force_target_nf") else ""))
        if "ok" not in r:
            P.disagreements.append(r)
            if len(P.disagreements) > 12:
                return
        else:
            if any(x.startswith("E:") for x in r["real"]):
                P.hit("configglue:plan:history with a failing call")
            js = [x.split(",")[1] for x in r["real"]]
            if o.get("force_target_nf") and len(set(js)) > 1:
                P.hit("configglue:plan:Jdes rewritten more than once in one history")
    # the error path of DESIGN §8.3 (i), on the real code: force_target_nf + a band that is empty -> plan() raises after the config write
    N, fs = 300, 1.0
    c = {"dseed": 7, "N": N, "fs": fs, "cross": False, "kind": "noise", "kind2": "noise", "layout": "2xN",
         "opts": {"order": 0, "olap": 0.5, "Jdes": 150, "Kdes": 10, "bmin": 1.0, "Lmin": 1, "scheduler": "ltf", "win": "hann", "band": [fs * 10.0, fs * 20.0]}}
    force_target(c, 150)
    r = cg_plan_case(ctx, P, c, ["p", "p", "p"], steps)
    if r is not None and "ok" in r:
        first = r["real"][0].split(",")
        if first[0].startswith("E:") and int(first[1]) != int(c["opts"]["Jdes"]):
            P.hit("configglue:witness: config['Jdes'] overwritten by a plan() call that raised (real code and generated transformer agree)")
            P.notes.append(f"configglue witness (real code): force_target_nf, target {c['opts']['Jdes']}, empty band: plan() x3 -> {r['real']} "
                           "(result, config['Jdes'], cache) — the failed call leaves Jdes overwritten, the next call searches for that value")
    elif r is not None:
        P.disagreements.append(r)


def configglue_correspondence(ctx, P: C.Part, seed: int) -> None:
    if ctx.driver is None:
        return
    rng = np.random.default_rng([int(seed), 1414])
    t0 = time.time()
    for fn in (cg_window_run, cg_sched_run, cg_request_run, cg_plan_run):
        try:
            fn(ctx, P, rng)
        except RuntimeError as ex:       # driver error (e.g. the generated code no longer compiles into the running driver)
            P.disagreements.append({"op": "configglue", "what": f"{fn.__name__}: {ex!r}"[:300]})
    P.notes.append(f"configglue differential: {time.time() - t0:.1f}s")


# ------------------------------------------------------------------------------------------------ correspondence
def correspondence(ctx) -> C.Part:
    """the state-machine models are abstract (no driver op): the real objects are run against the models' PREDICTIONS —
    (a) Model.history_independent_list: each output of an op sequence on one analyzer = the output of that op on a fresh analyzer;
    (a') Model.lazyRun_empty / lazy_order_perm: an attribute's value is `eval name` whatever the access order;
    (b) the `eval` of the lazy-cache model is the generated attribute table: driver vs the real __getattr__ for every attribute name."""
    P = C.Part()
    rng = ctx.rng
    n_hist = ctx.scale(14, 150)
    t_end = time.time() + min(ctx.time_left() - 30.0, 240.0 if ctx.thorough else 25.0)
    for i in range(n_hist):
        if time.time() > t_end:
            P.notes.append("time budget reached (history)")
            break
        c = gen_case(rng, edge=(i % 6 == 5))
        slow = bool(c["opts"].get("force_target_nf")) and c["opts"]["scheduler"] == "vectorized_ltf"
        c.update({"check": "history", "ops": gen_ops(rng, c, int(rng.integers(3, 5 if slow else 13)))})
        run_payload(P, c, as_corr=True)
        if i < 2:
            P.sample({"op": "history", "N": c["N"], "cross": c["cross"], "opts": c["opts"], "ops": c["ops"]})
    for i in range(ctx.scale(3, 24)):
        run_payload(P, gen_attrs(rng, i, ctx.thorough), as_corr=True)
    # (b) generated attribute table vs the real __getattr__
    try:
        from speckit.analysis import SpectrumResult
        dyn = sorted((set(dir(_an.fake_result([_an.gen_bin(np.random.default_rng(0), True)], True, 1.0)))
                      - set(object.__dir__(_an.fake_result([_an.gen_bin(np.random.default_rng(0), True)], True, 1.0)))
                      - {"f", "r", "b", "L", "K", "navg", "D", "O", "XX", "YY", "XY", "S12", "S2", "M2", "compute_t", "i"}) | {"G"})
        del SpectrumResult
    except Exception as ex:
        dyn = []
        P.disagreements.append({"op": "attr", "what": f"cannot enumerate attribute names: {ex!r}"})
    names = [n for n in dyn if n not in NO_DRIVER_ATTR]
    if any(n in NO_DRIVER_ATTR for n in dyn):
        P.notes.append("cf_rad_unwrapped / cf_deg_unwrapped are cross-bin (np.unwrap): not in the per-bin generated table; covered by the oracle's access-order runs only")
    if ctx.driver is not None and names:
        _an.attr_correspondence(ctx, P, names, ctx.scale(6, 60))
    # region ConfigGlue: generated decision / state logic vs the real class (own random stream, seeded by one integer drawn at the end)
    configglue_correspondence(ctx, P, int(rng.integers(0, 2 ** 31 - 1)))
    return P


# ------------------------------------------------------------------------------------------------ oracle
def oracle(ctx, intensive: bool = False, hints: List[Dict[str, Any]] = ()) -> C.Part:
    P = C.Part()
    rng = ctx.rng
    mult = 4 if intensive else 1
    reserve = 15.0
    t_end = time.time() + min(ctx.time_left() - reserve, (700.0 if ctx.thorough else 60.0) * (2 if intensive else 1))

    def out_of_time() -> bool:
        if time.time() > t_end:
            if "time budget reached" not in P.notes:
                P.notes.append("time budget reached")
            return True
        return len(P.violations) >= 8

    # clean-interpreter runs are started first and collected at the end (they cost no wall time that way)
    n_iso = ctx.scale(6, 36) * mult
    rest = [v for v in ISO_VARIANTS if v not in ("psll", "win")]
    vorder = ["psll", "win"] + [rest[k] for k in rng.permutation(len(rest))]    # the rest is drawn: every seed covers different variants first
    iso = [gen_isolation(rng, vorder[i % len(vorder)], single=(i % 5 == 4)) for i in range(n_iso)]
    # clean interpreters: child c computes [B_i, A_i] for its share of the cases (each case has its own N / record, so B_i meets no
    # state that an analysis with other options could have left for it)
    n_child = min(len(iso), ctx.scale(3, 8))
    children = []
    try:
        for c in range(n_child):
            jobs = []
            for i in range(c, len(iso), n_child):
                jobs += [{"case": iso[i]["B"], "op": iso_ops(iso[i])}, {"case": iso[i]["A"], "op": iso_ops(iso[i])}]
            children.append(spawn_child(jobs))
    except Exception as ex:
        P.notes.append(f"clean-process comparison unavailable: {ex!r}"[:160])
    child_out: Dict[int, Any] = {}

    # 0. inputs on which the correspondence disagreed, then the fixed corpus
    first = [h["oracle_payload"] for h in hints if isinstance(h, dict) and isinstance(h.get("oracle_payload"), dict) and h["oracle_payload"].get("check") in CHECKS]
    for p in first[:10] + corpus():
        if out_of_time():
            break
        run_payload(P, p)
        P.hit("corpus")

    # 6. a cached plan must not leak into single-bin analyses (own random stream: the other streams of a seed are what they were)
    lrng = np.random.default_rng([int(ctx.seed), 1417])
    t_leak = time.time() + (90.0 if ctx.thorough else 8.0) * (2 if intensive else 1)
    for i in range(ctx.scale(12, 120) * mult):
        if out_of_time() or time.time() > t_leak:
            break
        p = gen_leak(lrng, i)
        run_payload(P, p)
        if i < 1:
            P.sample({"op": "leak", "N": p["N"], "cross": p["cross"], "opts": p["opts"], "phases": p["phases"]})

    # 1. thread schedules: analyses and bare kernels
    k = 0
    for rep in range(ctx.scale(1, 4) * mult):
        for order in (-1, 0, 1, 2):
            for cross in (False, True):
                if out_of_time():
                    break
                sched = _an.SCHEDS[(k + rep) % 4]
                p = sweep_case(order, cross, int(rng.integers(0, 2 ** 31 - 1)), scheduler=sched, N=int(rng.choice([20000, 12000, 30011])))
                if ctx.thorough and rep == 0:                  # every thread count 1..ncpu, more chunk sizes
                    p["threads"] = list(range(1, max_threads() + 1))
                    p["chunks"] = [0, 1, 2, 5, 17, 64]
                p["opts"]["olap"] = float(rng.choice([0.9, 0.95, 0.8]))
                p["opts"]["Kdes"] = int(rng.choice([50, 200]))
                if k % 3 == 2:
                    p["opts"]["win"] = "hann"
                    p["opts"].pop("psll")
                run_payload(P, p)
                if k < 1:
                    P.sample({"op": "threads", "N": p["N"], "opts": p["opts"], "threads": p["threads"], "chunks": p["chunks"]})
                k += 1
    for rep in range(ctx.scale(1, 3) * mult):
        for name in KERNELS:
            if out_of_time():
                break
            L = int(rng.choice([64, 200, 257]))
            p = {"check": "kernel", "kernel": name, "dseed": int(rng.integers(0, 2 ** 31 - 1)), "N": 30000, "L": L, "K": int(rng.choice([2000, 1999, 2500])),
                 "omega": float(rng.choice([2 * np.pi * 7 / L, float(rng.uniform(0.01, 3.0))])), "order": int(rng.choice([1, 2])),
                 "offset": float(rng.choice([0.0, 100.0])), "starts": str(rng.choice(["sorted", "random"])),
                 "threads": thread_counts(), "chunks": [0, 1, 5, 64], "repeat_last": 1}
            run_payload(P, p)

    # 5. analyses in one process do not influence each other; [B, A] in a clean interpreter
    for i, p in enumerate(iso):
        if out_of_time():
            break
        child = None
        if children:
            c = i % n_child
            if c not in child_out:
                child_out[c] = reap_child(children[c], min(90.0, max(5.0, t_end - time.time())))
                if child_out[c] is None:
                    P.notes.append("a clean-process run did not answer in time (not counted)")
            if child_out[c] is not None:
                k = 2 * (i // n_child)
                child = child_out[c][k:k + 2] if len(child_out[c]) >= k + 2 else None
        run_payload(P, p, child=child)
    # 4. attribute access order
    for i in range(ctx.scale(12, 300) * mult):
        if out_of_time():
            break
        p = gen_attrs(rng, i, ctx.thorough)
        run_payload(P, p)
        if i < 1:
            P.sample({"op": "attrs", "source": p["source"], "cross": p["cross"], "pseed": p["pseed"]})

    # 2./3. repetition and interleaving on one analyzer
    for i in range(ctx.scale(22, 800) * mult):
        if out_of_time():
            break
        c = gen_case(rng, edge=(i % 6 == 5))
        slow = bool(c["opts"].get("force_target_nf")) and c["opts"]["scheduler"] == "vectorized_ltf"
        n = int(rng.integers(3, 5 if slow else 13))
        ops = gen_ops(rng, c, n)
        if i % 4 == 0 and not slow:          # the literal patterns of the property text: repeat, plan unchanged by compute, interleave
            s = [o for o in ops if o[0] == "single"][:2] or [["single", 0.0, "L", max(1, c["N"] // 2)]]
            ops = [["plan"], ["compute"], ["compute"], ["plan"], s[0], ["compute"], ["plan"], s[-1], s[0], ["compute"]]
        c.update({"check": "history", "ops": ops})
        run_payload(P, c)
        if i < 2:
            P.sample({"op": "history", "N": c["N"], "cross": c["cross"], "opts": c["opts"], "ops": [o[0] for o in ops]})

    for ch in children:
        try:
            if ch.poll() is None:
                ch.kill()
        except Exception:
            pass
    P.notes.extend(_CHUNK_NOTE)
    P.notes.append(f"thread counts {thread_counts()} (NUMBA_NUM_THREADS={max_threads()}), chunk sizes [0, 1, 5, 64]")
    return P


def replay(ctx, data) -> C.Part:
    P = C.Part()
    for v in data.get("violations", []):
        p = (v.get("replay") or {}).get("payload")
        if isinstance(p, dict) and p.get("check") in CHECKS:
            child = None
            if p["check"] == "isolation":
                try:
                    child = reap_child(spawn_child([{"case": p["B"], "op": iso_ops(p)}, {"case": p["A"], "op": iso_ops(p)}]), 120.0)
                except Exception:
                    child = None
            run_payload(P, p, child=child)
    for b in data.get("broken_obligations", []):
        p = (b.get("case") or {}).get("oracle_payload") if isinstance(b, dict) else None
        if isinstance(p, dict) and p.get("check") in CHECKS:
            run_payload(P, p)
    return P
