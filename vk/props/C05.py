"""C05 — a computed spectrum is the reference estimator applied to its own plan.

correspondence: (a) the model's Kaiser window (driver `kaiser L beta`, I0 by its power series) vs the window the REAL analyzer
hands to its kernels (captured by tapping the kernel entry points of speckit.analysis) and vs the S12/S2 it stores;
(b) the model's single-bin segmentation (driver `singlebin N L olap`) vs the D reported by the real `compute_single_bin`,
and the model's round-to-even (driver `reven`) vs the segment length chosen for a `(freq, fres)` request.
oracle (real code only): every bin of full analyses, single-bin requests, band restrictions and back-to-back analyzers
against a direct extended-precision evaluation of the reference estimator from the result's OWN f, L, D (`_an`); plus sequences of
analyses of one record on one plan with DIFFERENT window callables (each result against the window rebuilt from its own callable)."""
from __future__ import annotations

import math
from fractions import Fraction
from typing import Any, Dict, List, Optional, Tuple

import numpy as np

from .. import common as C
from . import _an as A

PROP = "C05"
# obligations of the properties this one is downstream of are obligations of this check too (vk.runner.collect_obligations)
UPSTREAM = ["C01"]
GEN_REGIONS = ["CoreKernels", "Analysis", "Utils", "CudaKernels", "LpsdCore", "NumpyKernels", "EntryPoints", "GlobalState"]
THEOREMS = {
    # the request arithmetic of compute_single_bin as translated each run IS the model (segmentation) / the requested frequency (omega)
    "SpecKitV.Props.AnalysisGen": ["gen_single_bin_seg_eq_model", "gen_single_bin_omega_eq"],
    "SpecKitV.Lemmas.AnalyzerGlue": [
        "Model.coreStep_spec", "Model.coreLoop_eq_map", "Model.cachesOk_empty",
        "Model.band_commutes", "Model.band_commutes_zip", "Model.bandFilter_sublist",
        "singleBinStarts_whole", "singleBinStarts_in_range", "singleBinStarts_head",
        "kaiserWin_dft_even", "kaiserWin_nonneg", "kaiserWin_center", "kaiserAlpha_cubic"],
    "SpecKitV.Props.C01": [
        "stats_win_only_csd_eq_ref", "stats_win_only_auto_eq_ref", "stats_detrend0_csd_eq_ref", "stats_detrend0_auto_eq_ref",
        "stats_poly_csd_eq_ref", "stats_poly_auto_eq_ref"],
    # the glue between a plan and the kernels as translated each run (Gen/LpsdCore: `_lpsd_core` with its two dict caches and the 18-way
    # dispatch, the kernel section of `compute_single_bin`, plan()'s validation and band restriction) IS the model
    "SpecKitV.Props.LpsdCoreGen": [
        "LpsdCoreGen.gen_build_window_spec", "LpsdCoreGen.gen_build_window_flag", "LpsdCoreGen.gen_lpsd_core_step", "LpsdCoreGen.gen_lpsd_core_fold",
        "LpsdCoreGen.gen_lpsd_core_rows", "LpsdCoreGen.gen_lpsd_core_raises_iff", "LpsdCoreGen.dispatchWith_numba", "LpsdCoreGen.genCuda6_eq_genNumba6",
        "LpsdCoreGen.dispatchWith_genFamily", "LpsdCoreGen.gen_lpsd_core_eq_model", "LpsdCoreGen.gen_lpsd_core_sums",
        "LpsdCoreGen.gen_lpsd_core_eq_ref_cross", "LpsdCoreGen.gen_lpsd_core_eq_ref_auto", "LpsdCoreGen.gen_lpsd_core_bin_local",
        "LpsdCoreGen.gen_lpsd_core_band", "LpsdCoreGen.gen_lpsd_core_order1_add_line_auto", "LpsdCoreGen.lpsdWindow_kaiser",
        "LpsdCoreGen.lpsdWindow_kaiser_dft_even", "LpsdCoreGen.lpsdWindow_other", "LpsdCoreGen.gen_single_window",
        "LpsdCoreGen.gen_single_bin_section_eq_model", "LpsdCoreGen.gen_single_bin_eq_lpsdCore", "LpsdCoreGen.gen_plan_validate_arrays",
        "LpsdCoreGen.gen_plan_validate_eq_model", "LpsdCoreGen.gen_plan_validate_accepts_safe", "LpsdCoreGen.gen_plan_band_eq_model",
        "LpsdCoreGen.gen_plan_band_none",
        # all three backends concrete: the `_np` names are the translated NumPy fallbacks (Gen/NumpyKernels, default _chunk); no kernel-agreement
        # hypothesis left
        "LpsdCoreGen.dispatchWith_genNp6", "LpsdCoreGen.dispatchWith_genFamilyAll", "LpsdCoreGen.gen_lpsd_core_eq_model_all_backends",
        "LpsdCoreGen.gen_lpsd_core_eq_ref_all_backends_cross", "LpsdCoreGen.gen_lpsd_core_eq_ref_all_backends_auto",
        "LpsdCoreGen.gen_single_bin_section_all_backends"],
    "SpecKitV.Props.C05": ["lpsdCore_eq_ref_cross", "lpsdCore_eq_ref_auto", "lpsdCore_bin_local", "lpsdCore_band", "winSums_spec", "lpsdCore_single",
                           "lpsdCore_order1_add_line_auto", "lpsdCore_order1_add_line_cross"],
    # region EntryPoints: what the result object stores (D is ALWAYS one start vector per bin, every field value-preserved, nf = len f), the public
    # wrappers = analyzer construction + method, the backend decision table, the starts bounds check; and the per-bin loop instantiated with the
    # TRANSLATED backend decision
    "SpecKitV.Props.EntryPointsGen": ["EPG.gen_result_init_eq_model", "EPG.gen_result_D_rows", "EPG.gen_result_nf", "EPG.gen_result_float_preserved",
                                      "EPG.gen_result_int_preserved", "EPG.gen_result_XY_preserved", "EPG.gen_entry_points_forward",
                                      "EPG.gen_select_backend_table", "EPG.gen_check_starts_bounds_iff"],
    "SpecKitV.Props.EntryPointsLpsd": ["EPLpsd.gen_lpsd_core_translated_backend", "EPLpsd.selTranslated_names"],
    # the capstone: `_lpsd_core` / the single-bin section run with the TRANSLATED `_build_Q` (region BuildQ), the TRANSLATED `_select_backend`
    # (region EntryPoints) and the 18 TRANSLATED kernels = the reference estimator of every bin, for every plan with L >= 1 — no abstract
    # parameter left for library code; short segments (L <= order) stated outright; NumPy fallbacks with the 1 x 1 basis; scheduler bounds on L
    "SpecKitV.Props.PipelineClosed": [
        "PipelineClosed.libQ_cols_min", "PipelineClosed.libQ_cols", "PipelineClosed.libQ_two_cols", "PipelineClosed.old_hypothesis_false",
        "PipelineClosed.libQ_is_qr", "PipelineClosed.libQ_get_beyond", "PipelineClosed.refStats_libQ_short", "PipelineClosed.refStatsAuto_libQ_short",
        "PipelineClosed.dispatch_libQ_short", "PipelineClosed.dispatch_libQ_eq_ref_cross", "PipelineClosed.dispatch_libQ_eq_ref_auto",
        "PipelineClosed.np_poly_csd_onecol", "PipelineClosed.np_poly_auto_onecol", "PipelineClosed.np_poly_csd_libQ_L1",
        "PipelineClosed.np_poly_auto_libQ_L1", "PipelineClosed.np_numba_agree_poly_libQ", "PipelineClosed.dispatchWith_genFamilyAll_libQ",
        "PipelineClosed.lpsd_core_libQ_eq_ref_cross", "PipelineClosed.lpsd_core_libQ_eq_ref_auto", "PipelineClosed.lpsd_core_libQ_short",
        "PipelineClosed.single_bin_libQ", "PipelineClosed.pipeline_closed_cross", "PipelineClosed.pipeline_closed_auto",
        "PipelineClosed.pipeline_closed_short", "PipelineClosed.pipeline_closed_sums", "PipelineClosed.pipeline_closed_single_bin_cross",
        "PipelineClosed.pipeline_closed_single_bin_auto", "PipelineClosed.pipeline_closed_single_bin_short",
        "PipelineClosed.ltfPlan_L_ge_two", "PipelineClosed.lpsdPlan_L_ge_two", "PipelineClosed.newPlan_L_ge_three", "PipelineClosed.hL_of_plan"],
    # no state outlives a call in the files this property is anchored in (no module/class-level containers, memoisers, mutable defaults) and the
    # decorators are exactly the audited ones (region GlobalState, re-scanned from the current source each run)
    "SpecKitV.Props.GlobalStateGen": ["GlobalStateGen.gen_globalState_analysis", "GlobalStateGen.gen_globalState_flattop", "GlobalStateGen.gen_globalState_init"],
}
CONTRACTS = [
    "np.kaiser(L+1, beta)[:-1] is the DFT-even Kaiser window n -> I0(beta*sqrt(1-((n-L/2)/(L/2))^2))/I0(beta): NumPy's I0 is compared each run "
    "with the model's 80-term power series to 1e-12 (correspondence op `kaiser`)",
    "np.round is round-half-to-even, Python round() on a float is round-half-to-even, round_half_up(v) = floor(v + 1/2)",
    "_build_Q is TRANSLATED (region BuildQ) and proved to return min(L, order+1) orthonormal columns spanning the polynomials of degree < min(L, order+1) "
    "on the L-point grid; its one external ingredient is np.linalg.qr(mode='reduced') = Gram-Schmidt up to column signs (Np.qrReducedQ); "
    "the oracle's reference builds its own basis",
    # contracts of the translated region LpsdCore (lean/SpecKitV/Np/LpsdCore.lean; definitions, exercised by the genlpsdcore / gensinglebin /
    # genplanvalidate / genplanband runs against the real code)
    "Python dict used as a cache ({} / k in d / d[k] / d.get(k) / d[k] = v) = association list read with Model.lookup, newest entry first "
    "(NpLC.dictEmpty, dictHas, dictGet, dictGetOpt, dictSet); d[k] of a missing key (KeyError) is a stated default, never reached behind `k in d`",
    "np.sum(w) = left-to-right sum (NpLC.sum; NumPy's pairwise order differs by rounding only); a[:stop] with negative stop counts from the end (NpLC.sliceTo); "
    "m.any() / np.any(m) (NpLC.any); a[mask] = elements at the True positions in order (NpLC.maskSelect); [d for d, keep in zip(l, mask) if keep] "
    "(NpLC.zipFilter); np.isfinite(x) = (x - x == 0) (NpLC.isfinite)",
    "np.kaiser(M, beta) / scipy.signal.windows.kaiser(M, beta) = I0(beta*sqrt(1-((n-(M-1)/2)/((M-1)/2))^2))/I0(beta), n < M (NpLC.kaiser; used only in "
    "lpsdWindow_kaiser*); the window callable is a PARAMETER of the translated code (NpLC.WinFunc); _build_Q and _select_backend are parameters of the translated "
    "loop that Props/PipelineClosed instantiates with their own translations",
    "the 18 kernel entry points are fields of NpLC.KernelFamily named as in the source; which names serve which backend string is NpLC.KernelFamily.pick "
    "('cuda' -> *_cuda, 'numba' -> plain, otherwise *_np); in the *_all_backends theorems all 18 names are translated code: the "
    "`_np` names are the translated NumPy fallbacks (Gen/NumpyKernels) called with the default `_chunk` of their Python signature (taken from the generated "
    "`*_chunk_default`) and arbitrary np.empty contents; the older theorems keep the fallbacks abstract (Kernels6 + Agree6)",
    "a raise is modelled by a flag: every translated function returns (raised, value); values after a raise are unspecified in Python and are "
    "whatever the straight-line code computes here; time.perf_counter() and everything derived from it is ()",
]
ASSUMPTIONS = [
    "the per-bin loop with its window cache and its (L, order) basis cache, the 18-way kernel dispatch, the kernel section of compute_single_bin, "
    "plan()'s validation and band restriction are TRANSLATED from analysis.py on every run (Gen/LpsdCore) and proved equal to the hand model "
    "(Props/LpsdCoreGen); still tied by correspondence only: compute()'s collection of the rows into arrays and its nan_to_num, the request "
    "arithmetic of compute_single_bin before its kernel section other than the segmentation statement (Gen/Analysis), the Jdes search glue of plan()",
    "the kernels are abstract in Model.coreLoop_eq_map; their meaning is C01's theorems over the translated Numba source "
    "(NumPy fallbacks and CUDA: see C01)",
    "rounding / fastmath re-association are covered by the stated forward tolerance (_an.bin_tol), not by theorem",
    "that a (freq, fres) request uses L = round(fs/fres) and that navg follows round_half_up are checked by correspondence only: "
    "the property speaks about the segmentation a single-bin analysis REPORTS",
]
RULE = ("oracle cases = (record kind x auto/cross x layout, N in 300..3000 plus an edge stream N in 8..33 / zero / constant records, options from "
        "_an.options over 4 schedulers x orders -1..2 x windows {kaiser(psll), default np.kaiser, scipy kaiser, hann, L-hashed callable} x backends "
        "{numba, numpy}) each followed by single-bin requests (by L and by fres), bands with edges ON plan frequencies / between bins / empty, "
        "and a second analyzer with another order/window on the same plan; window sequences = per group one record and ONE set of plan parameters "
        "(N in 160..360, all segment lengths shared) analysed back to back with 3..6 different window callables (NumPy/SciPy functions, closures "
        "sharing __name__, lambdas, functools.partial and callable objects without __name__, bound methods, all rebuilt from a spec for the "
        "reference) interleaved with hann / Kaiser at far and nearly equal psll, orders -1..2, both backends, compute / compute_spectrum / lpsd, "
        "two single-bin requests (L = N and a shared L) per analysis; every catalogue entry opens one group and is a later member of others; "
        "correspondence cases = (L, psll) Kaiser windows and (N, L, olap) "
        "single-bin segmentations incl. exact rounding ties, and (generated region LpsdCore) small real/user plans (<= 14 bins, L <= 260, index blocks in "
        "and out of order) through Gen._lpsd_core vs the real _lpsd_core rows, one single-bin request each, <= 5 bands each through Gen.plan_band vs "
        "the real plan(band=), one accepted/corrupted scheduler output each through Gen.plan_validate vs the real plan(). distinct by the tuple shown in the key; non-trivial = plan with >= 2 bins and some K >= 2 "
        "(full), K >= 2 or L >= 3 (single-bin), 0 < #in-band < #bins or an empty band (band), L >= 3 (kaiser), navg >= 2 (segmentation), a callable-window analysis with >= 1 segment length used before in this process by ANOTHER callable (winseq)")

U = 2.0 ** -53
PLAN_FIELDS = ("f", "r", "b", "L", "K", "navg", "O")
COMP_FIELDS = ("XX", "YY", "XY", "S12", "S2", "M2")
WINKINDS = ["kaiser", "hashwin", "hann", "default", "kaiser", "hashwin", "spkaiser"]


def hashwin(L: int) -> np.ndarray:
    """a window whose values depend on L: a window of another length, or of another bin, is detectably different"""
    return 0.5 + ((np.arange(L) * 7 + 3 * L) % 11) / 11


def salted(L: int, salt: int = 0) -> np.ndarray:
    """a family of L-hashed windows: members with different salts differ in level (so in both window sums) and in pattern"""
    L = int(L)
    return (0.5 + (int(salt) % 16) / 16.0) + ((np.arange(L) * 7 + 3 * L + int(salt)) % 11) / 11


class _CallWin:
    """a window handed over as an object with __call__ (no __name__; every instance has the same type) or as a bound method of such an object"""

    def __init__(self, salt: int):
        self.salt = int(salt)

    def __call__(self, L):
        return salted(L, self.salt)

    def window(self, L):
        return salted(L, self.salt + 5)


def make_window(spec: str):
    """a FRESH callable for a window spec (the library gets one object, the reference builds its window from another one): NumPy / SciPy window
    functions, closures that share __name__ (and code object), lambdas, functools.partial objects and callable objects without __name__, bound methods"""
    import functools
    from scipy.signal import windows as spw
    t = spec.split(":")
    k = t[0]
    if k == "np":
        return getattr(np, t[1])
    if k == "sp":
        return getattr(spw, t[1])
    if k == "boxcar":
        return lambda L: np.ones(int(L))
    if k == "hash":
        salt = int(t[1])

        def hashwin(L):                                  # noqa: F811  (same __name__ as the module-level window, same code object for every salt)
            return salted(L, salt)
        return hashwin
    if k == "lambda":
        p = float(t[1])
        return lambda L: np.hanning(int(L) + 2)[1:-1] ** p
    if k == "partial":
        if t[1] == "tukey":
            return functools.partial(spw.tukey, alpha=float(t[2]))
        if t[1] == "kaiser":                             # NOT the Kaiser entry of the analyzer: an opaque callable L -> symmetric kaiser(L, beta)
            return functools.partial(spw.kaiser, beta=float(t[2]))
        if t[1] == "salted":
            return functools.partial(salted, salt=int(t[2]))
    if k == "obj":
        return _CallWin(int(t[1]))
    if k == "bound":
        return _CallWin(int(t[1])).window
    raise ValueError(spec)


def winfam(wk: str) -> str:
    """window kind without its random parameters (histogram / signature key)"""
    if not wk.startswith("cb:"):
        return wk
    t = wk.split(":")
    return ":".join(t[:3] if t[1] in ("np", "sp", "partial") else t[:2])


def custom_sched(seed: int):
    """a user scheduler (the analyzer accepts callables): a valid plan whose segment lengths repeat, are NOT monotone, contain
    neighbours L, L+1, L, L-1 and patterns A, B, A — so a window / basis cached under a wrong key, or taken from another bin, shows;
    starts are unsorted with occasional repeats; frequencies are not tied to L, and are unsorted for every third seed"""
    def custom_plan(N, fs, olap, Lmin=1, **kw):
        rng = np.random.default_rng(seed)
        lo = max(1, int(Lmin))
        hi = max(lo, min(int(N), 96))
        Ls: List[int] = []
        for b in rng.integers(lo, hi + 1, size=4).tolist():
            Ls += [b, min(hi, b + 1), b, max(lo, b - 1), min(hi, b + 2), b]
        Ls += [lo, hi, int(N), min(hi, lo + 1), lo]
        nb = int(rng.integers(8, len(Ls) + 1))
        Ls = [Ls[int(q)] for q in rng.permutation(len(Ls))[:nb]]
        f = rng.uniform(0.002, 0.498, size=nb) * float(fs)
        if seed % 3:
            f = np.sort(f)
        L = np.array(Ls, dtype=np.int64)
        D = []
        for Lj in Ls:
            K = int(rng.choice([1, 2, 3, 5, 8]))
            d = rng.integers(0, int(N) - Lj + 1, size=K)
            if K >= 3 and rng.random() < 0.3:
                d[1] = d[0]
            D.append(d.astype(np.int64))
        r = float(fs) / L
        Ks = np.array([len(d) for d in D], dtype=np.int64)
        return {"f": f, "r": r, "b": f / r, "L": L, "K": Ks, "navg": Ks.copy(), "D": D, "O": np.full(nb, float(olap))}
    custom_plan.__name__ = f"custom_plan_{seed}"
    return custom_plan


# ---------------------------------------------------------------- cases
def real_kwargs(case: Dict[str, Any]) -> Dict[str, Any]:
    o = dict(case["opts"])
    wk = o.pop("winkind")
    psll = o.pop("psll", None)
    if isinstance(o["scheduler"], str) and o["scheduler"].startswith("custom:"):
        o["scheduler"] = custom_sched(int(o["scheduler"].split(":")[1]))
    if wk == "kaiser":
        o["win"], o["psll"] = "kaiser", psll
    elif wk == "default":                    # the constructor's default window (np.kaiser callable)
        o["psll"] = psll
    elif wk == "spkaiser":
        from scipy.signal.windows import kaiser as sp_kaiser
        o["win"], o["psll"] = sp_kaiser, psll
    elif wk == "hann":
        o["win"] = "hann"
    elif wk == "hashwin":
        o["win"] = hashwin
    elif wk.startswith("cb:"):               # a window callable described by a spec string (make_window)
        o["win"] = make_window(wk[3:])
    else:
        raise ValueError(wk)
    return o


def ref_window(case: Dict[str, Any]) -> Tuple[Any, Optional[float]]:
    wk = case["opts"]["winkind"]
    if wk in ("kaiser", "default", "spkaiser"):
        return "kaiser", float(case["opts"]["psll"])
    if wk == "hann":
        return "hann", None
    if wk.startswith("cb:"):                 # rebuilt from the spec: another object than the one the library was given
        return make_window(wk[3:]), None
    return hashwin, None


def channels(case) -> Tuple[np.ndarray, Optional[np.ndarray]]:
    d = case["data"]
    return (d, None) if d.ndim == 1 else (d[0], d[1])


def data_arg(case) -> np.ndarray:
    d = case["data"]
    if d.ndim == 2 and case["layout"] == "Nx2":
        return np.ascontiguousarray(d.T)
    return d


def gen_case(rng: np.random.Generator, i: int, edge: bool = False, small: bool = False) -> Dict[str, Any]:
    if edge:
        N = int(rng.choice([8, 9, 12, 16, 17, 33]))
        kind = str(rng.choice(["zero", "const", "noise", "offset"]))
    else:
        N = int(rng.integers(300, 901 if small else 3001))
        kind = str(rng.choice(["noise", "offset", "drift", "tone"]))
    cross = bool(rng.random() < 0.4)
    x1 = A.record(rng, N, kind)
    if cross:
        x2 = 0.5 * np.roll(x1, 3) + A.record(rng, N, "noise" if kind in ("zero", "const") and rng.random() < 0.5 else kind)
        data = np.ascontiguousarray(np.stack([x1, x2]))
        layout = str(rng.choice(["2xN", "Nx2"]))
    else:
        data, layout = x1, "1d"
    fs = float(rng.choice([1.0, 2.0, 1000.0, float(rng.uniform(0.1, 1e4))]))
    o = A.options(rng, N)
    o.pop("win", None)
    o.pop("psll", None)
    if edge:
        o.update(Jdes=int(rng.integers(2, 8)), bmin=1.0, Lmin=int(rng.choice([1, 2])), Kdes=int(rng.choice([1, 2])))
    if i % 4 == 3:                         # a user scheduler with repeated / neighbouring / non-monotone segment lengths
        o["scheduler"] = f"custom:{int(rng.integers(0, 2 ** 31))}"
    elif i % 8 == 1 and not edge:          # dense built-in plans (segment lengths step by 1 or 2)
        o["Jdes"] = int(rng.integers(60, 200))
    wk = WINKINDS[i % len(WINKINDS)]
    o["winkind"] = wk
    if wk in ("kaiser", "default", "spkaiser"):
        o["psll"] = float(rng.choice([40.0, 60.0, 100.0, 200.0, float(rng.uniform(40, 200))]))
    if rng.random() < 0.15:
        o["olap"] = "default"
    o["backend"] = str(rng.choice(["numba", "numpy"]))
    return {"data": data, "layout": layout, "fs": fs, "opts": o, "kind": kind}


def dump_case(case) -> Dict[str, Any]:
    return {"data": case["data"].tolist(), "layout": case["layout"], "fs": case["fs"], "opts": dict(case["opts"]), "kind": case.get("kind", "?")}


def load_case(d) -> Dict[str, Any]:
    return {"data": np.array(d["data"], dtype=float), "layout": d["layout"], "fs": float(d["fs"]), "opts": dict(d["opts"]), "kind": d.get("kind", "?")}


def brief(case) -> str:
    o = case["opts"]
    N = case["data"].shape[-1]
    return (f"N={N} fs={case['fs']!r} {'cross/' + case['layout'] if case['data'].ndim == 2 else 'auto'} scheduler={o['scheduler']} order={o['order']} "
            f"win={o['winkind']}{'' if o.get('psll') is None else '(psll=%r)' % o['psll']} olap={o['olap']!r} Jdes={o['Jdes']} Kdes={o['Kdes']} "
            f"bmin={o['bmin']} Lmin={o['Lmin']} backend={o['backend']}")


def sig(case, sub: str, **kw) -> Dict[str, Any]:
    o = case["opts"]
    s = {"subclaim": sub, "scheduler": str(o["scheduler"]).split(":")[0], "order": o["order"], "win": winfam(o["winkind"]), "backend": o["backend"],
         "cross": case["data"].ndim == 2}
    s.update(kw)
    return s


def make_analyzer(case, **extra):
    return A.analyzer(data_arg(case), case["fs"], **dict(real_kwargs(case), **extra))


# ---------------------------------------------------------------- oracle sub-checks (real code only)
def ref_mismatches(res, case, bins=None):
    x1, x2 = channels(case)
    win, psll = ref_window(case)
    try:
        return list(A.check_result_against_ref(res, x1, x2, int(case["opts"]["order"]), win, psll, case["fs"], bins=bins))
    except Exception as ex:
        # the reference is evaluated from the result's OWN f[j], L[j], D[j]: if that cannot even be done (a start list that does not fit its segment
        # length, fields of different bins paired up) the per-bin fields are misaligned — a violation of the property, not an error of the check
        nf = len(res.f)
        j = next((i for i in range(nf) if len(res.D[i]) and int(max(res.D[i])) + int(res.L[i]) > len(x1)), nf - 1)
        return [(j, "alignment", f"D[{j}] (max start {int(max(res.D[j])) if len(res.D[j]) else None}) with L[{j}]={int(res.L[j])} on a record of {len(x1)}",
                 f"segments inside the record; reference evaluation raised {ex!r}"[:200], 0.0)]


class _Lazy(dict):
    """replay record that also carries the analysis run just before (dumped only if a violation is actually stored)"""

    def __init__(self, d, prev):
        super().__init__(d)
        self._prev = prev

    def final(self) -> Dict[str, Any]:
        return dict(self, prev=dump_case(self._prev))


def _rp(rp) -> Dict[str, Any]:
    return rp.final() if isinstance(rp, _Lazy) else rp


def lengths_ok(res, nf: int) -> Optional[str]:
    for k in PLAN_FIELDS + COMP_FIELDS + ("D",):
        try:
            n = len(getattr(res, k))
        except Exception as ex:  # noqa
            return f"field {k} unavailable ({ex!r})"
        if n != nf:
            return f"field {k} has {n} entries for {nf} bins"
    return None


_LAST: List[Any] = [None]      # the analysis that ran before the current one in this process (kept for replays: process-level state)


def run_full(P: C.Part, case, an=None, via: str = "class", tag: str = "full", replay: Optional[Dict[str, Any]] = None):
    """sub-claims 1, 2: every bin of a full analysis equals the reference evaluated from the result's own f, L, D. Returns (analyzer, result)."""
    prev, _LAST[0] = _LAST[0], case
    rp = replay if replay is not None else {"kind": "full", "case": dump_case(case), "via": via}
    if replay is None and prev is not None and prev is not case:
        rp = _Lazy(rp, prev)
    try:
        if an is None:
            an = make_analyzer(case)
        an.plan()
    except Exception as ex:  # planning is C02–C04's business; nothing to evaluate here
        P.hit("plan-raised(skipped)")
        if len(P.notes) < 5:
            P.notes.append(f"plan raised {ex!r} for {brief(case)}"[:300])
        return None, None
    P.cases += 1
    try:
        if via == "class":
            res = an.compute()
        else:
            import speckit
            res = getattr(speckit, via)(data_arg(case), case["fs"], **real_kwargs(case))
    except Exception as ex:
        P.violations.append(C.Violation(what=f"analysis raised {ex!r} although its plan is valid: {brief(case)}",
                                        signature=sig(case, tag, raises=True), replay=_rp(rp)))
        return an, None
    nf = len(res.f)
    msg = lengths_ok(res, nf)
    if msg:
        P.violations.append(C.Violation(what=f"{msg}: {brief(case)}", signature=sig(case, tag, field="length"), replay=_rp(rp)))
        return an, None
    Ls = np.asarray(res.L)
    Ks = [len(d) for d in res.D]
    tot = int(sum(Ks))
    bins = None
    if tot > 12000:                                   # large plan: a random subset of the bins (always first and last)
        rng = np.random.default_rng(abs(hash((nf, tot))) % (2 ** 32))
        keep = sorted(set([0, nf - 1] + rng.choice(nf, size=max(4, nf // 2), replace=False).tolist()))
        bins = keep
        P.hit("subset-of-bins")
    bad = ref_mismatches(res, case, bins)
    o = case["opts"]
    rep = nf - len(set(Ls.tolist()))
    P.hit(f"{tag}:{str(o['scheduler']).split(':')[0]}")
    P.hit(f"{tag}:order={o['order']}")
    P.hit(f"{tag}:win={winfam(o['winkind'])}")
    P.hit(f"{tag}:backend={o['backend']}")
    P.hit(f"{tag}:{'cross' if case['data'].ndim == 2 else 'auto'}")
    P.hit(f"{tag}:bins", nf if bins is None else len(bins))
    if rep:
        P.hit(f"{tag}:plans-with-repeated-L")
    if nf >= 2 and max(Ks) >= 2:
        P.nontrivial.add((tag, str(o["scheduler"]).split(":")[0], o["order"], o["winkind"], o["backend"], case["data"].ndim, case["data"].shape[-1], nf))
    if bad:
        j, k, ob, ex, tol = bad[0]
        P.violations.append(C.Violation(
            what=(f"bin {j} of {nf}: {k} = {ob!r} but the reference estimator at the result's own f={float(res.f[j])!r}, L={int(Ls[j])}, "
                  f"K={Ks[j]} gives {ex!r} (tol {tol:.3g}; {len(bad)} field(s) off in this analysis): {brief(case)}"),
            signature=sig(case, tag, field=k), replay=dict(_rp(rp), bin=int(j), field=k, observed=ob, expected=ex, tol=tol)))
    return an, res


def gen_requests(rng: np.random.Generator, N: int, fs: float, edge: bool, n: int) -> List[Dict[str, Any]]:
    out = []
    for t in range(n):
        if t % 2 == 0:
            if edge or rng.random() < 0.3:
                L = int(rng.choice([1, 2, 3, N, N - 1, int(rng.integers(1, N + 1)), int(rng.integers(4, max(5, N // 4)))]))
            else:
                L = int(rng.integers(4, N + 1))
            fk = int(rng.integers(0, 3))
            freq = float(rng.uniform(0, fs / 2)) if fk < 2 else float(fs * int(rng.integers(1, max(2, L // 2 + 1))) / L)
            freq = min(max(freq, fs * 1e-6), fs / 2 * (1 - 1e-9))
            out.append({"freq": freq, "L": L, "via": "function" if t % 4 == 2 else "method"})
        else:
            Lt = int(rng.integers(1, N))
            fres = fs / (Lt + float(rng.uniform(-0.4, 0.4)))
            out.append({"freq": float(rng.uniform(fs * 1e-6, fs / 2 * (1 - 1e-9))), "fres": float(fres), "via": "method" if t % 4 == 1 else "function"})
    return out


def run_single(P: C.Part, case, an, req, tag: str = "single", replay: Optional[Dict[str, Any]] = None):
    """sub-claim 3: a single-bin analysis equals the reference for the (f, L, D) it reports, and reports a consistent segmentation"""
    rp = replay if replay is not None else {"kind": "single", "case": dump_case(case), "req": dict(req)}
    N = case["data"].shape[-1]
    fs = case["fs"]
    kw = {"L": req["L"]} if "L" in req else {"fres": req["fres"]}
    P.cases += 1
    try:
        if req.get("via") == "function":
            import speckit
            r = speckit.compute_single_bin(data_arg(case), fs, req["freq"], **dict(real_kwargs(case), **kw))
        else:
            if an is None:
                an = make_analyzer(case)
            r = an.compute_single_bin(req["freq"], **kw)
    except Exception as ex:
        P.violations.append(C.Violation(what=f"compute_single_bin({req}) raised {ex!r}: {brief(case)}", signature=sig(case, tag, raises=True), replay=rp))
        return None

    def fail(field, text):
        P.violations.append(C.Violation(what=f"single-bin {req}: {text}: {brief(case)}", signature=sig(case, tag, field=field), replay=rp))
    msg = lengths_ok(r, 1)
    if msg:
        return fail("length", msg)
    f, rr, b, L = float(r.f[0]), float(r.r[0]), float(r.b[0]), int(r.L[0])
    D = np.asarray(r.D[0])
    P.hit(f"{tag}:{'by-L' if 'L' in req else 'by-fres'}")
    P.hit(f"{tag}:K=1" if len(D) == 1 else f"{tag}:K>=2")
    if len(D) >= 2 or L >= 3:
        P.nontrivial.add((tag, "L" in req, L, len(D), case["opts"]["order"], case["opts"]["winkind"], case["opts"]["backend"], case["data"].ndim))
    if f != req["freq"]:
        return fail("f", f"reported f={f!r} is not the requested frequency")
    if not (1 <= L <= N):
        return fail("L", f"reported L={L} outside 1..N={N}")
    if "L" in req:
        if L != int(req["L"]):
            return fail("L", f"reported L={L} is not the requested segment length")
        if not abs(rr - fs / L) <= 4 * U * (fs / L):
            return fail("r", f"reported r={rr!r} but fs/L={fs / L!r}")
    if not (rr > 0) or not abs(b - f / rr) <= 4 * U * abs(f / rr):
        return fail("b", f"reported b={b!r} but f/r={f / rr if rr else float('nan')!r}")
    if not (int(r.K[0]) == int(r.navg[0]) == len(D)) or len(D) < 1:
        return fail("K", f"K={int(r.K[0])}, navg={int(r.navg[0])}, len(D)={len(D)} differ")
    if int(D[0]) != 0 or (D < 0).any() or (D > N - L).any():
        return fail("D", f"starts {D[:4].tolist()}..{D[-2:].tolist()} not in 0..N-L={N - L} beginning at 0")
    bad = ref_mismatches(r, case)
    if bad:
        j, k, ob, ex, tol = bad[0]
        P.violations.append(C.Violation(
            what=(f"single-bin {req}: {k} = {ob!r} but the reference estimator at the reported f={f!r}, L={L}, K={len(D)} gives {ex!r} "
                  f"(tol {tol:.3g}): {brief(case)}"), signature=sig(case, tag, field=k),
            replay=dict(rp, field=k, observed=ob, expected=ex, tol=tol)))
    return r


def gen_bands(rng: np.random.Generator, f: np.ndarray, fs: float, n: int) -> List[Tuple[float, float]]:
    nf = len(f)
    a, b = sorted(int(v) for v in rng.integers(0, nf, size=2))
    k = int(rng.integers(0, nf))
    bands = [(float(f[a]), float(f[b])),                         # both edges ON plan frequencies
             (float(f[k]), float(f[k])),                         # degenerate band on one plan frequency
             (float(f[0]), float(f[-1]))]                        # first and last frequency exactly
    if nf >= 2:
        m = int(rng.integers(0, nf - 1))
        lo, hi = float(f[m]), float(f[m + 1])
        bands.append((lo + 0.25 * (hi - lo), lo + 0.75 * (hi - lo)))          # strictly between two adjacent bins: empty
        bands.append((float(np.nextafter(f[a], np.inf)), float(np.nextafter(f[b], -np.inf))))   # edges one ulp inside
        bands.append((0.5 * (f[a] + f[max(a - 1, 0)]), 0.5 * (f[b] + f[min(b + 1, nf - 1)])))    # edges between bins
        bands.append((float(f[a]), 0.5 * (f[b] + f[min(b + 1, nf - 1)])))                      # lower edge exact only
        bands.append((0.5 * (f[a] + f[max(a - 1, 0)]), float(f[b])))                           # upper edge exact only
    bands += [(0.0, fs), (-1.0, 1e12), (float(f[-1]) * 1.5 + 1.0, float(f[-1]) * 2 + 2.0), (0.0, float(f[0]) * 0.5)]
    if a != b:
        bands.append((float(f[b]), float(f[a])))                 # reversed edges contain nothing
    head = bands[:3]
    rest = bands[3:]
    pick = rng.permutation(len(rest))[:max(0, n - 3)]
    return head + [rest[int(q)] for q in pick]


def run_band(P: C.Part, case, full, band: Tuple[float, float], tag: str = "band"):
    """sub-claim 4: the banded analysis is the sub-list of the unrestricted one at exactly the indices with fmin <= f <= fmax"""
    rp = {"kind": "band", "case": dump_case(case), "band": [float(band[0]), float(band[1])]}
    fmin, fmax = float(band[0]), float(band[1])
    ff = np.asarray(full.f)
    idx = np.flatnonzero((ff >= fmin) & (ff <= fmax))
    nf = len(ff)
    P.cases += 1
    onedge = bool((ff == fmin).any()) + bool((ff == fmax).any())
    P.hit(f"{tag}:{'empty' if idx.size == 0 else 'all' if idx.size == nf else 'proper'}")
    P.hit(f"{tag}:edges-on-plan-frequencies={onedge}")
    if idx.size < nf:
        P.nontrivial.add((tag, str(case["opts"]["scheduler"]).split(":")[0], nf, int(idx.size), int(idx[0]) if idx.size else -1, onedge, case["data"].shape[-1]))
    try:
        sub = make_analyzer(case, band=(fmin, fmax)).compute()
    except ValueError as ex:
        if idx.size == 0:
            return
        P.violations.append(C.Violation(
            what=(f"band=({fmin!r}, {fmax!r}) contains {idx.size} plan frequencies {ff[idx][:2].tolist()}..{ff[idx][-1:].tolist()} "
                  f"but the analysis raised {ex!r}: {brief(case)}"), signature=sig(case, tag, field="raises"), replay=rp))
        return
    except Exception as ex:
        P.violations.append(C.Violation(what=f"band=({fmin!r}, {fmax!r}) with {idx.size} in-band bins: analysis raised {ex!r} (ValueError is the "
                                             f"only admissible error, and only for an empty band): {brief(case)}",
                                        signature=sig(case, tag, field="raises"), replay=rp))
        return
    if idx.size == 0:
        P.violations.append(C.Violation(what=f"band=({fmin!r}, {fmax!r}) contains no plan frequency but the analysis returned {len(sub.f)} bins "
                                             f"instead of raising ValueError: {brief(case)}", signature=sig(case, tag, field="empty-band"), replay=rp))
        return
    msg = lengths_ok(sub, idx.size)
    if msg:
        P.violations.append(C.Violation(
            what=(f"band=({fmin!r}, {fmax!r}): {idx.size} plan frequencies are in band (indices {int(idx[0])}..{int(idx[-1])} of {nf}) but {msg}; "
                  f"returned f={np.asarray(sub.f)[:2].tolist()}..{np.asarray(sub.f)[-1:].tolist()}, expected {ff[idx][:2].tolist()}..{ff[idx][-1:].tolist()}: "
                  f"{brief(case)}"), signature=sig(case, tag, field="count"), replay=rp))
        return
    for k in PLAN_FIELDS:
        a, b = np.asarray(getattr(sub, k)), np.asarray(getattr(full, k))[idx]
        if not np.array_equal(a, b):
            j = int(np.flatnonzero(a != b)[0])
            P.violations.append(C.Violation(what=f"band=({fmin!r}, {fmax!r}): {k}[{j}] = {a[j]!r} but the unrestricted analysis has {b[j]!r} at in-band "
                                                 f"index {int(idx[j])}: {brief(case)}", signature=sig(case, tag, field=k), replay=rp))
            return
    for j, i in enumerate(idx):
        if not np.array_equal(np.asarray(sub.D[j]), np.asarray(full.D[int(i)])):
            P.violations.append(C.Violation(what=f"band=({fmin!r}, {fmax!r}): D[{j}] (K={len(sub.D[j])}) differs from the unrestricted D[{int(i)}] "
                                                 f"(K={len(full.D[int(i)])}): {brief(case)}", signature=sig(case, tag, field="D"), replay=rp))
            return
    for k in COMP_FIELDS:
        a, b = np.asarray(getattr(sub, k)), np.asarray(getattr(full, k))[idx]
        if np.array_equal(a, b):
            continue
        # not bit-identical: admissible only if the banded bins are still within the rounding budget of the reference
        js = np.flatnonzero(a != b).tolist()
        bad = ref_mismatches(sub, case, bins=js)
        if bad:
            j, kk, ob, ex, tol = bad[0]
            P.violations.append(C.Violation(
                what=(f"band=({fmin!r}, {fmax!r}): {k}[{js[0]}] = {a[js[0]]!r} but the unrestricted analysis has {b[js[0]]!r} at in-band index "
                      f"{int(idx[js[0]])}, and band-bin {j} {kk} = {ob!r} is off its own reference {ex!r} (tol {tol:.3g}): {brief(case)}"),
                signature=sig(case, tag, field=k), replay=rp))
            return
        P.hit(f"{tag}:computed-field-differs-within-rounding")


def partner(rng: np.random.Generator, case) -> Dict[str, Any]:
    """same record, same plan options, another order and another window/psll: sub-claim 5 (no process-level state)"""
    o = dict(case["opts"])
    o["order"] = int(rng.choice([v for v in (-1, 0, 1, 2) if v != o["order"]]))
    if o["olap"] == "default":
        o["olap"] = 0.5
    wk = o["winkind"]
    if wk in ("kaiser", "default", "spkaiser"):
        if rng.random() < 0.6:
            o["psll"] = float(o["psll"] * 0.5 + 15.0) if o["psll"] > 80 else float(o["psll"] + 77.0)
        else:
            o["winkind"] = str(rng.choice(["hann", "hashwin"]))
            o.pop("psll", None)
    else:
        o["winkind"] = "kaiser"
        o["psll"] = float(rng.choice([50.0, 120.0, 200.0]))
    return dict(case, opts=o)


def run_pair(P: C.Part, rng: np.random.Generator, caseA, caseB=None, reqs=None):
    if caseA["opts"]["olap"] == "default":
        caseA = dict(caseA, opts=dict(caseA["opts"], olap=0.5))
    if caseB is None:
        caseB = partner(rng, caseA)
    N = caseA["data"].shape[-1]
    if reqs is None:
        L = int(rng.integers(4, max(5, N // 3)))
        reqs = [{"freq": float(rng.uniform(0.01, 0.49)) * caseA["fs"], "L": L, "via": "method"}]
    rp = {"kind": "pair", "case": dump_case(caseA), "caseB": dump_case(caseB), "reqs": reqs}
    try:
        a1, a2 = make_analyzer(caseA), make_analyzer(caseB)
    except Exception as ex:
        P.violations.append(C.Violation(what=f"constructor raised {ex!r}: {brief(caseA)} / {brief(caseB)}", signature=sig(caseA, "pair", raises=True), replay=rp))
        return
    # interleaved: A, B, single(A), single(B), A again — each against ITS OWN reference
    run_full(P, caseA, an=a1, tag="pair", replay=rp)
    run_full(P, caseB, an=a2, tag="pair", replay=rp)
    for q in reqs:
        run_single(P, caseA, a1, q, tag="pair-single", replay=rp)
        run_single(P, caseB, a2, q, tag="pair-single", replay=rp)
    run_full(P, caseA, an=None, tag="pair", replay=rp)


def one_round(P: C.Part, rng: np.random.Generator, i: int, edge: bool, n_single: int, n_band: int, do_pair: bool):
    case = gen_case(rng, i, edge=edge)
    via = "class" if i % 5 else str(rng.choice(["compute_spectrum", "lpsd"]))
    an, res = run_full(P, case, via=via, tag="edge" if edge else "full")
    N = case["data"].shape[-1]
    if an is None:
        try:
            an = make_analyzer(case)
        except Exception:
            return case
    for q in gen_requests(rng, N, case["fs"], edge, n_single):
        run_single(P, case, an, q)
    if res is not None:
        for bd in gen_bands(rng, np.asarray(res.f), case["fs"], n_band):
            run_band(P, case, res, bd)
    if do_pair:
        run_pair(P, rng, gen_case(rng, i, small=True) if not edge else case)
    return case


# ---------------------------------------------------------------- window sequences: a spectrum depends on ITS OWN window only
# One record, ONE set of plan parameters (so every segment length, L = N included, is met again by every analysis of the group), analysed
# back to back with a sequence of DIFFERENT window callables interleaved with named windows and Kaiser windows at far and at nearly equal
# psll, orders -1..2, both backends, compute() / compute_spectrum / lpsd, plus single-bin requests at two shared lengths. Every result is
# checked against the reference built from its own f, L, D and the window rebuilt from ITS OWN spec (run_full / run_single: existing
# predicates and tolerances). Anything that survives a call — a window / window sums / basis remembered under a key that does not identify
# the callable (a label, __name__, the type, id() of a freed object, L alone), in any analyzer, for any entry point — shows in the later
# analyses of the group.
_SEEN_L: Dict[int, set] = {}      # measured non-triviality: segment length -> callable specs that have used it in this process


def callable_catalogue(rng: np.random.Generator) -> List[str]:
    """window callables with fresh parameters; members of one family (same __name__ / same type / no __name__) are neighbours in the list"""
    s = [int(v) for v in rng.permutation(np.arange(1, 11))]           # distinct salts (distinct modulo 11 and modulo 16)
    p1 = float(np.round(rng.uniform(0.3, 0.9), 3))
    p2 = float(np.round(rng.uniform(1.2, 2.5), 3))
    a = float(np.round(rng.uniform(0.1, 0.9), 3))
    beta = float(np.round(rng.uniform(2.0, 14.0), 3))
    return ["np:hamming", "np:blackman", "np:bartlett", "sp:nuttall", "boxcar", f"lambda:{p1!r}", f"lambda:{p2!r}",
            f"hash:{s[0]}", f"hash:{s[1]}", f"partial:salted:{s[2]}", f"partial:tukey:{a!r}", f"partial:kaiser:{beta!r}",
            f"obj:{s[3]}", f"obj:{s[4]}", f"bound:{s[5]}", f"bound:{s[6]}", "np:hanning", "sp:blackmanharris"]


def gen_winseq(rng: np.random.Generator, g: int, start: int, k: int) -> Dict[str, Any]:
    """group g: the callables cat[start], cat[start+1], … (k of them, cyclically) — the first one opens the group and comes back at its end"""
    N = int(rng.integers(160, 361))
    kind = str(rng.choice(["noise", "offset", "drift", "tone"]))
    x1 = A.record(rng, N, kind)
    if g % 2:
        data = np.ascontiguousarray(np.stack([x1, 0.5 * np.roll(x1, 3) + A.record(rng, N, kind)]))
        layout = str(rng.choice(["2xN", "Nx2"]))
    else:
        data, layout = x1, "1d"
    fs = float(rng.choice([1.0, 2.0, 1000.0, float(rng.uniform(0.1, 1e4))]))
    sched = f"custom:{int(rng.integers(0, 2 ** 31))}" if g % 4 == 3 else str(rng.choice(A.SCHEDS))
    opts = {"order": 0, "olap": float(rng.choice([0.0, 0.5, 0.75, float(np.round(rng.uniform(0, 0.9), 3))])), "Jdes": int(rng.integers(5, 11)),
            "Kdes": int(rng.choice([1, 2, 5])), "bmin": 1.0, "Lmin": 1, "scheduler": sched, "winkind": "hann", "backend": "numba"}
    cat = callable_catalogue(rng)
    cbs = ["cb:" + cat[(start + q) % len(cat)] for q in range(k)]
    p = float(rng.choice([60.0, 100.0, 200.0, float(rng.uniform(40, 200))]))
    far = float(p * 0.5 + 15.0) if p > 80 else float(p + 77.0)
    named = [("kaiser", p), ("hann", None), ("default", p * (1.0 + 1e-7)), ("spkaiser", far), ("kaiser", far), ("default", p)]
    seq: List[Tuple[str, Optional[float]]] = []
    for q, c in enumerate(cbs):
        seq.append((c, None))
        if q % 2 == 0 or q == len(cbs) - 1:
            seq.append(named[(g + q // 2) % len(named)])
            if q == 0:
                seq.append(named[(g + 2) % len(named)])
    seq += [(cbs[0], None)] + ([(cbs[1], None)] if k >= 4 else [])           # the opening callables once more, after all the others
    L0 = int(rng.integers(4, max(5, N // 2)))
    fq = [float(rng.uniform(0.01, 0.49)) * fs for _ in range(2)]
    steps = []
    for sidx, (wk, psll) in enumerate(seq):
        st = {"winkind": wk, "psll": psll, "order": int([-1, 0, 1, 2][(g + sidx) % 4]),
              "backend": "numpy" if (g + sidx // 2) % 2 else "numba",
              "via": ["class", "compute_spectrum", "class", "lpsd", "class"][(g + sidx) % 5],
              "single": [{"freq": fq[0], "L": N, "via": "method" if sidx % 2 else "function"},
                         {"freq": fq[1], "L": L0, "via": "function" if sidx % 2 else "method"}]}
        steps.append(st)
    return {"case": {"data": data, "layout": layout, "fs": fs, "opts": opts, "kind": kind}, "steps": steps}


def step_case(base, st) -> Dict[str, Any]:
    o = dict(base["opts"], winkind=st["winkind"], order=int(st["order"]), backend=st["backend"])
    o.pop("psll", None)
    if st.get("psll") is not None:
        o["psll"] = float(st["psll"])
    return dict(base, opts=o)


def run_winseq(P: C.Part, group: Dict[str, Any], history: List[Dict[str, Any]], dumped: Optional[Dict[str, Any]] = None, upto: Optional[int] = None):
    """run one group; `history` = the dumped groups that ran before it in this process (part of every replay record: process-level state)"""
    base = group["case"]
    if dumped is None:
        dumped = {"case": dump_case(base), "steps": group["steps"]}
    rp0 = {"kind": "winseq", "case": dumped["case"], "steps": dumped["steps"], "history": history}
    for sidx, st in enumerate(group["steps"]):
        if upto is not None and sidx > upto:
            break
        case = step_case(base, st)
        rp = dict(rp0, step=sidx)
        n0 = len(P.violations)
        _, res = run_full(P, case, via=st.get("via", "class"), tag="winseq", replay=rp)
        wk = st["winkind"]
        if res is not None:
            Ls = sorted(set(int(v) for v in np.asarray(res.L)))
            if wk.startswith("cb:"):
                shared = [L for L in Ls if _SEEN_L.get(L, set()) - {wk}]
                P.hit("winseq:callable-analyses")
                if shared:
                    P.hit("winseq:callable-analyses-after-another-callable-at-a-shared-L")
                    P.hit("winseq:bins-at-a-length-used-before-by-another-callable", int(sum(int(L) in shared for L in np.asarray(res.L))))
                    P.nontrivial.add(("winseq", winfam(wk), st["order"], st["backend"], st.get("via"), case["data"].ndim, len(shared), sidx))
                for L in Ls:
                    _SEEN_L.setdefault(L, set()).add(wk)
            else:
                P.hit("winseq:named-window-analyses")
        for q in st.get("single", []):
            run_single(P, case, None, q, tag="winseq-single", replay=rp)
            if wk.startswith("cb:"):
                _SEEN_L.setdefault(int(q["L"]), set()).add(wk)
        if len(P.violations) > n0 and len(P.violations) >= 5:
            break
    return dumped


def winseq_stream(ctx, P: C.Part, intensive: bool, reserve: float):
    """quick: one pass over the catalogue (every callable opens one group and is a later member of others); thorough / intensive: more passes"""
    rng = np.random.default_rng([int(getattr(ctx, "seed", 0)) & 0xFFFFFFFF, 0xC05, 8])     # own stream: the rounds below keep theirs
    ncat = len(callable_catalogue(np.random.default_rng(0)))
    k = ctx.scale(3, 5)
    passes = ctx.scale(1, 3) * (4 if intensive else 1)
    off = int(rng.integers(0, ncat))
    t_begin = ctx.time_left()
    cap = (12.0 if not ctx.thorough else 150.0) * (4 if intensive else 1)
    history: List[Dict[str, Any]] = []
    g = 0
    for ps in range(passes):
        for q in range(ncat):
            if ctx.time_left() < reserve or t_begin - ctx.time_left() > cap:
                P.notes.append(f"window sequences stopped after {g} groups (time)")
                return
            grp = gen_winseq(rng, g, (off + q * [1, 5, 7, 11, 13, 17][ps % 6]) % ncat, k + (ps % 2))
            history = history + [run_winseq(P, grp, history)]
            if len(history) > 6:                          # a replay record carries the last 6 groups before its own
                history = history[-6:]
            g += 1
            if len(P.violations) >= 5:
                return


def oracle(ctx, intensive: bool = False, hints: List[Dict[str, Any]] = ()) -> C.Part:
    P = C.Part()
    rng = ctx.rng
    n = ctx.scale(56, 600) * (4 if intensive else 1)
    # quick tier: the intensive search is additionally capped at ~150 s so that a failing check still ends within minutes
    reserve = 15.0 if (ctx.thorough or not intensive) else max(15.0, float(ctx.budget_s) - 150.0)
    # the inputs on which the model and the implementation disagreed come first
    for h in list(hints)[:8]:
        if not isinstance(h, dict):
            continue
        try:
            if h.get("op") == "singlebin":
                N, L = int(h["N"]), int(h["L"])
                case = gen_case(rng, 0, small=True)
                x = A.record(rng, N, "noise")
                case = dict(case, data=x, layout="1d", opts=dict(case["opts"], olap=float(h["olap"]), winkind="hashwin"))
                case["opts"].pop("psll", None)
                run_single(P, case, None, {"freq": float(h.get("freq", 0.123 * case["fs"])), "L": L, "via": "method"}, tag="hint-single")
            elif h.get("op") == "kaiser":
                N = max(int(h["L"]) + 7, 16)
                case = gen_case(rng, 0, small=True)
                case = dict(case, data=A.record(rng, N, "noise"), layout="1d", opts=dict(case["opts"], winkind="kaiser", psll=float(h["psll"])))
                run_single(P, case, None, {"freq": 0.2 * case["fs"], "L": int(h["L"]), "via": "method"}, tag="hint-single")
            elif h.get("op") == "fres":
                case = gen_case(rng, 0, small=True)
                case = dict(case, data=A.record(rng, int(h["N"]), "noise"), layout="1d", fs=float(h["fs"]), opts=dict(case["opts"], winkind="hann"))
                case["opts"].pop("psll", None)
                run_single(P, case, None, {"freq": 0.2 * case["fs"], "fres": float(h["fres"]), "via": "method"}, tag="hint-single")
        except Exception as ex:  # a hint that cannot be turned into a case is not an error of the check
            P.notes.append(f"hint not replayable: {ex!r}"[:200])
    # sequences of different window callables on one record and one plan (before the random rounds: the budget cannot run out on them)
    winseq_stream(ctx, P, intensive, reserve)
    if len(P.violations) >= 5:
        return P
    for i in range(n):
        if ctx.time_left() < reserve:
            P.notes.append(f"time budget reached after {i} rounds")
            break
        edge = (i % 6 == 5)
        case = one_round(P, rng, i, edge, n_single=4, n_band=6 if not edge else 4, do_pair=(i % 3 == 0))
        if i < 3:
            P.sample({"op": "oracle-round", "case": brief(case)})
        if len(P.violations) >= 5:
            break
    return P


# ---------------------------------------------------------------- correspondence (model vs real code)
class KernelTap:
    """records (fn, L, w, omega, starts) of every kernel call made from speckit.analysis (entry points wrapped, then restored)"""

    def __init__(self):
        import speckit.analysis as M
        self.M = M
        self.saved: Dict[str, Any] = {}
        self.calls: List[Dict[str, Any]] = []
        self.failed = 0

    def __enter__(self):
        for n in dir(self.M):
            f = getattr(self.M, n)
            if n.startswith("_stats_") and callable(f):
                self.saved[n] = f
                setattr(self.M, n, self._wrap(n, f))
        return self

    def _wrap(self, n, f):
        k = 3 if "csd" in n else 2

        def g(*a, **kw):
            try:
                self.calls.append({"fn": n, "starts": np.array(a[k - 1]).copy(), "L": int(a[k]), "w": np.array(a[k + 1], dtype=float).copy(),
                                   "omega": float(a[k + 2])})
            except Exception:
                self.failed += 1
            return f(*a, **kw)
        return g

    def __exit__(self, *exc):
        for n, f in self.saved.items():
            setattr(self.M, n, f)
        return False


def model_kaiser(ctx, cache: Dict[Tuple[int, float], np.ndarray], L: int, beta: float) -> np.ndarray:
    key = (L, beta)
    if key not in cache:
        cache[key] = np.array(ctx.driver.floats(f"kaiser {L} {C.f2h(beta)}"), dtype=float)
    return cache[key]


def kaiser_compare(P: C.Part, wm: np.ndarray, L: int, psll: float, w_impl: Optional[np.ndarray], S12: float, S2: float, where: Dict[str, Any]):
    """model window vs the window the real analyzer used (1e-12 relative to the window's maximum 1) and vs the stored sums"""
    P.cases += 1
    if L >= 3:
        P.nontrivial.add(("kaiser", L, round(psll, 6)))
    P.hit("kaiser:L<=8" if L <= 8 else "kaiser:L<=64" if L <= 64 else "kaiser:L<=400" if L <= 400 else "kaiser:L>400")
    base = dict(where, op="kaiser", L=L, psll=psll)
    if len(wm) != L:
        P.disagreements.append(dict(base, what="model window length", model_len=len(wm)))
        return
    if w_impl is not None:
        if len(w_impl) != L:
            P.disagreements.append(dict(base, what="impl window length", impl_len=len(w_impl)))
            return
        d = float(np.abs(w_impl - wm).max()) if L else 0.0
        if not d <= 1e-12:
            n = int(np.argmax(np.abs(w_impl - wm)))
            P.disagreements.append(dict(base, what="window sample", n=n, impl=float(w_impl[n]), model=float(wm[n]), maxdiff=d))
            return
    s1, s2 = float(np.sum(wm)), float(np.sum(wm * wm))
    ds1 = L * 1e-12 + 8 * U * L * s1
    t12 = 2 * s1 * ds1 + ds1 * ds1
    t2 = 2 * L * 1e-12 + 8 * U * L * s2
    if not abs(S12 - s1 * s1) <= t12:
        P.disagreements.append(dict(base, what="S12 vs (sum w)^2", impl=S12, model=s1 * s1, tol=t12))
    elif not abs(S2 - s2) <= t2:
        P.disagreements.append(dict(base, what="S2 vs sum w^2", impl=S2, model=s2, tol=t2))


def navg_tie(N: int, L: int, olap: float) -> Tuple[float, bool, bool]:
    """(x, near a rounding tie within 1e-9, the tie is exact in rational arithmetic on the float inputs)"""
    if N == L:
        return 1.0, False, False
    x = ((N - L) / (1.0 - olap)) / L + 1.0
    near = abs((x - math.floor(x)) - 0.5) <= 1e-9 * max(1.0, abs(x))
    xe = Fraction(N - L) / (1 - Fraction(olap)) / L + 1
    exact = (xe - math.floor(xe)) == Fraction(1, 2) and Fraction(x) == xe
    return x, near, exact


def starts_tie(N: int, L: int, K: int) -> bool:
    if K < 2:
        return False
    v = np.arange(K) * ((N - L) / (K - 1))
    return bool((np.abs((v - np.floor(v)) - 0.5) <= 1e-9 * np.maximum(1.0, v)).any())


def gen_seg(rng: np.random.Generator, t: int) -> Tuple[int, int, float]:
    mode = t % 6
    if mode == 0:        # exact half-integer value of the averaging count (olap dyadic): round-half-up vs round-half-even differ for even floor
        m, k = int(rng.integers(1, 40)), int(rng.integers(1, 12))
        olap, q = [(0.0, 2), (0.5, 4), (0.75, 8)][int(rng.integers(0, 3))]
        L = q * m
        return L + (2 * k - 1) * m, L, olap
    if mode == 1:        # whole record / nearly whole record
        N = int(rng.integers(8, 2000))
        return N, int(rng.choice([N, N - 1, max(1, N - 2)])), float(rng.choice([0.0, 0.5, float(rng.uniform(0, 0.95))]))
    if mode == 2:        # very short segments, many averages
        N = int(rng.integers(8, 600))
        return N, int(rng.choice([1, 2, 3])), float(rng.choice([0.0, 0.5, 0.75, float(rng.uniform(0, 0.9))]))
    N = int(rng.integers(8, 3000))
    L = int(rng.integers(1, N + 1))
    return N, L, float(rng.choice([0.0, 0.5, 0.75, 0.3, float(rng.uniform(0, 0.95))]))


def correspondence(ctx) -> C.Part:
    P = C.Part()
    rng = ctx.rng
    drv = ctx.driver
    cache: Dict[Tuple[int, float], np.ndarray] = {}
    from scipy.signal.windows import kaiser as sp_kaiser

    # (a1) Kaiser window of single-bin requests: model series vs the window handed to the kernel, and the stored sums
    n_k = ctx.scale(120, 1000)
    for t in range(n_k):
        if ctx.time_left() < 60 or len(P.disagreements) >= 25:
            P.notes.append("stopped early in kaiser/single-bin (time budget or 25 disagreements)")
            break
        L = int(rng.choice([1, 2, 3, 4, 5, 6, 7, 8])) if t % 5 == 0 else int(rng.integers(9, 401))
        psll = float(rng.choice([40.0, 200.0, 100.0])) if t % 4 == 0 else float(rng.uniform(40, 200))
        N = L + int(rng.integers(0, 60))
        x = rng.standard_normal(N)
        form = t % 4
        kw: Dict[str, Any] = {"psll": psll}
        if form == 1:
            kw["win"] = "kaiser"
        elif form == 2:
            kw["win"] = np.kaiser
        elif form == 3:
            kw["win"] = sp_kaiser
        order = int(rng.choice([-1, 0, 1, 2]))
        be = "numpy" if t % 2 else "numba"
        beta = A.kaiser_alpha(psll) * np.pi
        wm = model_kaiser(ctx, cache, L, beta)
        where = {"via": "compute_single_bin", "N": N, "order": order, "backend": be, "form": form}
        try:
            an = A.analyzer(x, 1.0, order=order, olap=0.5, backend=be, **kw)
            with KernelTap() as tap:
                r = an.compute_single_bin(float(rng.uniform(0.01, 0.49)), L=L)
            w_impl = tap.calls[-1]["w"] if tap.calls and not tap.failed else None
            if w_impl is None:
                P.hit("kaiser:tap-unavailable")
            kaiser_compare(P, wm, L, psll, w_impl, float(r.S12[0]), float(r.S2[0]), where)
        except Exception as ex:
            P.disagreements.append(dict(where, op="kaiser", L=L, psll=psll, impl_raised=repr(ex)))
        if t < 2:
            P.sample({"op": "kaiser", "L": L, "psll": psll, "beta": beta, "model_w0": float(wm[0]) if L else None,
                      "model_wmid": float(wm[L // 2]) if L else None})

    # (a2) full analyses with a Kaiser window: per bin, the tapped kernel arguments vs the model window / the result's own plan
    n_f = ctx.scale(10, 50)
    for t in range(n_f):
        if ctx.time_left() < 50 or len(P.disagreements) >= 25:
            P.notes.append("stopped early in kaiser/full (time budget or 25 disagreements)")
            break
        N = int(rng.integers(200, 700))
        o = A.options(rng, N)
        o.pop("win", None)
        psll = float(rng.uniform(40, 200))
        o.update(psll=psll, win="kaiser", backend="numpy" if t % 2 else "numba", Jdes=int(rng.integers(6, 16)))
        fs = float(rng.choice([1.0, 250.0]))
        x = rng.standard_normal(N)
        beta = A.kaiser_alpha(psll) * np.pi
        try:
            an = A.analyzer(x, fs, **o)
            an.plan()
        except Exception:
            P.hit("kaiser:plan-raised(skipped)")
            continue
        try:
            with KernelTap() as tap:
                res = an.compute()
        except Exception as ex:
            P.disagreements.append({"op": "kaiser", "via": "compute", "N": N, "opts": o, "impl_raised": repr(ex)})
            continue
        tapped = (not tap.failed) and len(tap.calls) == len(res.f)
        if not tapped:
            P.hit("kaiser:tap-unavailable")
        for j in range(len(res.f)):
            L = int(res.L[j])
            wm = model_kaiser(ctx, cache, L, beta)
            c = tap.calls[j] if tapped else None
            where = {"via": "compute", "N": N, "bin": j, "scheduler": o["scheduler"], "backend": o["backend"], "order": o["order"], "fs": fs}
            if c is not None:
                om = 2.0 * np.pi * float(res.f[j]) / fs
                if c["L"] != L or not np.array_equal(c["starts"], np.asarray(res.D[j])) or not abs(c["omega"] - om) <= 32 * U * abs(om):
                    P.disagreements.append(dict(where, op="kernel-args", what="kernel called with L/starts/omega other than the result's own plan",
                                                L_call=c["L"], L_plan=L, omega_call=c["omega"], omega_plan=om, K_call=len(c["starts"]), K_plan=len(res.D[j])))
                    continue
            kaiser_compare(P, wm, L, psll, None if c is None else c["w"], float(res.S12[j]), float(res.S2[j]), where)

    # (b) single-bin segmentation: model starts vs reported D; (freq, fres): model round-to-even vs reported L
    n_s = ctx.scale(300, 2500)
    for t in range(n_s):
        if ctx.time_left() < 30 or len(P.disagreements) >= 50:
            P.notes.append("stopped early in singlebin (time budget or 50 disagreements)")
            break
        N, L, olap = gen_seg(rng, t)
        fs = float(rng.choice([1.0, 2.0, 48000.0]))
        x = rng.standard_normal(N)
        freq = float(rng.uniform(0.01, 0.49)) * fs
        case = {"op": "singlebin", "N": N, "L": L, "olap": olap, "fs": fs, "freq": freq}
        try:
            an = A.analyzer(x, fs, olap=olap, win="hann", order=-1, backend="numpy")
            olap_used = float(an.config["final_olap"])
            r = an.compute_single_bin(freq, L=L)
            D_impl = [int(v) for v in r.D[0]]
        except Exception as ex:
            P.disagreements.append(dict(case, impl_raised=repr(ex)))
            continue
        ans = drv.ask(f"singlebin {N} {L} {C.f2h(olap_used)}")
        if ans.startswith("ERR"):
            raise RuntimeError(f"driver error {ans} on singlebin {N} {L}")
        D_model = [int(v) for v in ans.split()]
        P.cases += 1
        xavg, near, exact = navg_tie(N, L, olap_used)
        P.hit("singlebin:N=L" if N == L else "singlebin:exact-tie" if exact else "singlebin:K=1" if len(D_impl) == 1 else "singlebin:K>=2")
        if len(D_impl) >= 2:
            P.nontrivial.add(("singlebin", N, L, olap_used))
        if D_impl != D_model:
            if (len(D_impl) != len(D_model) and near and not exact) or (len(D_impl) == len(D_model) and starts_tie(N, L, len(D_impl))):
                P.unstable += 1
            else:
                P.disagreements.append(dict(case, what="starts", navg_arg=xavg, exact_tie=exact, impl_K=len(D_impl), model_K=len(D_model),
                                            impl=D_impl[:12], model=D_model[:12]))
        # the segmentation as translated from compute_single_bin's own source on this run
        gans = drv.ask(f"genseg {N} {L} {C.f2h(olap_used)}")
        P.cases += 1
        P.hit("genseg")
        try:
            gk, gd = gans.split(" | ")
            D_gen = [int(v) for v in gd.split()]
            ok = int(gk) == len(D_gen) and D_gen == D_impl
        except Exception:
            D_gen, ok = [], False
        if not ok:
            if (len(D_impl) != len(D_gen) and near and not exact) or (len(D_impl) == len(D_gen) and D_gen and starts_tie(N, L, len(D_impl))):
                P.unstable += 1
            else:
                P.disagreements.append(dict(case, what="generated starts", impl_K=len(D_impl), impl=D_impl[:12], generated=gans[:200]))
        if t < 2:
            P.sample(dict(case, K=len(D_impl), starts_head=D_impl[:5]))
        # (freq, fres) form: the segment length is round-half-even(fs/fres), at least 1
        if t % 3 == 0:
            Lt = int(rng.integers(1, N + 1))
            fres = fs / (Lt + float(rng.choice([0.0, 0.5, -0.5, float(rng.uniform(-0.45, 0.45))])))
            if not (fres > 0 and math.isfinite(fres)):
                continue
            q = fs / fres
            Lm = max(1, int(drv.ask(f"reven {C.f2h(q)}")))
            P.cases += 1
            P.hit("fres:half-integer" if abs(q - math.floor(q) - 0.5) < 1e-12 else "fres:generic")
            try:
                rr = an.compute_single_bin(freq, fres=fres)
                Li = int(rr.L[0])
            except ValueError as ex:
                Li = None
                if Lm <= N:
                    P.disagreements.append({"op": "fres", "N": N, "fs": fs, "fres": fres, "model_L": Lm, "impl_raised": repr(ex)})
                continue
            if Lm > N:
                P.disagreements.append({"op": "fres", "N": N, "fs": fs, "fres": fres, "model_L": Lm, "impl_L": Li, "what": "model length exceeds N but impl returned"})
            elif Li != Lm:
                P.disagreements.append({"op": "fres", "N": N, "fs": fs, "fres": fres, "fs/fres": q, "model_L": Lm, "impl_L": Li})
            elif Li >= 2:
                P.nontrivial.add(("fres", N, Li))
    # (c) the glue as TRANSLATED from analysis.py on this run (Gen/LpsdCore) executed in Float against the real methods; the random stream is a
    # child generator seeded by one integer drawn here, after everything above (the streams above are unchanged)
    gen_region_correspondence(ctx, P, np.random.default_rng(int(rng.integers(0, 2 ** 62))))
    return P



# ---------------------------------------------------------------- generated region LpsdCore vs the real methods
def _tables(an, Ls, Ks, order_cfg: int):
    """what the translated code takes as parameters, computed by the REAL library: window values for every length the code may ask for
    (L-1 .. L+2, so that the request is decided by the translated source, not by this harness), _build_Q for both polynomial orders,
    _select_backend for every segment count"""
    import speckit.analysis as M
    wf = an.config["win_func"]
    alpha = an.config.get("alpha", None)
    isk = wf in (M.np_kaiser, M.sp_kaiser)
    beta = float(alpha * np.pi) if (isk and alpha is not None) else 0.0
    ms = sorted({m for L in Ls for m in (L - 1, L, L + 1, L + 2) if m >= 1})
    wt = []
    for m in ms:
        try:
            v = np.asarray(wf(m, beta) if isk else wf(m), dtype=float)
        except Exception:
            continue
        wt.append(f"{m} {C.f2h(beta)} {C.arr(v)}")
    qt = []
    for L in sorted(set(Ls)):
        for o in (1, 2):
            try:
                Q = np.asarray(M._build_Q(int(L), o), dtype=float)
            except Exception:
                continue
            qt.append(f"{L} {o} {Q.shape[0]} {Q.shape[1]} " + " ".join(C.f2h(float(v)) for v in Q.ravel()))
    st = []
    for K in sorted(set(Ks)):
        st.append(f"{K} {M._select_backend(int(K), an.config['backend'])}")
    head = f"{1 if isk else 0}"
    return (0.0 if alpha is None else float(alpha)), head, f"{len(wt)} " + " ".join(wt), f"{len(qt)} " + " ".join(qt), f"{len(st)} " + " ".join(st)


def _scales(x1, x2, D, L, w):
    a = max(float(np.abs(x1[int(s):int(s) + L] * w).sum()) for s in D) + 1e-300
    b = a if x2 is None else max(float(np.abs(x2[int(s):int(s) + L] * w).sum()) for s in D) + 1e-300
    return a, b


def _row_mismatch(gen, real, x1, x2, D, L, w, omega, order):
    """first field of a generated row that is off the real row by more than twice the forward budget (both sides carry one), or None"""
    a, b = _scales(x1, x2, D, L, w)
    tXX, tYY, tXY, tM2 = A.bin_tol(L, omega, a, b, order)
    s1 = float(np.sum(w))
    wt = 64 * U * L * max(float(np.abs(w).max()), 1e-300) * max(float(np.abs(w).sum()), 1e-300) + 1e-12 * max(s1 * s1, 1e-300)
    tol = {"XYre": 2 * tXY, "XYim": 2 * tXY, "XX": 2 * tXX, "YY": 2 * tYY, "S12": 2 * wt, "S2": 2 * wt, "M2": 2 * tM2}
    for k in ("XYre", "XYim", "XX", "YY", "S12", "S2", "M2"):
        if not abs(gen[k] - real[k]) <= tol[k] + 1e-300:
            return k, gen[k], real[k], tol[k]
    return None


def small_sched(seed: int, corrupt: str = ""):
    """a user scheduler with few bins and short segments (repeated / neighbouring lengths, unsorted starts); `corrupt` names one defect the
    validation of plan() has to reject"""
    def small_plan(N, fs, olap, Lmin=1, **kw):
        rng = np.random.default_rng(seed)
        lo = max(1, int(Lmin))
        hi = max(lo, min(int(N), 28))
        base = [int(v) for v in rng.integers(lo, hi + 1, size=3)]
        Ls = [base[0], min(hi, base[0] + 1), base[0], base[1], max(lo, base[1] - 1), base[2], base[0], int(N) if rng.random() < 0.3 else base[1]]
        nb = int(rng.integers(3, len(Ls) + 1))
        Ls = Ls[:nb]
        f = np.sort(rng.uniform(0.002, 0.498, size=nb)) * float(fs)
        if seed % 4 == 0:
            f[-1] = f[-2]                     # a repeated frequency
        D = []
        for Lj in Ls:
            K = int(rng.choice([1, 2, 3, 5]))
            d = rng.integers(0, int(N) - Lj + 1, size=K)
            if rng.random() < 0.5:
                d[-1] = int(N) - Lj           # the last admissible start
            D.append(d.astype(np.int64))
        L = np.array(Ls, dtype=np.int64)
        r = float(fs) / L
        Ks = np.array([len(d) for d in D], dtype=np.int64)
        out = {"f": f, "r": r, "b": f / r, "L": L, "K": Ks, "navg": Ks.copy(), "D": D, "O": np.full(nb, float(olap))}
        j = int(rng.integers(0, nb))
        if corrupt == "K":
            out["K"][j] += 1
        elif corrupt == "high":
            D[j][0] = int(N) - Ls[j] + 1
        elif corrupt == "neg":
            D[j][-1] = -1
        elif corrupt == "empty":
            D[j] = np.zeros(0, dtype=np.int64)
            out["K"][j] = 0
        elif corrupt == "L0":
            out["L"][j] = 0
        elif corrupt == "Lmin":
            out["L"][j] = max(1, int(Lmin) - 1)     # below Lmin when Lmin >= 2 (then rejected unless the scheduler is lpsd_plan)
        elif corrupt == "lenK":
            out["K"] = out["K"][:-1]
        elif corrupt == "lenD":
            out["D"] = D[:-1]
        return out
    small_plan.__name__ = f"small_plan_{seed}_{corrupt or 'ok'}"
    return small_plan


def _plan_line(p) -> str:
    D = [np.asarray(d, dtype=np.int64) for d in p["D"]]
    return " ".join([C.arr(np.asarray(p["f"], dtype=float)), C.arr(np.asarray(p["r"], dtype=float)), C.arr(np.asarray(p["b"], dtype=float)),
                     C.iarr(np.asarray(p["L"])), C.iarr(np.asarray(p["K"])), C.iarr(np.asarray(p["navg"])), C.arr(np.asarray(p["O"], dtype=float)),
                     str(len(D))] + [C.iarr(d) for d in D])


def gen_region_correspondence(ctx, P: C.Part, rng: np.random.Generator) -> None:
    import speckit.analysis as M
    from speckit.analysis import SpectrumAnalyzer
    drv = ctx.driver
    t_start = ctx.time_left()
    winkinds = ["default", "kaiser", "hashwin", "hann", "spkaiser"]
    n_cases = ctx.scale(36, 240)
    for t in range(n_cases):
        if ctx.time_left() < 25 or t_start - ctx.time_left() > (18.0 if not ctx.thorough else 240.0) or len(P.disagreements) >= 25:
            P.notes.append(f"generated-region run stopped after {t} cases (time budget or 25 disagreements)")
            break
        N = int(rng.integers(40, 220))
        cross = bool(rng.random() < 0.4)
        order = int([-1, 0, 1, 2][t % 4])
        wk = winkinds[t % len(winkinds)]
        be = "numpy" if (t // 2) % 2 else "numba"
        fs = float(rng.choice([1.0, 2.0, 250.0]))
        x1 = A.record(rng, N, str(rng.choice(["noise", "offset", "drift"])))
        x2 = (0.5 * np.roll(x1, 2) + A.record(rng, N, "noise")) if cross else None
        data = np.ascontiguousarray(np.stack([x1, x2])) if cross else x1
        seed = int(rng.integers(0, 2 ** 31))
        o: Dict[str, Any] = {"order": order, "olap": float(rng.choice([0.0, 0.5, 0.3])), "Jdes": int(rng.integers(4, 9)), "Kdes": int(rng.choice([1, 2, 5])),
                             "bmin": 1.0, "Lmin": int(rng.choice([1, 1, 2, 4])), "backend": be, "winkind": wk,
                             "scheduler": f"small:{seed}" if t % 3 else str(rng.choice(["ltf", "lpsd", "new_ltf", "vectorized_ltf"]))}
        if wk in ("kaiser", "default", "spkaiser"):
            o["psll"] = float(rng.choice([60.0, 200.0, float(rng.uniform(40, 200))]))
        case = {"data": data, "layout": "2xN" if cross else "1d", "fs": fs, "opts": o, "kind": "gen-region"}
        kw = real_kwargs(dict(case, opts={k: v for k, v in o.items()}))
        if isinstance(kw["scheduler"], str) and kw["scheduler"].startswith("small:"):
            kw["scheduler"] = small_sched(seed)
        where = {"op": "genlpsdcore", "N": N, "cross": cross, "order": order, "win": wk, "backend": be, "scheduler": o["scheduler"], "fs": fs,
                 "Lmin": o["Lmin"], "olap": o["olap"], "Jdes": o["Jdes"], "Kdes": o["Kdes"], "psll": o.get("psll")}
        try:
            an = SpectrumAnalyzer(data, fs, **kw)
            plan = an.plan()
        except Exception:
            P.hit("gen:plan-raised(skipped)")
            continue
        nf = int(plan["nf"])
        Ls = [int(v) for v in plan["L"]]
        Ds = [np.asarray(d, dtype=np.int64) for d in plan["D"]]
        if nf > 14 or max(Ls) > 260 or sum(len(d) * L for d, L in zip(Ds, Ls)) > 40000:
            P.hit("gen:plan-too-large(skipped)")
            continue
        # ---- (c1) the per-bin loop with its caches
        alpha, isk, wt, qt, st = _tables(an, Ls, [len(d) for d in Ds], order)
        xa1 = np.ascontiguousarray(an.x1, dtype=float)
        xa2 = np.ascontiguousarray(an.x2, dtype=float) if cross else np.zeros(0)
        idx = list(range(nf))
        if t % 5 == 4 and nf >= 3:               # a sub-block of indices, out of order, one repeated: caches meet lengths in another sequence
            idx = [int(v) for v in rng.permutation(nf)[: max(2, nf - 1)]] + [int(rng.integers(0, nf))]
        real_raised, rows = None, None
        try:
            rows = an._lpsd_core(np.asarray(idx, dtype=np.int64))
        except Exception as ex:  # noqa
            real_raised = repr(ex)
        bins = " ".join(f"{C.f2h(float(plan['f'][j]))} {Ls[j]} {C.iarr(Ds[j])}" for j in range(nf))
        line = (f"genlpsdcore {1 if cross else 0} {order} {an.config['backend']} {C.f2h(fs)} {int(an.nx)} {C.f2h(alpha)} {isk} "
                f"{C.arr(xa1)} {C.arr(xa2)} {wt} {qt} {st} {nf} {bins} {C.iarr(idx)}")
        ans = drv.ask(line)
        P.cases += 1
        P.hit("genlpsdcore")
        P.hit(f"genlpsdcore:order={order}")
        P.hit(f"genlpsdcore:{'cross' if cross else 'auto'}/{be}/{wk}")
        if len(set(Ls[j] for j in idx)) < len(idx):
            P.hit("genlpsdcore:repeated-L(cache hit)")
        if nf >= 2:
            P.nontrivial.add(("genlpsdcore", N, nf, order, cross, wk, be, tuple(idx)))
        if ans.startswith("ERR"):
            P.disagreements.append(dict(where, what="driver error", answer=ans[:200]))
            continue
        parts = ans.split(" | ")
        g_raised = parts[0].strip() == "1"
        if real_raised is not None or g_raised:
            if (real_raised is not None) != g_raised:
                P.disagreements.append(dict(where, what="raise flag", real_raised=real_raised, generated_raised=g_raised, idx=idx))
            else:
                P.hit("genlpsdcore:both-raise")
            continue
        if len(parts) - 1 != len(rows):
            P.disagreements.append(dict(where, what="row count", real=len(rows), generated=len(parts) - 1))
            continue
        wf = an.config["win_func"]
        for rr, gp in zip(rows, parts[1:]):
            tk = gp.split()
            j = int(rr[0])
            g = {"XYre": C.h2f(tk[1]), "XYim": C.h2f(tk[2]), "XX": C.h2f(tk[3]), "YY": C.h2f(tk[4]), "S12": C.h2f(tk[5]), "S2": C.h2f(tk[6]), "M2": C.h2f(tk[7])}
            r_ = {"XYre": float(np.real(rr[1])), "XYim": float(np.imag(rr[1])), "XX": float(rr[2]), "YY": float(rr[3]), "S12": float(rr[4]),
                  "S2": float(rr[5]), "M2": float(rr[6])}
            L = Ls[j]
            w = np.asarray(wf(L + 1, an.config["alpha"] * np.pi)[:-1] if isk == "1" else wf(L), dtype=float)
            if len(w) != L:                       # scale only (tolerances); the values compared come from the two implementations
                w = np.ones(L)
            om = 2.0 * np.pi * float(plan["f"][j]) / fs
            bad = None if int(tk[0]) == j else ("index", int(tk[0]), j, 0)
            bad = bad or _row_mismatch(g, r_, xa1, xa2 if cross else None, Ds[j], L, w, om, order)
            if bad:
                P.disagreements.append(dict(where, what=f"row field {bad[0]}", bin=j, L=L, K=len(Ds[j]), generated=bad[1], real=bad[2], tol=bad[3], idx=idx))
                break
        if t < 2:
            P.sample(dict(where, nf=nf, L=Ls[:6], idx=idx[:6]))
        # ---- (c2) the kernel section of compute_single_bin
        segL = int(rng.choice([Ls[0], max(1, Ls[-1] - 1), int(rng.integers(1, min(N, 40) + 1))]))
        freq = float(rng.uniform(0.01, 0.49)) * fs
        sreal, sraised = None, None
        try:
            sreal = an.compute_single_bin(freq, L=segL)
        except Exception as ex:  # noqa
            sraised = repr(ex)
        if sreal is not None:
            starts = np.asarray(sreal.D[0], dtype=np.int64)
            alpha, isk, wt, qt, st = _tables(an, [segL], [len(starts)], order)
            ans = drv.ask(f"gensinglebin {1 if cross else 0} {order} {an.config['backend']} {C.f2h(fs)} {int(an.nx)} {C.f2h(alpha)} {isk} "
                          f"{C.arr(xa1)} {C.arr(xa2)} {wt} {qt} {st} {C.f2h(freq)} {C.f2h(float(sreal.r[0]))} {segL} {C.iarr(starts)}")
            P.cases += 1
            P.hit("gensinglebin")
            if segL >= 3 or len(starts) >= 2:
                P.nontrivial.add(("gensinglebin", N, segL, len(starts), order, cross, wk, be))
            w2 = dict(where, op="gensinglebin", segL=segL, freq=freq, K=len(starts))
            tk = ans.split()
            if ans.startswith("ERR") or len(tk) != 8:
                P.disagreements.append(dict(w2, what="driver error", answer=ans[:200]))
            elif tk[0] != "0":
                P.disagreements.append(dict(w2, what="raise flag", generated_raised=True, real_raised=None))
            else:
                g = {"XX": C.h2f(tk[1]), "YY": C.h2f(tk[2]), "XYre": C.h2f(tk[3]), "XYim": C.h2f(tk[4]), "S12": C.h2f(tk[5]), "S2": C.h2f(tk[6]), "M2": C.h2f(tk[7])}
                r_ = {"XX": float(sreal.XX[0]), "YY": float(sreal.YY[0]), "XYre": float(np.real(sreal.XY[0])), "XYim": float(np.imag(sreal.XY[0])),
                      "S12": float(sreal.S12[0]), "S2": float(sreal.S2[0]), "M2": float(sreal.M2[0])}
                w = np.asarray(wf(segL + 1, an.config["alpha"] * np.pi)[:-1] if isk == "1" else wf(segL), dtype=float)
                if len(w) != segL:
                    w = np.ones(segL)
                bad = _row_mismatch(g, r_, xa1, xa2 if cross else None, starts, segL, w, 2.0 * np.pi * freq / fs, order)
                if bad:
                    P.disagreements.append(dict(w2, what=f"field {bad[0]}", generated=bad[1], real=bad[2], tol=bad[3]))
        # ---- (c3) plan(): band restriction of every per-bin field (exact comparison), with and without band=
        if isinstance(kw["scheduler"], str) or t % 3:
            f_all = np.asarray(plan["f"], dtype=float)
            bands = gen_bands(rng, f_all, fs, 4) + [None]
            pl = _plan_line(plan)
            for bd in bands[:5]:
                kwb = dict(kw)
                if isinstance(kw["scheduler"], str) is False:
                    kwb["scheduler"] = small_sched(seed)
                breal, braised = None, None
                try:
                    breal = SpectrumAnalyzer(data, fs, **dict(kwb, band=bd)).plan() if bd is not None else SpectrumAnalyzer(data, fs, **kwb).plan()
                except ValueError as ex:
                    braised = repr(ex)
                except Exception as ex:  # noqa
                    P.disagreements.append(dict(where, op="genplanband", band=bd, what="real plan() raised something else than ValueError", error=repr(ex)))
                    continue
                ans = drv.ask(f"genplanband {0 if bd is None else 1} {C.f2h(0.0 if bd is None else bd[0])} {C.f2h(0.0 if bd is None else bd[1])} {pl}")
                P.cases += 1
                P.hit("genplanband:none" if bd is None else "genplanband")
                w3 = dict(where, op="genplanband", band=None if bd is None else [float(bd[0]), float(bd[1])])
                ps = [v.strip() for v in ans.split("|")]
                if ans.startswith("ERR") or len(ps) != 11:
                    P.disagreements.append(dict(w3, what="driver error", answer=ans[:200]))
                    continue
                if (ps[0].strip() == "1") != (braised is not None):
                    P.disagreements.append(dict(w3, what="raise flag", generated_raised=ps[0].strip() == "1", real_raised=braised))
                    continue
                if braised is not None:
                    P.hit("genplanband:both-raise")
                    continue
                fl = lambda s_: [C.h2f(v) for v in s_.split()]      # noqa: E731
                il = lambda s_: [int(v) for v in s_.split()]        # noqa: E731
                gD = [il(v) for v in ps[10].split(";")] if int(ps[9]) else []
                gen_fields = {"nf": int(ps[1]), "f": fl(ps[2]), "r": fl(ps[3]), "b": fl(ps[4]), "L": il(ps[5]), "K": il(ps[6]), "navg": il(ps[7]), "O": fl(ps[8]),
                              "D": gD}
                real_fields = {"nf": int(breal["nf"]), "D": [[int(v) for v in d] for d in breal["D"]]}
                for k in ("f", "r", "b", "O"):
                    real_fields[k] = [float(v) for v in breal[k]]
                for k in ("L", "K", "navg"):
                    real_fields[k] = [int(v) for v in breal[k]]
                if 0 < real_fields["nf"] < nf:
                    P.nontrivial.add(("genplanband", N, nf, real_fields["nf"], float(bd[0]), float(bd[1])))
                for k in ("nf", "f", "r", "b", "L", "K", "navg", "O", "D"):
                    if gen_fields[k] != real_fields[k]:
                        P.disagreements.append(dict(w3, what=f"field {k}", generated=str(gen_fields[k])[:200], real=str(real_fields[k])[:200]))
                        break
        # ---- (c4) plan(): validation of a scheduler's output (accept / reject), incl. the lpsd_plan exemption from Lmin
        corrupt = ["", "K", "high", "neg", "empty", "L0", "Lmin", "lenK", "lenD"][t % 9]
        as_lpsd = (t % 7 == 3)
        sched = small_sched(seed + 1, corrupt)
        raw = sched(N=N, fs=fs, olap=0.5, Lmin=o["Lmin"])
        if corrupt in ("lenK", "lenD"):
            pass
        saved = M.lpsd_plan
        vraised = None
        try:
            if as_lpsd:
                M.lpsd_plan = sched               # `scheduler_func != lpsd_plan` is an identity test against the module's name
            kwv = dict(kw, scheduler=sched)
            SpectrumAnalyzer(data, fs, **kwv).plan()
        except ValueError as ex:
            vraised = repr(ex)
        except Exception as ex:  # noqa
            vraised = "other:" + repr(ex)
        finally:
            M.lpsd_plan = saved
        try:
            an_cfg = SpectrumAnalyzer(data, fs, **kw)
            olap_used = float(an_cfg.config["final_olap"])
            raw = sched(N=N, fs=fs, olap=olap_used, Lmin=o["Lmin"])
            ans = drv.ask(f"genplanvalidate {int(o['Lmin'])} {1 if as_lpsd else 0} {N} {_plan_line(raw)}")
        except Exception as ex:  # noqa
            ans = "ERR harness " + repr(ex)
        P.cases += 1
        P.hit(f"genplanvalidate:{corrupt or 'ok'}{'/lpsd' if as_lpsd else ''}")
        P.nontrivial.add(("genplanvalidate", N, seed, corrupt, as_lpsd))
        tk = ans.split()
        w4 = dict(where, op="genplanvalidate", corrupt=corrupt, as_lpsd=as_lpsd, seed=seed + 1)
        if ans.startswith("ERR") or len(tk) != 3:
            P.disagreements.append(dict(w4, what="driver error", answer=ans[:200]))
        elif (tk[0] == "1") != (vraised is not None):
            P.disagreements.append(dict(w4, what="accept/reject", generated_raised=tk[0] == "1", real_raised=vraised))
        elif vraised is None and (int(tk[1]) != len(raw["f"]) or int(tk[2]) != len(raw["D"])):
            P.disagreements.append(dict(w4, what="nf / number of D entries", generated=tk[1:], real=[len(raw["f"]), len(raw["D"])]))


# ---------------------------------------------------------------- replay
def replay(ctx, data) -> C.Part:
    P = C.Part()
    rng = np.random.default_rng(0)
    for v in data.get("violations", []):
        rp = v["replay"]
        case = load_case(rp["case"])
        kind = rp.get("kind")
        if kind == "full":
            if "prev" in rp:                      # the analysis that preceded it in the original process (process-level state)
                run_full(C.Part(), load_case(rp["prev"]))
            run_full(P, case, via=rp.get("via", "class"))
        elif kind == "single":
            run_single(P, case, None, rp["req"])
        elif kind == "band":
            _, full = run_full(P, case)
            if full is not None:
                run_band(P, case, full, tuple(rp["band"]))
        elif kind == "pair":
            run_pair(P, rng, case, load_case(rp["caseB"]), rp.get("reqs"))
        elif kind == "winseq":                    # the groups that ran before it in the original process, then the group up to the failing step
            hist = []
            for h in rp.get("history", []):
                run_winseq(C.Part(), {"case": load_case(h["case"]), "steps": h["steps"]}, hist, dumped=h)
                hist = hist + [h]
            run_winseq(P, {"case": case, "steps": rp["steps"]}, hist, dumped={"case": rp["case"], "steps": rp["steps"]}, upto=rp.get("step"))
    return P
