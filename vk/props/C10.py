"""C10 — analytic error bars are the Bendat–Piersol expressions (and, as a support run only, predict the scatter).

Sub-claims evaluated on the REAL `SpectrumResult.__getattr__` (synthetic results over a grid of coherence x averages x magnitude, and real
analyses of independent / weakly / strongly coherent channels):
  a  every `_dev` / `_error` attribute equals the textbook function of the reported estimate, the reported coherence g and the number of
     averages n:  Gxx/sqrt(n); Gyy/sqrt(n); |Gxy|/sqrt(g n); |H| sqrt(1-g)/sqrt(2 g n); sqrt(2g)(1-g)/sqrt(n); 1/sqrt(n); 1/sqrt(g n);
     sqrt(1-g)/sqrt(2 g n); arcsin(sqrt(1-g))/sqrt(2 g n); 180/pi times that; sqrt(2)(1-g)/sqrt(g n)
  b  deviation = estimate x normalised error (four instances)
  c  deviation x sqrt(n) does not change when only n changes
  d  Hxy_mag_error <= Hxy_rad_error <= (pi/2) Hxy_mag_error for every bin with 0 < g <= 1 (no cap, no clipping: tested where g n << 1)
  e  Hxy_rad_error / Hxy_mag_error -> 1 as g -> 1 (0 <= ratio - 1 <= (1-g)/5 for 1-g <= 0.01);  Hxy_deg_error = 180/pi Hxy_rad_error
  f  auto-spectra: the coherence in the formulas is 1 (Gxx_dev = Gxx/sqrt(n), Gyy_dev = Gxx_dev), cross-only names are None
  s  (thorough tier, support only, never decided by theorem) Gaussian Monte-Carlo: observed spread of Gxx, coh, |Hxy| over independent
     realisations vs the mean reported deviation; numbers go to the notes, a violation only for a gross (> factor 3) mismatch.
"""
from __future__ import annotations

import math
import warnings
from typing import Any, Dict, List

import numpy as np

from .. import common as C
from . import _an
from . import C09 as S

PROP = "C10"
# obligations of the properties this one is downstream of are obligations of this check too (vk.runner.collect_obligations)
UPSTREAM = ["C05"]
GEN_REGIONS = ["Attrs"]
THEOREMS = {
    "SpecKitV.Props.AttrsB": ["Gxx_dev_formula", "Gyy_dev_formula", "Gxy_dev_formula", "Hxy_dev_formula", "coh_dev_formula",
                              "Gxx_error_formula", "Gxy_error_formula", "Hxy_mag_error_formula", "Hxy_rad_error_formula",
                              "Hxy_deg_error_formula", "coh_error_formula",
                              "Gxx_dev_is_est_times_error", "Gxy_dev_is_est_times_error", "Hxy_dev_is_est_times_error", "coh_dev_is_est_times_error",
                              "dev_scales_inv_sqrt_n", "phase_ge_mag", "phase_le_half_pi_mag", "auto_dev_uses_unit_coherence"],
    "SpecKitV.Lemmas.Arcsin": ["le_arcsin_of_nonneg", "arcsin_le_half_pi_mul", "arcsin_div_self_tendsto_one", "magErr_le_radErr",
                               "radErr_le_half_pi_magErr", "radErr_div_magErr_tendsto_one", "radErr_one", "magErr_one"],
    # statistical meaning of the generated Gxx_dev / Gxx_error under the standard model (K pairwise independent periodogram values, mean mu, variance mu^2)
    "SpecKitV.Props.StatModel": ["mean_estimator_unbiased", "mean_estimator_variance", "Gxx_dev_is_sd_at_truth", "Gxx_error_is_relative_sd",
                                 "periodogram_exp_law_cv_one", "StatModel.hypotheses_satisfiable"],
}
CONTRACTS = ["np.arcsin / np.sqrt / np.rad2deg are the real functions arcsin, sqrt, x*180/pi up to rounding"]
ASSUMPTIONS = ["theorems are over the reals for the Lean translation of SpectrumResult.__getattr__ (the `_dev`/`_error` branch), for all 0 < g <= 1, n >= 1, "
               "all magnitudes; rounding is covered by the 1e-10 relative tolerance of the oracle, not by theorem",
               "bins whose reported coherence exceeds 1 by rounding (one-segment bins) or is exactly 0 (a channel without power) are outside the "
               "quantifier 0 < g <= 1: counted as unstable / skipped",
               "NOT decided by theorem (DESIGN §5, C10 'N'): 'for Gaussian data with non-overlapping segments the density, coherence and magnitude "
               "deviations match the observed spread of the estimates over independent realisations' is a distributional statement about the "
               "estimators, not a property of the code path; it is only supported by a thorough-tier Monte-Carlo probe whose numbers are recorded in "
               "the evidence notes and which alarms only on a gross (> factor 3) mismatch (measured on the unchanged tree over 3 seeds x 12 grid points: ratios 0.84 .. 1.38)"]
RULE = ("synthetic: SpectrumResults built from (g in {1e-4, 0.01, 0.3, 0.99, 1-1e-8, 1 (exact), random}, n in {1, 2, 3, 10, 200, 5000, random}, "
        "XX, YY over 40 decades, random phase, fs, S2), cross and auto, each also re-built with another n; real: pairs (independent / weak / strong / "
        "delayed / mixed / identical) and single channels through compute_spectrum and compute_single_bin with Kdes in {1,2,5,20}, all orders and "
        "schedulers; distinct by (source, g decade, n, magnitude decade) resp. (pair kind, order, scheduler); non-trivial = 0 < g < 1 and n >= 2 "
        "(synthetic) / a bin with K >= 2 and 0 < coh < 1 (real)")

NAMES = ["Gxx_dev", "Gyy_dev", "Gxy_dev", "Hxy_dev", "coh_dev", "Gxx_error", "Gyy_error", "Gxy_error", "Hxy_mag_error", "Hxy_rad_error",
         "Hxy_deg_error", "coh_error"]
CROSS_ONLY = ["Gxy_dev", "Hxy_dev", "coh_dev", "Gxy_error", "Hxy_mag_error", "Hxy_rad_error", "Hxy_deg_error", "coh_error"]
G_GRID = [1e-4, 0.01, 0.3, 0.99, 1.0 - 1e-8, 1.0]
N_GRID = [1, 2, 3, 10, 200, 5000]
REL = 1e-10


def textbook(Gxx, Gyy, aGxy, aH, g, n) -> Dict[str, np.ndarray]:
    """the Bendat–Piersol expressions, written independently of analysis.py (valid for 0 < g <= 1, n >= 1)"""
    n = np.asarray(n, dtype=float)
    sn = np.sqrt(n)
    return {"Gxx_dev": Gxx / sn, "Gyy_dev": Gyy / sn, "Gxy_dev": aGxy / np.sqrt(g * n),
            "Hxy_dev": aH * np.sqrt(1 - g) / np.sqrt(2 * g * n), "coh_dev": np.sqrt(2 * g) * (1 - g) / sn,
            "Gxx_error": 1 / sn, "Gyy_error": 1 / sn, "Gxy_error": 1 / np.sqrt(g * n),
            "Hxy_mag_error": np.sqrt(1 - g) / np.sqrt(2 * g * n), "Hxy_rad_error": np.arcsin(np.sqrt(1 - g)) / np.sqrt(2 * g * n),
            "Hxy_deg_error": (180.0 / math.pi) * np.arcsin(np.sqrt(1 - g)) / np.sqrt(2 * g * n),
            "coh_error": math.sqrt(2.0) * (1 - g) / (np.sqrt(g) * sn)}


def attrs(res, names) -> Dict[str, Any]:
    with warnings.catch_warnings(), np.errstate(all="ignore"):
        warnings.simplefilter("ignore")
        return {n: getattr(res, n) for n in names}


def check_cross(P: C.Part, res, src: str, rp: Dict[str, Any], label: str, n=None) -> np.ndarray:
    """sub-claims a, b, d, e on one cross result; returns the mask of bins inside the quantifier.
    n = the number of averages: the result's navg, or (real analyses) the number of segments the bin was actually averaged over"""
    A = attrs(res, NAMES + ["Gxx", "Gyy", "Gxy", "Hxy", "coh", "navg"])
    g = np.asarray(A["coh"], dtype=float)
    n = np.asarray(A["navg"] if n is None else n, dtype=float)
    Gxx, Gyy, aG, aH = np.asarray(A["Gxx"]), np.asarray(A["Gyy"]), np.abs(A["Gxy"]), np.abs(A["Hxy"])
    dom = (g > 0) & (g <= 1.0) & (n >= 1) & np.isfinite(g)
    P.unstable += int(np.sum(g > 1.0))
    sig = {"src": src}

    def bad(check: str, name: str, j: int, msg: str) -> None:
        S.add_violation(P, f"{src} {label} bin {j} (g={g[j]!r}, n={int(n[j])}): {msg}", dict(sig, check=check, name=name), dict(rp, check=check, name=name, bin=int(j)))

    for nm in NAMES:
        if A[nm] is None:
            bad("none", nm, 0, f"{nm} is None for a cross-spectral result")
            return dom
    with np.errstate(all="ignore"):
        T = textbook(Gxx, Gyy, aG, aH, np.where(dom, g, 0.5), n)
        est = {"Gxx_dev": (Gxx, "Gxx_error"), "Gyy_dev": (Gyy, "Gyy_error"), "Gxy_dev": (aG, "Gxy_error"), "Hxy_dev": (aH, "Hxy_mag_error"),
               "coh_dev": (g, "coh_error")}
    for j in np.flatnonzero(dom):
        P.cases += 1
        for nm in NAMES:                                               # a
            v, t = float(A[nm][j]), float(T[nm][j])
            if not S.within("a:" + nm, abs(v - t), REL * abs(t)):
                bad("formula", nm, j, f"{nm} = {v!r} but the textbook expression gives {t!r} (Gxx={Gxx[j]!r}, Gyy={Gyy[j]!r}, |Gxy|={aG[j]!r}, |H|={aH[j]!r})")
        for nm, (e, en) in est.items():                                # b
            v, t = float(A[nm][j]), float(e[j]) * float(A[en][j])
            if not S.within("b:" + nm, abs(v - t), REL * abs(t)):
                bad("dev=est*err", nm, j, f"{nm} = {v!r} but estimate x {en} = {t!r}")
        m, r, d = float(A["Hxy_mag_error"][j]), float(A["Hxy_rad_error"][j]), float(A["Hxy_deg_error"][j])
        if not (m <= r * (1 + 1e-12) and r <= (math.pi / 2) * m * (1 + 1e-12)):      # d
            bad("phase-vs-mag", "Hxy_rad_error", j, f"need mag <= rad <= pi/2 mag, got mag = {m!r}, rad = {r!r}, pi/2 mag = {math.pi / 2 * m!r}")
        if 0 < 1 - g[j] <= 0.01 and m > 0 and not (-1e-12 <= r / m - 1 <= (1 - g[j]) / 5 + 1e-12):   # e
            bad("phase->mag", "Hxy_rad_error", j, f"rad/mag - 1 = {r / m - 1!r} exceeds (1-g)/5 = {(1 - g[j]) / 5!r}")
        if g[j] == 1.0 and not (m == 0.0 and r == 0.0):
            bad("phase->mag", "Hxy_rad_error", j, f"g = 1 but mag = {m!r}, rad = {r!r}")
        if not S.within("e:deg", abs(d - r * (180.0 / math.pi)), 1e-14 * abs(d)):
            bad("deg", "Hxy_deg_error", j, f"Hxy_deg_error = {d!r} but 180/pi x Hxy_rad_error = {r * 180.0 / math.pi!r}")
        P.hit("g n << 1" if g[j] * n[j] < 0.05 else ("g ~ 1" if 1 - g[j] < 1e-6 else "generic"))
    return dom


def check_auto(P: C.Part, res, src: str, rp: Dict[str, Any], label: str, n=None) -> None:
    A = attrs(res, NAMES + ["Gxx", "Gyy", "navg"])
    n = np.asarray(A["navg"] if n is None else n, dtype=float)
    Gxx = np.asarray(A["Gxx"])
    sig = {"src": src, "mode": "auto"}

    def bad(check: str, name: str, j: int, msg: str) -> None:
        S.add_violation(P, f"{src} auto {label} bin {j} (n={int(n[j])}): {msg}", dict(sig, check=check, name=name), dict(rp, check=check, name=name, bin=int(j)))
    for nm in CROSS_ONLY:
        P.cases += 1
        if A[nm] is not None:
            bad("none", nm, 0, f"{nm} must be None for an auto-spectrum, got {type(A[nm]).__name__}")
    for nm in ("Gxx_dev", "Gyy_dev", "Gxx_error", "Gyy_error"):
        if A[nm] is None:
            bad("none", nm, 0, f"{nm} is None for an auto-spectrum")
            return
    for j in range(len(n)):
        if not n[j] >= 1:
            continue
        P.cases += 1
        sn = math.sqrt(n[j])
        want = {"Gxx_dev": Gxx[j] / sn, "Gyy_dev": Gxx[j] / sn, "Gxx_error": 1 / sn, "Gyy_error": 1 / sn}
        for nm, t in want.items():
            v = float(A[nm][j])
            if not S.within("f:" + nm, abs(v - t), REL * abs(t)):
                bad("auto-formula", nm, j, f"{nm} = {v!r} but unit-coherence expression gives {t!r} (Gxx={Gxx[j]!r})")
        if not float(A["Gyy_dev"][j]) == float(A["Gxx_dev"][j]):
            bad("auto-formula", "Gyy_dev", j, f"Gyy_dev = {A['Gyy_dev'][j]!r} differs from Gxx_dev = {A['Gxx_dev'][j]!r}")
        if not S.within("b:auto", abs(float(A["Gxx_dev"][j]) - Gxx[j] * float(A["Gxx_error"][j])), REL * abs(Gxx[j] / sn)):
            bad("dev=est*err", "Gxx_dev", j, f"Gxx_dev = {A['Gxx_dev'][j]!r} but Gxx x Gxx_error = {Gxx[j] * float(A['Gxx_error'][j])!r}")


def synth_bins(rng: np.random.Generator, m: int, exact: bool = False) -> List[Dict[str, Any]]:
    out = []
    for k in range(m):
        g = float(G_GRID[k % len(G_GRID)]) if k % 3 else float(rng.choice([rng.uniform(0, 1), 10 ** rng.uniform(-6, 0), 1 - 10 ** rng.uniform(-12, -1)]))
        n = int(N_GRID[(k // len(G_GRID)) % len(N_GRID)]) if k % 4 else int(rng.integers(1, 20000))
        ea, eb = float(rng.uniform(-20, 20)), float(rng.uniform(-20, 20))
        XX, YY = 10 ** ea, 10 ** eb
        ph = float(rng.uniform(-np.pi, np.pi))
        XY = math.sqrt(g * XX * YY) * complex(math.cos(ph), math.sin(ph))
        if exact or g == 1.0:      # exactly representable unit coherence: XX = 2^2a, YY = 2^2b, XY = +-2^(a+b) or +-i 2^(a+b)
            a, b = int(rng.integers(-30, 30)), int(rng.integers(-30, 30))
            XX, YY, XY = 4.0 ** a, 4.0 ** b, (2.0 ** (a + b)) * [1, -1, 1j, -1j][k % 4]
        w = 10 ** rng.uniform(-2, 2)
        out.append({"XX": XX, "YY": YY, "XY": XY, "S12": float((w * rng.uniform(1, 50)) ** 2), "S2": float(w * w * rng.uniform(1, 30)),
                    "M2": float(XX * YY * rng.uniform(0, 1)) if n > 1 else 0.0, "navg": n})
    return out


def bins_out(bins):
    return [dict(b, XY=[complex(b["XY"]).real, complex(b["XY"]).imag]) for b in bins]


def bins_in(bins):
    return [dict(b, XY=complex(b["XY"][0], b["XY"][1])) for b in bins]


def check_synth(P: C.Part, bins: List[Dict[str, Any]], n2: List[int], fs: float) -> None:
    rp = {"fake": bins_out(bins), "n2": [int(v) for v in n2], "fs": fs}
    res = _an.fake_result(bins, True, fs)
    dom = check_cross(P, res, "synthetic", rp, "cross")
    # c: same bins, another number of averages
    res2 = _an.fake_result([dict(b, navg=int(k)) for b, k in zip(bins, n2)], True, fs)
    D1, D2 = attrs(res, ["Gxx_dev", "Gyy_dev", "Gxy_dev", "Hxy_dev", "coh_dev"]), attrs(res2, ["Gxx_dev", "Gyy_dev", "Gxy_dev", "Hxy_dev", "coh_dev"])
    for j in np.flatnonzero(dom):
        a1, a2 = math.sqrt(bins[j]["navg"]), math.sqrt(n2[j])
        for nm in D1:
            if D1[nm] is None or D2[nm] is None:
                continue
            u, v = float(D1[nm][j]) * a1, float(D2[nm][j]) * a2
            if not S.within("c:" + nm, abs(u - v), REL * max(abs(u), abs(v))):
                S.add_violation(P, f"synthetic bin {j}: {nm} x sqrt(n) = {u!r} for n = {bins[j]['navg']} but {v!r} for n = {n2[j]} (everything else equal)",
                                {"src": "synthetic", "check": "sqrt-n-scaling", "name": nm}, dict(rp, check="sqrt-n-scaling", name=nm, bin=int(j)))
        g = float(res.coh[j])
        if 0 < g < 1 and bins[j]["navg"] >= 2:
            P.nontrivial.add(("synthetic", int(math.floor(math.log10(g))), bins[j]["navg"], int(math.log10(bins[j]["XX"]) // 4)))
    # f: the same numbers as an auto-spectrum
    resa = _an.fake_result([dict(b, YY=b["XX"], XY=complex(b["XX"], 0.0)) for b in bins], False, fs)
    check_auto(P, resa, "synthetic", dict(rp, auto=True), "")


def check_real(P: C.Part, x, y, fs, opts, kind: str, single) -> None:
    rp = S.case_replay(x, y, fs, opts, "2xN", "compute_spectrum", single, kind)
    try:
        if single:
            r = S.single_bin(S.stack(x, y, "2xN"), fs, single["freq"], single["L"], opts)
            ra = S.single_bin(np.asarray(x), fs, single["freq"], single["L"], opts)
        else:
            r = S.spectrum(S.stack(x, y, "2xN"), fs, opts)
            ra = S.spectrum(np.asarray(x), fs, opts)
    except Exception as ex:
        P.hit("rejected:" + type(ex).__name__)
        return
    src = "single_bin" if single else "compute_spectrum"
    K = np.array([len(d) for d in r.D])
    dom = check_cross(P, r, src, rp, f"{kind} order={opts.get('order')} sched={opts.get('scheduler')}", n=K)
    check_auto(P, ra, src, rp, f"{kind} order={opts.get('order')}", n=np.array([len(d) for d in ra.D]))
    g = np.asarray(r.coh)
    if bool(np.any(dom & (K >= 2) & (g < 1))):
        P.nontrivial.add((src, kind, int(opts["order"]), str(opts.get("scheduler")), int(opts.get("Kdes", 0))))
    P.hit(f"{src}:{kind}")


def probe(ctx, P: C.Part) -> None:
    """support run (sub-claim s): Monte-Carlo spread vs reported deviations; non-overlapping Hann segments, white Gaussian input"""
    rng = ctx.rng
    L, fs, R = 64, 1.0, 160
    freq = fs * 8 / L
    rows = []
    for gt in (0.1, 0.3, 0.6, 0.9):
        a = math.sqrt(gt / (1 - gt))
        for nd in (4, 16, 64):
            if ctx.time_left() < 60:
                return
            est, dev = [], []
            for _ in range(R):
                x = rng.standard_normal(nd * L)
                y = a * x + rng.standard_normal(nd * L)
                r = S.single_bin(np.vstack([x, y]), fs, freq, L, {"order": -1, "win": "hann", "olap": 0.0})
                if int(r.navg[0]) != nd:
                    P.notes.append(f"probe: expected {nd} non-overlapping segments, analyzer used {int(r.navg[0])}; probe skipped")
                    return
                est.append([float(r.Gxx[0]), float(r.coh[0]), float(abs(r.Hxy[0]))])
                dev.append([float(r.Gxx_dev[0]), float(r.coh_dev[0]), float(r.Hxy_dev[0])])
            ratio = np.std(np.array(est), axis=0, ddof=1) / np.mean(np.array(dev), axis=0)
            rows.append((gt, nd, ratio))
            P.cases += R
            for nm, q in zip(("Gxx", "coh", "|Hxy|"), ratio):
                if not (1 / 3 <= q <= 3):
                    S.add_violation(P, f"Monte-Carlo (true coherence {gt}, {nd} independent segments, {R} realisations): observed spread of {nm} / mean reported "
                                       f"deviation = {q:.3g}, outside [1/3, 3]", {"src": "probe", "check": "scatter", "name": nm},
                                    {"probe": True, "g": gt, "nd": nd})
    P.notes.append("support probe (not decided by theorem) observed-spread / reported-deviation [Gxx, coh, |Hxy|]: " +
                   "; ".join(f"g={g} n={n}: " + "/".join(f"{q:.2f}" for q in rt) for g, n, rt in rows) + "  (band for remark 0.5..2, alarm only outside 1/3..3)")


# ---------------------------------------------------------------- entry points
def correspondence(ctx) -> C.Part:
    P = C.Part()
    _an.attr_correspondence(ctx, P, NAMES, ctx.scale(40, 400))
    return P


def oracle(ctx, intensive: bool = False, hints: List[Dict[str, Any]] = ()) -> C.Part:
    P = C.Part()
    S.quiet()
    S.MARGIN.clear()
    rng = ctx.rng
    # corpus: the corners named by the property (low coherence x few averages; g -> 1; exact g = 1), fixed numbers
    r0 = np.random.default_rng(10)
    check_synth(P, synth_bins(r0, 72), [int(v) for v in r0.integers(1, 9999, size=72)], 2.0)
    check_synth(P, synth_bins(r0, 16, exact=True), [int(v) for v in r0.integers(1, 9999, size=16)], 1000.0)
    hb = [h for h in hints if isinstance(h, dict) and h.get("mode") == "cross" and isinstance(h.get("bin"), dict) and h["bin"].get("navg", 0) >= 1]
    if hb:
        check_synth(P, [dict(h["bin"], XY=complex(h["bin"]["XY"])) for h in hb[:40]], [int(h["bin"]["navg"]) + 7 for h in hb[:40]], float(hb[0].get("fs", 1.0)))
    n = ctx.scale(150, 1800) * (4 if intensive else 1)
    kinds = ["indep", "weak", "strong", "delayed", "mixed", "identical"]
    for i in range(n):
        if ctx.time_left() < (600 if ctx.thorough else 25) or len(P.violations) >= S.MAX_VIOL:
            P.notes.append("time budget reached" if len(P.violations) < S.MAX_VIOL else "violation cap reached")
            break
        fs = float(rng.choice([1.0, 2.0, 1000.0, float(rng.uniform(0.1, 1e4))]))
        m = 36
        check_synth(P, synth_bins(rng, m), [int(v) for v in rng.choice(N_GRID + [7, 12345], size=m)], fs)
        kind = kinds[i % len(kinds)]
        N = int(rng.choice([64, 257, 1000, 2048]))
        opts = S.cyc_options(rng, N, i // len(kinds) + i)
        opts["Kdes"] = int([1, 2, 5, 20][(i // 3) % 4])
        x, y = S.pair(rng, N, kind)
        check_real(P, x, y, fs, opts, kind, None)
        if (i // len(kinds) + i) % 3 == 0:
            L = int(rng.choice([N, N // 2, int(rng.integers(4, N // 4))]))
            check_real(P, x, y, fs, opts, kind, {"freq": float(rng.uniform(0.02, 0.48) * fs), "L": L})
        if i < 2:
            P.sample({"op": "oracle", "kind": kind, "N": N, "fs": fs, "opts": opts})
    if ctx.thorough and len(P.violations) == 0:
        probe(ctx, P)
    P.notes.append(S.margins_note("C10"))
    return P


def replay(ctx, data) -> C.Part:
    P = C.Part()
    S.quiet()
    for v in data.get("violations", []):
        rp = v["replay"]
        if rp.get("probe"):
            probe(ctx, P)
        elif "fake" in rp:
            check_synth(P, bins_in(rp["fake"]), rp["n2"], float(rp["fs"]))
        else:
            check_real(P, np.array(rp["x"], dtype=float), np.array(rp["y"], dtype=float), float(rp["fs"]), rp["opts"], rp["kind"], rp["single"])
    return P
