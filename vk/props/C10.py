"""C10 — analytic error bars are the Bendat–Piersol expressions (and, as a support run only, predict the scatter).

Sub-claims evaluated on the REAL `SpectrumResult.__getattr__` (synthetic results over a grid of coherence x averages x magnitude, and real
analyses of independent / weakly / strongly coherent channels):
  a  every `_dev` / `_error` attribute equals the textbook function of the reported estimate, the reported coherence g and the number of
     averages n:  Gxx/sqrt(n); Gyy/sqrt(n); |Gxy|/sqrt(g n); |H| sqrt(1-g)/sqrt(2 g n); sqrt(2g)(1-g)/sqrt(n); 1/sqrt(n); 1/sqrt(g n);
     sqrt(1-g)/sqrt(2 g n); arcsin(sqrt(1-g))/sqrt(2 g n); 180/pi times that; sqrt(2)(1-g)/sqrt(g n)
  b  deviation = estimate x normalised error (four instances)
  c  deviation x sqrt(n) does not change when only n changes
  d  Hxy_mag_error <= Hxy_rad_error <= (pi/2) Hxy_mag_error for every bin with 0 < g <= 1 (no cap, no clipping: tested where g n << 1)
  e  Hxy_rad_error / Hxy_mag_error -> 1 as g -> 1 (0 <= ratio - 1 <= (1-g)/5 for 1-g <= 0.01);  Hxy_deg_error = 180/pi Hxy_rad_error
  f  auto-spectra: the coherence in the formulas is 1 (Gxx_dev = Gxx/sqrt(n), Gyy_dev = Gxx_dev), cross-only names are None
  h  the error bars are a function of the estimate, so no READ-ONLY operation on a result may change them: on auto and cross results (multi-bin,
     single-bin, synthetic; lazy cache cold or warm) every `_dev` / `_error` attribute is snapshotted bit for bit, then a history of operations that
     must not modify a result is performed on the result or on a copy of it (plot with every `which` / errors / sigma / deg / dB / unwrap / ax,
     get_measurement of every error attribute, to_dataframe, get_rms, copy / deepcopy / pickle round trips, reads in another order, repr/len/dir);
     after EVERY step the attributes of the result and of the clones taken before the history are bit-identical to the snapshot, and a-f still hold
  s  (thorough tier, support only, never decided by theorem) Gaussian Monte-Carlo: observed spread of Gxx, coh, |Hxy| over independent
     realisations vs the mean reported deviation; numbers go to the notes, a violation only for a gross (> factor 3) mismatch.
"""
from __future__ import annotations

import copy
import math
import pickle
import warnings
from typing import Any, Dict, List

import numpy as np

from .. import common as C
from . import _an
from . import C09 as S

PROP = "C10"
# obligations of the properties this one is downstream of are obligations of this check too (vk.runner.collect_obligations)
UPSTREAM = ["C05"]
GEN_REGIONS = ["Attrs", "ResultPurity"]
THEOREMS = {
    "SpecKitV.Props.AttrsB": ["Gxx_dev_formula", "Gyy_dev_formula", "Gxy_dev_formula", "Hxy_dev_formula", "coh_dev_formula",
                              "Gxx_error_formula", "Gxy_error_formula", "Hxy_mag_error_formula", "Hxy_rad_error_formula",
                              "Hxy_deg_error_formula", "coh_error_formula",
                              "Gxx_dev_is_est_times_error", "Gxy_dev_is_est_times_error", "Hxy_dev_is_est_times_error", "coh_dev_is_est_times_error",
                              "dev_scales_inv_sqrt_n", "phase_ge_mag", "phase_le_half_pi_mag", "auto_dev_uses_unit_coherence"],
    "SpecKitV.Lemmas.Arcsin": ["le_arcsin_of_nonneg", "arcsin_le_half_pi_mul", "arcsin_div_self_tendsto_one", "magErr_le_radErr",
                               "radErr_le_half_pi_magErr", "radErr_div_magErr_tendsto_one", "radErr_one", "magErr_one"],
    # statistical meaning of the generated Gxx_dev / Gxx_error under the standard model (K pairwise independent periodogram values, mean mu, variance mu^2)
    "SpecKitV.Props.StatModel": ["mean_estimator_unbiased", "mean_estimator_variance", "Gxx_dev_is_sd_at_truth", "Gxx_error_is_relative_sd",
                                 "periodogram_exp_law_cv_one", "StatModel.hypotheses_satisfiable"],
    # no method of a result writes in place an array its cache holds (region ResultPurity: buffer effects of every SpectrumResult method, regenerated
    # each run) — the quantities of this property are read off that cache, in any order, possibly after plot() / get_measurement() / to_dataframe()
    "SpecKitV.Props.ResultPurityGen": ["gen_result_methods_write_no_cached_array", "gen_result_methods_pure", "gen_session_pure", "cRun_clean_of_clean"],
}
CONTRACTS = ["np.arcsin / np.sqrt / np.rad2deg are the real functions arcsin, sqrt, x*180/pi up to rounding"]
ASSUMPTIONS = ["theorems are over the reals for the Lean translation of SpectrumResult.__getattr__ (the `_dev`/`_error` branch), for all 0 < g <= 1, n >= 1, "
               "all magnitudes; rounding is covered by the 1e-10 relative tolerance of the oracle, not by theorem",
               "bins whose reported coherence exceeds 1 by rounding (one-segment bins) or is exactly 0 (a channel without power) are outside the "
               "quantifier 0 < g <= 1: counted as unstable / skipped",
               "NOT decided by theorem (DESIGN §5, C10 'N'): 'for Gaussian data with non-overlapping segments the density, coherence and magnitude "
               "deviations match the observed spread of the estimates over independent realisations' is a distributional statement about the "
               "estimators, not a property of the code path; it is only supported by a thorough-tier Monte-Carlo probe whose numbers are recorded in "
               "the evidence notes and which alarms only on a gross (> factor 3) mismatch (measured on the unchanged tree over 3 seeds x 12 grid points: ratios 0.84 .. 1.38)"]
RULE = ("synthetic: SpectrumResults built from (g in {1e-4, 0.01, 0.3, 0.99, 1-1e-8, 1 (exact), random}, n in {1, 2, 3, 10, 200, 5000, random}, "
        "XX, YY over 40 decades, random phase, fs, S2), cross and auto, each also re-built with another n; real: pairs (independent / weak / strong / "
        "delayed / mixed / identical) and single channels through compute_spectrum and compute_single_bin with Kdes in {1,2,5,20}, all orders and "
        "schedulers; distinct by (source, g decade, n, magnitude decade) resp. (pair kind, order, scheduler); non-trivial = 0 < g < 1 and n >= 2 "
        "(synthetic) / a bin with K >= 2 and 0 < coh < 1 (real); call histories: per round 3 cross results (compute_spectrum, compute_single_bin, "
        "synthetic) and 2 auto results, cache cold / warm, ~45 shuffled read-only operations each (plots of every kind with sigma in {1,2,3,0.5}, "
        "get_measurement per error attribute, to_dataframe, get_rms, copies, pickles, permuted reads) applied to the result / its shallow copy / its "
        "deep copy; distinct by (source, mode, cache state); non-trivial = a plot with an error band and sigma != 1 was drawn")

NAMES = ["Gxx_dev", "Gyy_dev", "Gxy_dev", "Hxy_dev", "coh_dev", "Gxx_error", "Gyy_error", "Gxy_error", "Hxy_mag_error", "Hxy_rad_error",
         "Hxy_deg_error", "coh_error"]
CROSS_ONLY = ["Gxy_dev", "Hxy_dev", "coh_dev", "Gxy_error", "Hxy_mag_error", "Hxy_rad_error", "Hxy_deg_error", "coh_error"]
G_GRID = [1e-4, 0.01, 0.3, 0.99, 1.0 - 1e-8, 1.0]
N_GRID = [1, 2, 3, 10, 200, 5000]
REL = 1e-10


def textbook(Gxx, Gyy, aGxy, aH, g, n) -> Dict[str, np.ndarray]:
    """the Bendat–Piersol expressions, written independently of analysis.py (valid for 0 < g <= 1, n >= 1)"""
    n = np.asarray(n, dtype=float)
    sn = np.sqrt(n)
    return {"Gxx_dev": Gxx / sn, "Gyy_dev": Gyy / sn, "Gxy_dev": aGxy / np.sqrt(g * n),
            "Hxy_dev": aH * np.sqrt(1 - g) / np.sqrt(2 * g * n), "coh_dev": np.sqrt(2 * g) * (1 - g) / sn,
            "Gxx_error": 1 / sn, "Gyy_error": 1 / sn, "Gxy_error": 1 / np.sqrt(g * n),
            "Hxy_mag_error": np.sqrt(1 - g) / np.sqrt(2 * g * n), "Hxy_rad_error": np.arcsin(np.sqrt(1 - g)) / np.sqrt(2 * g * n),
            "Hxy_deg_error": (180.0 / math.pi) * np.arcsin(np.sqrt(1 - g)) / np.sqrt(2 * g * n),
            "coh_error": math.sqrt(2.0) * (1 - g) / (np.sqrt(g) * sn)}


def attrs(res, names) -> Dict[str, Any]:
    with warnings.catch_warnings(), np.errstate(all="ignore"):
        warnings.simplefilter("ignore")
        return {n: getattr(res, n) for n in names}


def check_cross(P: C.Part, res, src: str, rp: Dict[str, Any], label: str, n=None) -> np.ndarray:
    """sub-claims a, b, d, e on one cross result; returns the mask of bins inside the quantifier.
    n = the number of averages: the result's navg, or (real analyses) the number of segments the bin was actually averaged over"""
    A = attrs(res, NAMES + ["Gxx", "Gyy", "Gxy", "Hxy", "coh", "navg"])
    g = np.asarray(A["coh"], dtype=float)
    n = np.asarray(A["navg"] if n is None else n, dtype=float)
    Gxx, Gyy, aG, aH = np.asarray(A["Gxx"]), np.asarray(A["Gyy"]), np.abs(A["Gxy"]), np.abs(A["Hxy"])
    dom = (g > 0) & (g <= 1.0) & (n >= 1) & np.isfinite(g)
    P.unstable += int(np.sum(g > 1.0))
    sig = {"src": src}

    def bad(check: str, name: str, j: int, msg: str) -> None:
        S.add_violation(P, f"{src} {label} bin {j} (g={g[j]!r}, n={int(n[j])}): {msg}", dict(sig, check=check, name=name), dict(rp, check=check, name=name, bin=int(j)))

    for nm in NAMES:
        if A[nm] is None:
            bad("none", nm, 0, f"{nm} is None for a cross-spectral result")
            return dom
    with np.errstate(all="ignore"):
        T = textbook(Gxx, Gyy, aG, aH, np.where(dom, g, 0.5), n)
        est = {"Gxx_dev": (Gxx, "Gxx_error"), "Gyy_dev": (Gyy, "Gyy_error"), "Gxy_dev": (aG, "Gxy_error"), "Hxy_dev": (aH, "Hxy_mag_error"),
               "coh_dev": (g, "coh_error")}
    for j in np.flatnonzero(dom):
        P.cases += 1
        for nm in NAMES:                                               # a
            v, t = float(A[nm][j]), float(T[nm][j])
            if not S.within("a:" + nm, abs(v - t), REL * abs(t)):
                bad("formula", nm, j, f"{nm} = {v!r} but the textbook expression gives {t!r} (Gxx={Gxx[j]!r}, Gyy={Gyy[j]!r}, |Gxy|={aG[j]!r}, |H|={aH[j]!r})")
        for nm, (e, en) in est.items():                                # b
            v, t = float(A[nm][j]), float(e[j]) * float(A[en][j])
            if not S.within("b:" + nm, abs(v - t), REL * abs(t)):
                bad("dev=est*err", nm, j, f"{nm} = {v!r} but estimate x {en} = {t!r}")
        m, r, d = float(A["Hxy_mag_error"][j]), float(A["Hxy_rad_error"][j]), float(A["Hxy_deg_error"][j])
        if not (m <= r * (1 + 1e-12) and r <= (math.pi / 2) * m * (1 + 1e-12)):      # d
            bad("phase-vs-mag", "Hxy_rad_error", j, f"need mag <= rad <= pi/2 mag, got mag = {m!r}, rad = {r!r}, pi/2 mag = {math.pi / 2 * m!r}")
        if 0 < 1 - g[j] <= 0.01 and m > 0 and not (-1e-12 <= r / m - 1 <= (1 - g[j]) / 5 + 1e-12):   # e
            bad("phase->mag", "Hxy_rad_error", j, f"rad/mag - 1 = {r / m - 1!r} exceeds (1-g)/5 = {(1 - g[j]) / 5!r}")
        if g[j] == 1.0 and not (m == 0.0 and r == 0.0):
            bad("phase->mag", "Hxy_rad_error", j, f"g = 1 but mag = {m!r}, rad = {r!r}")
        if not S.within("e:deg", abs(d - r * (180.0 / math.pi)), 1e-14 * abs(d)):
            bad("deg", "Hxy_deg_error", j, f"Hxy_deg_error = {d!r} but 180/pi x Hxy_rad_error = {r * 180.0 / math.pi!r}")
        P.hit("g n << 1" if g[j] * n[j] < 0.05 else ("g ~ 1" if 1 - g[j] < 1e-6 else "generic"))
    return dom


def check_auto(P: C.Part, res, src: str, rp: Dict[str, Any], label: str, n=None) -> None:
    A = attrs(res, NAMES + ["Gxx", "Gyy", "navg"])
    n = np.asarray(A["navg"] if n is None else n, dtype=float)
    Gxx = np.asarray(A["Gxx"])
    sig = {"src": src, "mode": "auto"}

    def bad(check: str, name: str, j: int, msg: str) -> None:
        S.add_violation(P, f"{src} auto {label} bin {j} (n={int(n[j])}): {msg}", dict(sig, check=check, name=name), dict(rp, check=check, name=name, bin=int(j)))
    for nm in CROSS_ONLY:
        P.cases += 1
        if A[nm] is not None:
            bad("none", nm, 0, f"{nm} must be None for an auto-spectrum, got {type(A[nm]).__name__}")
    for nm in ("Gxx_dev", "Gyy_dev", "Gxx_error", "Gyy_error"):
        if A[nm] is None:
            bad("none", nm, 0, f"{nm} is None for an auto-spectrum")
            return
    for j in range(len(n)):
        if not n[j] >= 1:
            continue
        P.cases += 1
        sn = math.sqrt(n[j])
        want = {"Gxx_dev": Gxx[j] / sn, "Gyy_dev": Gxx[j] / sn, "Gxx_error": 1 / sn, "Gyy_error": 1 / sn}
        for nm, t in want.items():
            v = float(A[nm][j])
            if not S.within("f:" + nm, abs(v - t), REL * abs(t)):
                bad("auto-formula", nm, j, f"{nm} = {v!r} but unit-coherence expression gives {t!r} (Gxx={Gxx[j]!r})")
        if not float(A["Gyy_dev"][j]) == float(A["Gxx_dev"][j]):
            bad("auto-formula", "Gyy_dev", j, f"Gyy_dev = {A['Gyy_dev'][j]!r} differs from Gxx_dev = {A['Gxx_dev'][j]!r}")
        if not S.within("b:auto", abs(float(A["Gxx_dev"][j]) - Gxx[j] * float(A["Gxx_error"][j])), REL * abs(Gxx[j] / sn)):
            bad("dev=est*err", "Gxx_dev", j, f"Gxx_dev = {A['Gxx_dev'][j]!r} but Gxx x Gxx_error = {Gxx[j] * float(A['Gxx_error'][j])!r}")


def synth_bins(rng: np.random.Generator, m: int, exact: bool = False) -> List[Dict[str, Any]]:
    out = []
    for k in range(m):
        g = float(G_GRID[k % len(G_GRID)]) if k % 3 else float(rng.choice([rng.uniform(0, 1), 10 ** rng.uniform(-6, 0), 1 - 10 ** rng.uniform(-12, -1)]))
        n = int(N_GRID[(k // len(G_GRID)) % len(N_GRID)]) if k % 4 else int(rng.integers(1, 20000))
        ea, eb = float(rng.uniform(-20, 20)), float(rng.uniform(-20, 20))
        XX, YY = 10 ** ea, 10 ** eb
        ph = float(rng.uniform(-np.pi, np.pi))
        XY = math.sqrt(g * XX * YY) * complex(math.cos(ph), math.sin(ph))
        if exact or g == 1.0:      # exactly representable unit coherence: XX = 2^2a, YY = 2^2b, XY = +-2^(a+b) or +-i 2^(a+b)
            a, b = int(rng.integers(-30, 30)), int(rng.integers(-30, 30))
            XX, YY, XY = 4.0 ** a, 4.0 ** b, (2.0 ** (a + b)) * [1, -1, 1j, -1j][k % 4]
        w = 10 ** rng.uniform(-2, 2)
        out.append({"XX": XX, "YY": YY, "XY": XY, "S12": float((w * rng.uniform(1, 50)) ** 2), "S2": float(w * w * rng.uniform(1, 30)),
                    "M2": float(XX * YY * rng.uniform(0, 1)) if n > 1 else 0.0, "navg": n})
    return out


def bins_out(bins):
    return [dict(b, XY=[complex(b["XY"]).real, complex(b["XY"]).imag]) for b in bins]


def bins_in(bins):
    return [dict(b, XY=complex(b["XY"][0], b["XY"][1])) for b in bins]


def check_synth(P: C.Part, bins: List[Dict[str, Any]], n2: List[int], fs: float) -> None:
    rp = {"fake": bins_out(bins), "n2": [int(v) for v in n2], "fs": fs}
    res = _an.fake_result(bins, True, fs)
    dom = check_cross(P, res, "synthetic", rp, "cross")
    # c: same bins, another number of averages
    res2 = _an.fake_result([dict(b, navg=int(k)) for b, k in zip(bins, n2)], True, fs)
    D1, D2 = attrs(res, ["Gxx_dev", "Gyy_dev", "Gxy_dev", "Hxy_dev", "coh_dev"]), attrs(res2, ["Gxx_dev", "Gyy_dev", "Gxy_dev", "Hxy_dev", "coh_dev"])
    for j in np.flatnonzero(dom):
        a1, a2 = math.sqrt(bins[j]["navg"]), math.sqrt(n2[j])
        for nm in D1:
            if D1[nm] is None or D2[nm] is None:
                continue
            u, v = float(D1[nm][j]) * a1, float(D2[nm][j]) * a2
            if not S.within("c:" + nm, abs(u - v), REL * max(abs(u), abs(v))):
                S.add_violation(P, f"synthetic bin {j}: {nm} x sqrt(n) = {u!r} for n = {bins[j]['navg']} but {v!r} for n = {n2[j]} (everything else equal)",
                                {"src": "synthetic", "check": "sqrt-n-scaling", "name": nm}, dict(rp, check="sqrt-n-scaling", name=nm, bin=int(j)))
        g = float(res.coh[j])
        if 0 < g < 1 and bins[j]["navg"] >= 2:
            P.nontrivial.add(("synthetic", int(math.floor(math.log10(g))), bins[j]["navg"], int(math.log10(bins[j]["XX"]) // 4)))
    # f: the same numbers as an auto-spectrum
    resa = _an.fake_result([dict(b, YY=b["XX"], XY=complex(b["XX"], 0.0)) for b in bins], False, fs)
    check_auto(P, resa, "synthetic", dict(rp, auto=True), "")


def check_real(P: C.Part, x, y, fs, opts, kind: str, single) -> None:
    rp = S.case_replay(x, y, fs, opts, "2xN", "compute_spectrum", single, kind)
    try:
        if single:
            r = S.single_bin(S.stack(x, y, "2xN"), fs, single["freq"], single["L"], opts)
            ra = S.single_bin(np.asarray(x), fs, single["freq"], single["L"], opts)
        else:
            r = S.spectrum(S.stack(x, y, "2xN"), fs, opts)
            ra = S.spectrum(np.asarray(x), fs, opts)
    except Exception as ex:
        P.hit("rejected:" + type(ex).__name__)
        return
    src = "single_bin" if single else "compute_spectrum"
    K = np.array([len(d) for d in r.D])
    dom = check_cross(P, r, src, rp, f"{kind} order={opts.get('order')} sched={opts.get('scheduler')}", n=K)
    check_auto(P, ra, src, rp, f"{kind} order={opts.get('order')}", n=np.array([len(d) for d in ra.D]))
    g = np.asarray(r.coh)
    if bool(np.any(dom & (K >= 2) & (g < 1))):
        P.nontrivial.add((src, kind, int(opts["order"]), str(opts.get("scheduler")), int(opts.get("Kdes", 0))))
    P.hit(f"{src}:{kind}")


# ---------------------------------------------------------------- sub-claim h: call histories that must leave the error bars alone
EST = ["Gxx", "Gyy", "Gxy", "Hxy", "coh", "navg"]
SIGMAS = [1, 2, 3, 0.5]
EXTRA_READS = ["cf", "cf_db", "cf_deg", "cf_rad", "cf_deg_unwrapped", "Hxy", "Hyx", "coh", "ccoh", "asd", "psd", "csd", "tf", "ENBW", "Gxx_emp_dev",
               "Gxy_emp_dev", "XY_emp_dev", "GyySx", "f", "navg"]
PLOT_KEYS = ("dB", "deg", "unwrap", "errors", "sigma", "color", "ylabel")


def bits(v):
    """bit pattern of an attribute value (None stays None)"""
    if v is None:
        return None
    a = np.asarray(v)
    return (a.dtype.str, a.shape, a.tobytes())


def describe_change(old, new) -> str:
    if old is None or new is None or np.shape(new) != np.shape(old) or np.asarray(new).dtype != old.dtype:
        sh = lambda v: "None" if v is None else f"{np.asarray(v).dtype} array of shape {np.shape(v)}"     # noqa: E731
        return f"was {sh(old)} before the history, is {sh(new)} now"
    new = np.asarray(new)
    ne = [j for j in range(old.size) if old.flat[j].tobytes() != new.flat[j].tobytes()]
    j = ne[0] if ne else 0
    o_, n_ = old.flat[j], new.flat[j]
    ratio = f" (ratio {float(n_) / float(o_)!r})" if np.isrealobj(o_) and np.isfinite(o_) and o_ != 0 else ""
    return f"{len(ne)} of {old.size} bins differ; bin {j}: {o_!r} before the history, {n_!r} now{ratio}"


def build_subject(rp: Dict[str, Any]):
    """the result a history runs on, rebuilt from the replay dict alone -> (result, source label, is-cross, averages per bin or None = navg)"""
    auto = bool(rp.get("auto"))
    if "fake" in rp:
        bins = bins_in(rp["fake"])
        if auto:
            bins = [dict(b, YY=b["XX"], XY=complex(b["XX"], 0.0)) for b in bins]
        return _an.fake_result(bins, not auto, float(rp["fs"])), "synthetic", not auto, None
    x = np.array(rp["x"], dtype=float)
    data = x if auto else S.stack(x, np.array(rp["y"], dtype=float), "2xN")
    if rp["single"]:
        r = S.single_bin(data, float(rp["fs"]), rp["single"]["freq"], rp["single"]["L"], rp["opts"])
    else:
        r = S.spectrum(data, float(rp["fs"]), rp["opts"])
    return r, ("single_bin" if rp["single"] else "compute_spectrum"), not auto, np.array([len(d) for d in r.D])


def make_history(rng: np.random.Generator, iscsd: bool, f: np.ndarray, multi: bool, cold: bool) -> List[Dict[str, Any]]:
    """a shuffled list of operations none of which may modify a result (every random choice is stored in the op, so the list replays as is)"""
    b = lambda: bool(rng.integers(2))                                      # noqa: E731
    sig = lambda: SIGMAS[int(rng.integers(4))]                             # noqa: E731
    nz = lambda: [2, 3, 0.5][int(rng.integers(3))]                         # noqa: E731
    on = lambda: ["res", "res", "res", "shallow", "deep"][int(rng.integers(5))]   # noqa: E731

    def pl(which, **kw):
        return dict({"op": "plot", "which": which, "on": on()}, **kw)
    if iscsd:
        first = dict(pl("bode", errors=True, sigma=nz(), deg=True, dB=b(), unwrap=b()), on="res")
        ops = [pl("bode", errors=True, sigma=nz(), deg=False, dB=b(), unwrap=b()),
               pl(None, errors=True, sigma=sig(), deg=b(), dB=b()),
               pl("psd", errors=True, sigma=sig()), pl("asd", errors=True, sigma=sig(), dB=b()), pl("nyquist", errors=True, sigma=sig())]
        singles = [pl(w, errors=True, sigma=sig(), dB=b(), deg=b(), unwrap=b()) for w in ("coh", "csd", "cf")]
        singles[int(rng.integers(3))]["color"] = "C1"
        ops += singles + [pl("bode", errors=False, sigma=nz(), deg=b())] if multi else [singles[int(rng.integers(3))]]
    else:
        first = dict(pl("asd", errors=True, sigma=nz()), on="res")
        ops = [pl("psd", errors=True, sigma=nz(), ax=True, ylabel="y"), pl(None, errors=b(), sigma=sig(), dB=b()),
               pl("bode", errors=True, sigma=nz(), deg=b()), pl("coh", errors=True, sigma=sig()), pl("csd", errors=True, sigma=sig()),
               pl("cf", errors=True, sigma=sig(), dB=b())]
        if multi:
            ops.append(pl("psd", errors=True, sigma=sig(), color="C1", unwrap=b()))
    lo, hi = float(f[0]), float(f[-1])
    span = (hi - lo) if hi > lo else max(abs(lo), 1.0)
    for k, nm in enumerate(NAMES):
        fr = [lo + float(u) * span for u in rng.uniform(-0.2, 1.2, size=3)]
        ops.append({"op": "get_measurement", "name": nm, "freq": fr if (k + int(multi)) % 2 else fr[0], "on": on()})
    ops += [{"op": "to_dataframe", "on": on()}, {"op": "to_dataframe", "on": "res"},
            {"op": "get_rms", "band": None, "on": "res"}, {"op": "get_rms", "band": [lo + 0.1 * span, lo + 0.8 * span], "on": on()},
            {"op": "copy"}, {"op": "deepcopy"}, {"op": "pickle"}, {"op": "repr", "on": on()},
            {"op": "read", "names": [str(v) for v in rng.permutation(NAMES + EXTRA_READS)], "on": on()},
            {"op": "read", "names": [str(v) for v in rng.permutation(NAMES)][::-1], "on": "res"}]
    ops = [ops[int(k)] for k in rng.permutation(len(ops))]
    if cold:                                        # the band of the first plot is computed lazily by the plot itself
        return [first] + ops
    ops.insert(int(rng.integers(len(ops) + 1)), first)
    return ops


def op_text(op: Dict[str, Any]) -> str:
    if op["op"] == "plot":
        return "plot(" + ", ".join([f"which={op.get('which')!r}"] + [f"{k}={op[k]!r}" for k in PLOT_KEYS + ("ax",) if k in op]) + ")"
    if op["op"] == "get_measurement":
        return f"get_measurement({op['freq']!r}, {op['name']!r})"
    if op["op"] == "get_rms":
        return f"get_rms({op.get('band')!r})"
    return op["op"] + ("" if op["op"] != "read" else " " + ",".join(op["names"][:3]) + ",…")


def run_op(objs: Dict[str, Any], op: Dict[str, Any]):
    """perform one read-only operation; returns the name of the exception it raised (recorded, not a violation) or None"""
    import matplotlib.pyplot as plt
    r = objs.get(op.get("on", "res"), objs["res"])
    k = op["op"]
    try:
        with warnings.catch_warnings(), np.errstate(all="ignore"):
            warnings.simplefilter("ignore")
            if k == "plot":
                try:
                    kw = {key: op[key] for key in PLOT_KEYS if key in op}
                    if op.get("ax"):
                        kw["ax"] = plt.subplots()[1]
                    r.plot(op.get("which"), **kw)
                finally:
                    plt.close("all")
            elif k == "get_measurement":
                fr = op["freq"]
                r.get_measurement(np.array(fr, dtype=float) if isinstance(fr, list) else float(fr), op["name"])
            elif k == "to_dataframe":
                r.to_dataframe()
            elif k == "get_rms":
                r.get_rms(tuple(op["band"]) if op.get("band") else None)
            elif k == "read":
                for nm in op["names"]:
                    getattr(r, nm, None)
            elif k == "repr":
                repr(r), len(r), dir(r)
            elif k == "copy":
                objs["copy"] = copy.copy(objs["res"])
            elif k == "deepcopy":
                objs["deepcopy"] = copy.deepcopy(objs["res"])
            elif k == "pickle":
                objs["pickle"] = pickle.loads(pickle.dumps(objs["res"]))
            else:
                raise ValueError(k)
    except Exception as ex:
        return type(ex).__name__
    return None


def run_history(P: C.Part, rp: Dict[str, Any]) -> None:
    """sub-claim h on one result: rp = the subject's construction data + "mode" (cold / warm) + "history" (list of ops)"""
    try:
        res, src, iscsd, K = build_subject(rp)
    except Exception as ex:
        P.hit("history rejected:" + type(ex).__name__)
        return
    hist, mode = list(rp["history"]), str(rp.get("mode", "warm"))
    what = "cross" if iscsd else "auto"
    label = f"history[{mode} cache]"
    sig = {"src": src, "check": "history", "mode": what}

    def predicates(r, who: str, upto: int) -> None:
        rpn = dict(rp, history=hist[:upto])
        if iscsd:
            check_cross(P, r, src, rpn, f"{label} after {upto} operations ({who})", n=K)
        else:
            check_auto(P, r, src, rpn, f"{label} after {upto} operations ({who})", n=K)

    # snapshot: from the result itself (warm: its lazy cache is filled before the history) or from a deep copy (cold: the history starts on an
    # untouched result; the copy computes the same expressions from the same numbers by the same code, hence bit for bit the same values)
    objs: Dict[str, Any] = {"res": res}
    try:
        if mode == "cold":
            objs["ref"] = copy.deepcopy(res)
        A = attrs(objs.get("ref", res), NAMES + EST)
        snap = {nm: (bits(A[nm]), None if A[nm] is None else np.array(A[nm], copy=True)) for nm in A}
        objs["shallow"], objs["deep"] = copy.copy(res), copy.deepcopy(res)
    except Exception as ex:
        P.hit("history rejected:" + type(ex).__name__)
        return
    n0 = len(P.violations)
    predicates(objs.get("ref", res), "reference", 0)
    band = False
    flagged = set()
    for i, op in enumerate(hist):
        if len(P.violations) > n0:
            break
        exc = run_op(objs, op)
        tag = op["op"] + (":" + str(op.get("which")) if op["op"] == "plot" else "")
        P.hit(f"history {what} {tag}" + (" rejected:" + exc if exc else ""))
        if exc is None and op["op"] == "plot" and op.get("errors") and op.get("sigma") != 1:
            band = True
        changed: Dict[str, List[str]] = {}
        first: Dict[str, Any] = {}
        later: List[Any] = []
        for who, r in objs.items():
            try:
                A = attrs(r, NAMES + EST)
            except Exception as ex:
                changed.setdefault("<read>", []).append(who)
                first.setdefault("<read>", f"reading the attributes now raises {type(ex).__name__}: {ex}")
                continue
            for nm in NAMES:
                P.cases += 1
                if bits(A[nm]) != snap[nm][0]:
                    changed.setdefault(nm, []).append(who)
                    first.setdefault(nm, describe_change(snap[nm][1], A[nm]))
            moved = any(bits(A[nm]) != snap[nm][0] for nm in EST)
            if (moved or any(who in w for w in changed.values())) and who not in flagged:   # something moved: the functional forms (a-f) decide too
                flagged.add(who)
                later.append((r, who))
                if moved:
                    P.hit("history: estimate changed")
        for nm, whos in changed.items():
            S.add_violation(P, f"{src} {what} {label}: {nm} of the result changed after operation {i + 1} of {len(hist)}, {op_text(op)} applied to "
                               f"'{op.get('on', 'res')}' (changed on: {', '.join(whos)}): {first[nm]}; a read-only operation must leave the error bars the "
                               f"textbook function of the estimate", dict(sig, name=nm, op=tag),
                            dict(rp, history=hist[:i + 1], check="history", name=nm, step=i + 1))
        for r, who in later:
            predicates(r, who, i + 1)
    else:
        predicates(res, "result", len(hist))
    if band:
        P.nontrivial.add(("history", src, what, mode))
    P.hit(f"history {src} {what} {mode}")


def history_stream(P: C.Part, ctx, rng: np.random.Generator, rounds: int) -> None:
    kinds = ["weak", "mixed", "delayed", "strong", "indep"]
    for rd in range(rounds):
        for k in range(5):
            if ctx.time_left() < (600 if ctx.thorough else 40) or len(P.violations) >= S.MAX_VIOL:
                return
            i = 5 * rd + k
            fs = float(rng.choice([1.0, 2.0, 1000.0, float(rng.uniform(0.1, 1e4))]))
            auto = k >= 3
            mode = ["cold", "warm"][(rd + k) % 2]
            if k == 2 or (k == 4 and rd % 2):                                        # synthetic (corners of g x n) cross / auto
                rp = {"fake": bins_out(synth_bins(rng, int(rng.choice([1, 7, 13])))), "fs": fs, "auto": auto}
            else:
                N = int(rng.choice([257, 1000, 2048]))
                opts = S.cyc_options(rng, N, int(rng.integers(64)))
                opts["Kdes"] = int([2, 5, 20][i % 3])
                x, y = S.pair(rng, N, kinds[i % len(kinds)])
                single = None
                if k in (1, 4):
                    single = {"freq": float(rng.uniform(0.02, 0.48) * fs), "L": int(rng.choice([N // 2, N // 8, int(rng.integers(4, N // 4))]))}
                rp = S.case_replay(x, None if auto else y, fs, opts, "2xN", "compute_spectrum", single, kinds[i % len(kinds)])
                rp["auto"] = auto
            try:
                subj = build_subject(rp)
                f = np.array(subj[0].f, dtype=float)
            except Exception as ex:
                P.hit("history rejected:" + type(ex).__name__)
                continue
            if len(f) == 0:
                continue
            rp["mode"] = mode
            rp["history"] = make_history(rng, subj[2], f, len(f) > 1, mode == "cold")
            run_history(P, rp)
            if rd == 0 and k in (0, 3):
                P.sample({"op": "history", "subject": "synthetic" if "fake" in rp else ("single_bin" if rp["single"] else "compute_spectrum"),
                          "auto": auto, "mode": mode, "nf": int(len(f)), "first operations": [op_text(o) for o in rp["history"][:6]]})


def probe(ctx, P: C.Part) -> None:
    """support run (sub-claim s): Monte-Carlo spread vs reported deviations; non-overlapping Hann segments, white Gaussian input"""
    rng = ctx.rng
    L, fs, R = 64, 1.0, 160
    freq = fs * 8 / L
    rows = []
    for gt in (0.1, 0.3, 0.6, 0.9):
        a = math.sqrt(gt / (1 - gt))
        for nd in (4, 16, 64):
            if ctx.time_left() < 60:
                return
            est, dev = [], []
            for _ in range(R):
                x = rng.standard_normal(nd * L)
                y = a * x + rng.standard_normal(nd * L)
                r = S.single_bin(np.vstack([x, y]), fs, freq, L, {"order": -1, "win": "hann", "olap": 0.0})
                if int(r.navg[0]) != nd:
                    P.notes.append(f"probe: expected {nd} non-overlapping segments, analyzer used {int(r.navg[0])}; probe skipped")
                    return
                est.append([float(r.Gxx[0]), float(r.coh[0]), float(abs(r.Hxy[0]))])
                dev.append([float(r.Gxx_dev[0]), float(r.coh_dev[0]), float(r.Hxy_dev[0])])
            ratio = np.std(np.array(est), axis=0, ddof=1) / np.mean(np.array(dev), axis=0)
            rows.append((gt, nd, ratio))
            P.cases += R
            for nm, q in zip(("Gxx", "coh", "|Hxy|"), ratio):
                if not (1 / 3 <= q <= 3):
                    S.add_violation(P, f"Monte-Carlo (true coherence {gt}, {nd} independent segments, {R} realisations): observed spread of {nm} / mean reported "
                                       f"deviation = {q:.3g}, outside [1/3, 3]", {"src": "probe", "check": "scatter", "name": nm},
                                    {"probe": True, "g": gt, "nd": nd})
    P.notes.append("support probe (not decided by theorem) observed-spread / reported-deviation [Gxx, coh, |Hxy|]: " +
                   "; ".join(f"g={g} n={n}: " + "/".join(f"{q:.2f}" for q in rt) for g, n, rt in rows) + "  (band for remark 0.5..2, alarm only outside 1/3..3)")


# ---------------------------------------------------------------- entry points
def correspondence(ctx) -> C.Part:
    P = C.Part()
    _an.attr_correspondence(ctx, P, NAMES, ctx.scale(40, 400))
    return P


def oracle(ctx, intensive: bool = False, hints: List[Dict[str, Any]] = ()) -> C.Part:
    P = C.Part()
    S.quiet()
    S.MARGIN.clear()
    rng = ctx.rng
    # corpus: the corners named by the property (low coherence x few averages; g -> 1; exact g = 1), fixed numbers
    r0 = np.random.default_rng(10)
    check_synth(P, synth_bins(r0, 72), [int(v) for v in r0.integers(1, 9999, size=72)], 2.0)
    check_synth(P, synth_bins(r0, 16, exact=True), [int(v) for v in r0.integers(1, 9999, size=16)], 1000.0)
    hb = [h for h in hints if isinstance(h, dict) and h.get("mode") == "cross" and isinstance(h.get("bin"), dict) and h["bin"].get("navg", 0) >= 1]
    if hb:
        check_synth(P, [dict(h["bin"], XY=complex(h["bin"]["XY"])) for h in hb[:40]], [int(h["bin"]["navg"]) + 7 for h in hb[:40]], float(hb[0].get("fs", 1.0)))
    history_stream(P, ctx, rng, ctx.scale(1, 6) * (4 if intensive else 1))
    n = ctx.scale(150, 1800) * (4 if intensive else 1)
    kinds = ["indep", "weak", "strong", "delayed", "mixed", "identical"]
    for i in range(n):
        if ctx.time_left() < (600 if ctx.thorough else 25) or len(P.violations) >= S.MAX_VIOL:
            P.notes.append("time budget reached" if len(P.violations) < S.MAX_VIOL else "violation cap reached")
            break
        fs = float(rng.choice([1.0, 2.0, 1000.0, float(rng.uniform(0.1, 1e4))]))
        m = 36
        check_synth(P, synth_bins(rng, m), [int(v) for v in rng.choice(N_GRID + [7, 12345], size=m)], fs)
        kind = kinds[i % len(kinds)]
        N = int(rng.choice([64, 257, 1000, 2048]))
        opts = S.cyc_options(rng, N, i // len(kinds) + i)
        opts["Kdes"] = int([1, 2, 5, 20][(i // 3) % 4])
        x, y = S.pair(rng, N, kind)
        check_real(P, x, y, fs, opts, kind, None)
        if (i // len(kinds) + i) % 3 == 0:
            L = int(rng.choice([N, N // 2, int(rng.integers(4, N // 4))]))
            check_real(P, x, y, fs, opts, kind, {"freq": float(rng.uniform(0.02, 0.48) * fs), "L": L})
        if i < 2:
            P.sample({"op": "oracle", "kind": kind, "N": N, "fs": fs, "opts": opts})
    if ctx.thorough and len(P.violations) == 0:
        probe(ctx, P)
    P.notes.append(S.margins_note("C10"))
    return P


def replay(ctx, data) -> C.Part:
    P = C.Part()
    S.quiet()
    for v in data.get("violations", []):
        rp = v["replay"]
        if rp.get("probe"):
            probe(ctx, P)
        elif "history" in rp:
            run_history(P, rp)
        elif "fake" in rp:
            check_synth(P, bins_in(rp["fake"]), rp["n2"], float(rp["fs"]))
        else:
            check_real(P, np.array(rp["x"], dtype=float), np.array(rp["y"], dtype=float), float(rp["fs"]), rp["opts"], rp["kind"], rp["single"])
    return P
